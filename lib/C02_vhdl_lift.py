"""C02 - VHDL front end, part 3: the LIFTER.  Symbolically executes every process of the
elaborated design (C02_vhdl.Elab) in statement order and emits a netlist in the SAME text
format as harness/netdump.h, so that the VERIFIED product-certificate checker
(coq/Gatery/ProductCert.v, extracted into build/ocaml/C01/driver) can compare it with the
dump of the circuit the exporter serialised.

Semantics of the symbolic execution (TRUSTED, our reading of IEEE 1076 / 1164 / numeric_std):
  * a variable read sees the latest assignment of the same activation; a variable that is read
    while not assigned on every path of this activation is an ERROR (LiftError): in VHDL it would
    show the value of the previous activation (a latch), which the exporter must never rely on
  * a signal read sees the signal's net (value from outside the process / previous delta);
    for a combinational process the fixed point of the delta cycles is the combinational
    function of the net graph, provided the graph is acyclic (checked by the certificate driver)
  * a signal assigned in a PROCESS(all) must be assigned on every path (else: latch -> LiftError)
  * IF c THEN a ELSE b  ->  mux 2 (selector c, data[0]=b, data[1]=a);  CASE with all 2^k
    bit-string choices in order and an OTHERS branch -> mux 2^k on the selector; other CASEs
    -> a chain of 2-input muxes on `cmp EQ` nodes
  * BOOLEAN conditions are lifted to one-bit nodes:  x = '1' -> x,  x = '0' -> NOT x,
    relational operators on UNSIGNED -> `cmp` (operands zero-extended to the longer length, as
    numeric_std does), "="/"/=" on two STD_LOGIC -> `cmp EQ/NEQ`, TRUE/FALSE -> const 1/0,
    bool2stdlogic(b) -> b
  * UNSIGNED "+" "-": `arith` at max(len) after zero extension; "*": `arith MUL` at len+len after
    zero extension (numeric_std result sizes); resize -> rewire (truncate / zero-extend);
    "&" -> rewire concatenation; slices / indices -> rewire ranges; type conversions between
    STD_LOGIC_VECTOR and UNSIGNED -> identity; SHIFT_LEFT/RIGHT(x, to_integer(n)) -> shift ZERO
  * clocked processes must have one of the exporter's shapes (see classify_clocked); each
    assigned signal becomes a `reg` node whose enable is the condition under which it is
    assigned, reset kind / polarity / value come from the reset branch and the signal's
    initial value must equal the reset value (the netlist format has one value for both)

IMPORTANT LIMIT (stated in the evidence): on UNDEFINED values the lifted netlist is evaluated by
the checker with gatery's node semantics, not numeric_std's (VHDL "=" on metavalues is FALSE,
an X condition takes the ELSE branch; gatery yields X / merges).  What the certificate therefore
establishes about the VHDL text is the two-valued agreement (identical outputs whenever the
dumped circuit's run is free of undefined values) and, for runs with undefined values, that the
*lifted* circuit never contradicts the dumped one.
"""
from C02_vhdl import Unsupported, LiftError, Net, AliasNet, Var, base_net, type_width, strip_paren


class SV:
    """symbolic value: a netlist driver (node id, port) with a VHDL type kind"""
    __slots__ = ("ref", "w", "kind", "lit")

    def __init__(self, ref, w, kind, lit=None):
        self.ref, self.w, self.kind, self.lit = ref, w, kind, lit   # lit: literal bit string if this is a literal


def classify_clocked(p):
    """recognises the shapes RegisterProcess::writeVHDL emits.
    -> dict(clk=Net, edge='rising'|'falling', rst=Net|None, active='0'|'1', kind='SYNC'|'ASYNC'|'NONE', reset_body, body)"""
    body = [s for s in p.body if s[0] not in ("null",)]
    if len(body) != 1 or body[0][0] != "if":
        raise Unsupported(f"clocked process {p.label}: body is not a single IF")
    arms, els = body[0][1], body[0][2]

    def edge_of(c):
        c = strip_paren(c)
        if c[0] == "attr" and c[2] == "event" and strip_paren(c[1])[0] == "name":     # (clk'event): both edges
            o = p.scope.lookup(strip_paren(c[1])[1])
            if isinstance(o, (Net, AliasNet)) and o.ty[0] == "sl":
                return base_net(o), "both"
        if c[0] == "call" and c[1] in ("rising_edge", "falling_edge") and len(c[2]) == 1:
            a = strip_paren(c[2][0])
            if a[0] == "name":
                o = p.scope.lookup(a[1])
                if isinstance(o, (Net, AliasNet)) and o.ty[0] == "sl":
                    return base_net(o), ("rising" if c[1] == "rising_edge" else "falling")
        return None

    def reset_of(c):
        c = strip_paren(c)
        if c[0] == "binop" and c[1] == "=":
            a, b = strip_paren(c[2]), strip_paren(c[3])
            if a[0] == "name" and b[0] == "chr" and b[1] in "01":
                o = p.scope.lookup(a[1])
                if isinstance(o, (Net, AliasNet)) and o.ty[0] == "sl":
                    return base_net(o), b[1]
        return None

    if els is not None:
        raise Unsupported(f"clocked process {p.label}: ELSE on the outer IF")
    if len(arms) == 2:
        r, e = reset_of(arms[0][0]), edge_of(arms[1][0])
        if r is None or e is None:
            raise Unsupported(f"clocked process {p.label}: not IF reset ELSIF edge")
        res = dict(clk=e[0], edge=e[1], rst=r[0], active=r[1], kind="ASYNC", reset_body=arms[0][1], body=arms[1][1])
    elif len(arms) == 1:
        e = edge_of(arms[0][0])
        if e is None:
            raise Unsupported(f"clocked process {p.label}: condition is not rising_edge/falling_edge")
        inner = [s for s in arms[0][1] if s[0] != "null"]
        res = dict(clk=e[0], edge=e[1], rst=None, active="1", kind="NONE", reset_body=[], body=inner)
        if len(inner) == 1 and inner[0][0] == "if" and len(inner[0][1]) == 1 and inner[0][2] is not None:
            r = reset_of(inner[0][1][0][0])
            if r is not None and r[0].port is not None and _only_const_assigns(inner[0][1][0][1]):
                res.update(rst=r[0], active=r[1], kind="SYNC", reset_body=inner[0][1][0][1], body=inner[0][2])
    else:
        raise Unsupported(f"clocked process {p.label}: unexpected IF shape")
    want = {res["clk"].id} | ({res["rst"].id} if res["kind"] == "ASYNC" else set())
    if set(p.sens) != want:
        raise LiftError(f"clocked process {p.label}: sensitivity list does not match clock/reset")
    return res


def _only_const_assigns(stmts):
    return all(s[0] == "sassign" and strip_paren(s[2])[0] in ("str", "chr", "agg") for s in stmts) and len(stmts) > 0


class Lifter:
    def __init__(self, elab):
        self.e = elab
        self.lines = []
        self.nid = 0
        self.netnode = {}
        self.stats = dict(mux=0, muxn=0, regs=0, arith=0, cmp=0, rewire=0, logic=0, shift=0, const=0, var_reads=0, sig_reads=0)

    # ---- node emission
    def node(self, text, drivers):
        i = self.nid
        self.nid += 1
        ds = " ".join("-" if d is None else f"{d[0]}.{d[1]}" for d in drivers)
        self.lines.append([i, text, ds])
        return (i, 0)

    def set_drivers(self, ref, drivers):
        self.lines[ref[0]][2] = " ".join("-" if d is None else f"{d[0]}.{d[1]}" for d in drivers)

    @staticmethod
    def norm_bits(s):
        return "".join(c if c in "01" else "1" if c == "H" else "0" if c == "L" else "X" for c in s.upper())

    def const(self, bits, kind):
        self.stats["const"] += 1
        b = self.norm_bits(bits)
        return SV(self.node("const " + (b if b else "e"), []), len(b), kind, lit=b)

    # ---- main
    def lift(self):
        e = self.e
        clocks, resets = set(), {}
        clocked = {}
        for p in e.procs:
            if p.sens is not None:
                c = classify_clocked(p)
                clocked[p.idx] = c
                clocks.add(c["clk"].id)
                if c["rst"] is not None:
                    resets[c["rst"].id] = c
        self.clock_nets, self.reset_nets = clocks, set(resets)
        if len(clocks) > 1:
            raise Unsupported("more than one clock")
        edges = {c["edge"] for c in clocked.values()}
        if edges - {"rising"}:
            raise Unsupported("falling-edge / both-edge clocked process (the circuit model of the certificate checker is rising-edge only) - interpreter route only")
        for n in e.nets:
            if n.ty[0] == "array":
                raise Unsupported("memory (array signal; GenericMemoryEntity) - interpreter route only")
        # one forwarding node per net
        for n in e.nets:
            if n.id in clocks or n.id in resets:
                if n.port is None or n.port[1] != "in":
                    raise Unsupported("clock/reset that is not a top-level input port")
                continue
            if n.kind == "const":
                self.netnode[n.id] = self.const(n.init, n.ty[0]).ref
            elif n.port is not None and n.port[1] == "in":
                self.netnode[n.id] = self.node(f"pin {n.width} 10 {n.port[0]}", [])
            else:
                self.netnode[n.id] = self.node(f"fwd SIGNAL {n.width}", [None])
        for n in e.nets:
            if len(set(n.drivers)) > 1:
                raise LiftError(f"signal {n.name} is driven by several processes")
        driven = set()
        for p in e.procs:
            if p.idx in clocked:
                self.lift_clocked(p, clocked[p.idx], driven)
            else:
                self.lift_comb(p, driven)
        for pn, d, n in e.top_ports:
            if d == "out":
                if n.id not in driven:
                    if n.width != 0:
                        raise LiftError(f"output port {pn} is never assigned")
                    self.set_drivers(self.netnode[n.id], [self.const("", n.ty[0]).ref])   # a null array carries no information
                self.node(f"pin {n.width} 01 {pn}", [self.netnode[n.id]])
        for n in e.nets:
            if n.id in clocks or n.id in resets:
                continue
            if n.kind == "signal" and n.port is None and n.id not in driven:
                # an undriven internal signal keeps its initial value ('U' without initialiser)
                bits = n.init if n.init is not None else "X" * n.width
                self.set_drivers(self.netnode[n.id], [self.const(bits, n.ty[0]).ref])
        return self.text()

    def text(self, tag="lifted"):
        out = ["netlist " + tag]
        for i, t, d in self.lines:
            out.append(f"N {i} {t} | {d}".rstrip() if d else f"N {i} {t} |")
        out.append("endnetlist")
        return "\n".join(out) + "\n"

    # ---- combinational processes
    def lift_comb(self, p, driven):
        env = Env()
        self.cur = p
        self.exec_stmts(p.body, p, env, clocked=False)
        for nid, st in env.sig.items():
            if st.full is not True:
                raise LiftError(f"process {p.label}: signal {self.e.nets[nid].name} is not assigned on every path of a combinational process (latch)")
            self.set_drivers(self.netnode[nid], [st.val.ref])
            driven.add(nid)

    # ---- clocked processes
    def lift_clocked(self, p, c, driven):
        self.cur = p
        rvals = {}
        for s in c["reset_body"]:
            if s[0] != "sassign":
                raise Unsupported(f"{p.label}: reset branch contains {s[0]}")
            o = p.scope.lookup(s[1])
            if not isinstance(o, (Net, AliasNet)):
                raise LiftError(f"{p.label}: reset assignment to non-signal {s[1]}")
            v = self.expr(s[2], p, Env(), o.ty)
            if v.lit is None:
                raise Unsupported(f"{p.label}: reset value of {s[1]} is not a literal")
            if v.w != type_width(o.ty):
                raise LiftError(f"{p.label}: reset literal width for {s[1]}")
            rvals[base_net(o).id] = v.lit
        env = Env()
        self.exec_stmts(c["body"], p, env, clocked=True)
        if set(rvals) - set(env.sig):
            raise Unsupported(f"{p.label}: signal with a reset value but no data assignment")
        for nid, st in env.sig.items():
            n = self.e.nets[nid]
            rv = rvals.get(nid)
            init = self.norm_bits(n.init) if n.init is not None else None
            kind = c["kind"] if rv is not None else "NONE"
            if rv is None and init is not None:
                # register without reset branch but with a power-on value
                rv = init
            elif rv is not None and init is None:
                raise LiftError(f"{p.label}: register {n.name} has reset value {rv} but no initial value "
                                "(reference simulator powers registers on with their reset value)")
            elif rv is not None and init != rv:
                raise LiftError(f"{p.label}: register {n.name}: initial value {init} differs from reset value {rv}")
            en = None
            if st.full is not True:
                en = st.full.ref       # condition under which the signal is assigned
            self.stats["regs"] += 1
            active = 1 if c["active"] == "1" else 0
            reg = self.node(f"reg {n.width} {kind} {active if kind != 'NONE' else 1} {rv if rv is not None and rv != '' else ('e' if rv == '' else '-')} 0",
                            [st.val.ref, None, en])
            self.set_drivers(self.netnode[nid], [reg])
            driven.add(nid)

    # ---- statements
    def exec_stmts(self, stmts, p, env, clocked):
        for s in stmts:
            k = s[0]
            if k == "sassign":
                o = p.scope.lookup(s[1])
                if not isinstance(o, (Net, AliasNet)):
                    raise LiftError(f"{p.label}: '<=' to a non-signal {s[1]}")
                if isinstance(o, AliasNet) and o.dir == "in":
                    raise LiftError(f"{p.label}: assignment to input port {s[1]}")
                v = self.coerce(self.expr(s[2], p, env, o.ty), o.ty, s[1])
                env.sig[base_net(o).id] = St(v, True)
            elif k == "vassign":
                o = p.scope.lookup(s[1])
                if not isinstance(o, Var):
                    raise LiftError(f"{p.label}: ':=' to a non-variable {s[1]}")
                if clocked:
                    raise Unsupported("variable assignment in a clocked process")
                v = self.coerce(self.expr(s[2], p, env, o.ty), o.ty, s[1])
                env.var[id(o)] = St(v, True)
            elif k == "if":
                self.exec_if(s[1], s[2], p, env, clocked)
            elif k == "case":
                self.exec_case(s, p, env, clocked)
            elif k in ("assert", "null"):
                pass
            elif k == "sassign_idx":
                raise Unsupported("memory write (array signal) - interpreter route only")
            else:
                raise Unsupported("statement " + k)

    def exec_if(self, arms, els, p, env, clocked):
        c = self.cond(arms[0][0], p, env)
        e1 = env.fork()
        self.exec_stmts(arms[0][1], p, e1, clocked)
        e0 = env.fork()
        if len(arms) > 1:
            self.exec_if(arms[1:], els, p, e0, clocked)
        elif els is not None:
            self.exec_stmts(els, p, e0, clocked)
        self.merge(env, c, e0, e1)

    def merge(self, env, c, e0, e1):
        """env := c ? e1 : e0 for every object assigned in either branch"""
        for which in ("sig", "var"):
            base = getattr(env, which)
            m0, m1 = getattr(e0, which), getattr(e1, which)
            for key in list(dict.fromkeys(list(m0) + list(m1))):
                s0, s1 = m0.get(key), m1.get(key)
                if s0 is s1:
                    continue
                if s0 is not None and s1 is not None and s0.full is True and s1.full is True:
                    base[key] = St(self.mux2(c, s0.val, s1.val), True)
                    continue
                # partially assigned: value = mux with the other branch's (or any) value, `full` = condition of assignment
                f0 = self.const("0", "sl") if s0 is None else (self.const("1", "sl") if s0.full is True else s0.full)
                f1 = self.const("0", "sl") if s1 is None else (self.const("1", "sl") if s1.full is True else s1.full)
                v0 = s0.val if s0 is not None else s1.val
                v1 = s1.val if s1 is not None else s0.val
                if s0 is None and s1.full is True:
                    full = SV(c.ref, 1, "bool")                  # IF c THEN x <= v; END IF;  -> assigned iff c
                elif s1 is None and s0.full is True:
                    self.stats["logic"] += 1
                    full = SV(self.node("logic NOT 1", [c.ref]), 1, "bool")
                else:
                    full = self.mux2(c, f0, f1)
                base[key] = St(self.mux2(c, v0, v1), full)

    def exec_case(self, s, p, env, clocked):
        sel = self.expr(s[1], p, env, None)
        if sel.kind not in ("uns", "slv", "sl"):
            raise Unsupported("CASE selector type " + sel.kind)
        arms = s[2]
        if not arms or arms[-1][0] != "others":
            raise Unsupported("CASE without OTHERS")
        choices = []
        for ch, body in arms[:-1]:
            c = strip_paren(ch)
            if c[0] == "str":
                bits = c[1]
            elif c[0] == "chr":
                bits = c[1]
            else:
                raise Unsupported("CASE choice is not a literal")
            if len(bits) != sel.w or any(b not in "01" for b in bits):
                raise LiftError(f"{p.label}: CASE choice \"{bits}\" does not fit the selector")
            choices.append(int(bits, 2) if bits else 0)
        if len(set(choices)) != len(choices):
            raise LiftError(f"{p.label}: duplicate CASE choice")
        envs = []
        for ch, body in arms:
            ei = env.fork()
            self.exec_stmts(body, p, ei, clocked)
            envs.append(ei)
        n = len(choices)
        # the exporter's shape: choices 0..n-1 in order, every branch assigns exactly one and the same object
        keys = [(w, k) for ei in envs for w in ("sig", "var") for k in getattr(ei, w) if getattr(ei, w)[k] is not getattr(env, w).get(k)]
        uniq = list(dict.fromkeys(keys))
        if choices == list(range(n)) and n >= 1 and len(uniq) == 1 and all(
                getattr(ei, uniq[0][0]).get(uniq[0][1]) is not None and getattr(ei, uniq[0][0])[uniq[0][1]].full is True for ei in envs):
            which, key = uniq[0]
            vals = [getattr(ei, which)[key].val for ei in envs]
            w = vals[0].w
            if any(v.w != w for v in vals):
                raise LiftError("CASE branches of different width")
            others = vals[-1]
            if n == (1 << sel.w):
                data = vals[:-1]        # OTHERS unreachable for two-valued selectors
            elif others.lit is not None and set(others.lit) <= {"X"}:
                data = vals[:-1]        # non-total mux: out-of-range selector -> undefined, as Node_Multiplexer
            else:
                data = None
            if data is not None:
                self.stats["muxn"] += 1
                ref = self.node(f"mux {len(data)} {w}", [sel.ref] + [v.ref for v in data])
                getattr(env, which)[key] = St(SV(ref, w, vals[0].kind if vals[0].kind != "str" else vals[-1].kind), True)
                return
        # general case: chain of comparisons, last choice innermost
        acc = envs[-1]
        for i in range(n - 1, -1, -1):
            lit = self.const(format(choices[i], "0%db" % sel.w) if sel.w else "", "uns")
            self.stats["cmp"] += 1
            c = SV(self.node("cmp EQ", [sel.ref, lit.ref]), 1, "sl")
            tmp = env.fork()
            self.merge(tmp, c, acc, envs[i])
            acc = tmp
        env.sig, env.var = acc.sig, acc.var

    def mux2(self, c, v0, v1):
        if v0.w != v1.w:
            raise LiftError(f"{self.cur.label}: IF branches assign values of different width ({v1.w} / {v0.w})")
        if v0.ref == v1.ref:
            return v0
        self.stats["mux"] += 1
        kind = v1.kind if v1.kind != "str" else v0.kind
        return SV(self.node(f"mux 2 {v0.w}", [c.ref, v0.ref, v1.ref]), v0.w, kind)

    def coerce(self, v, ty, what):
        k, w = ty[0], type_width(ty)
        if k == "sl":
            if v.kind != "sl":
                raise LiftError(f"{self.cur.label}: type mismatch assigning {v.kind} to STD_LOGIC {what}")
            return v
        if k in ("slv", "uns"):
            if v.kind not in ("str", k):
                raise LiftError(f"{self.cur.label}: type mismatch assigning {v.kind} to {k} {what}")
            if v.w != w:
                raise LiftError(f"{self.cur.label}: length mismatch assigning to {what}: {v.w} vs {w}")
            return SV(v.ref, w, k, v.lit)
        if k == "bool":
            if v.kind != "bool":
                raise LiftError(f"{self.cur.label}: type mismatch assigning to BOOLEAN {what}")
            return v
        raise Unsupported("object type " + k)

    # ---- conditions and expressions
    def cond(self, e, p, env):
        v = self.expr(e, p, env, ("bool",))
        if v.kind != "bool":
            raise LiftError(f"{p.label}: condition is not BOOLEAN")
        return v

    def read(self, o, p, env, name):
        if isinstance(o, Var):
            st = env.var.get(id(o))
            self.stats["var_reads"] += 1
            if st is None:
                raise LiftError(f"process {p.label}: variable {name} is read before it is assigned (VHDL would use the value of the previous activation)")
            if st.full is not True:
                raise LiftError(f"process {p.label}: variable {name} is read but only assigned on some paths")
            return st.val
        n = base_net(o)
        self.stats["sig_reads"] += 1
        if n.id in self.clock_nets or n.id in self.reset_nets:
            raise Unsupported(f"clock/reset {name} used as data")
        return SV(self.netnode[n.id], n.width, o.ty[0])

    def zext(self, v, w):
        if v.w == w:
            return v
        self.stats["rewire"] += 1
        if v.w == 0:
            return SV(self.node(f"rewire 1 {w} Z 0 0", [None]), w, v.kind)
        return SV(self.node(f"rewire 2 {v.w} I 0 0 {w - v.w} Z 0 0", [v.ref]), w, v.kind)

    def slice_(self, v, lo, w, kind):
        self.stats["rewire"] += 1
        return SV(self.node(f"rewire 1 {w} I 0 {lo}", [v.ref]), w, kind)

    def expr(self, e, p, env, ctx):
        k = e[0]
        if k == "paren":
            return self.expr(e[1], p, env, ctx)
        if k == "name":
            o = p.scope.lookup(e[1])
            if o is None:
                raise Unsupported("unknown name " + e[1])
            return self.read(o, p, env, e[1])
        if k == "str":
            return self.const(e[1], "str")
        if k == "chr":
            return self.const(e[1], "sl")
        if k == "bool":
            v = self.const("1" if e[1] else "0", "bool")
            return v
        if k == "int":
            raise Unsupported("integer literal as a value")
        if k == "unop":
            a = self.expr(e[2], p, env, ctx)
            if a.kind not in ("sl", "slv", "uns", "bool", "str"):
                raise LiftError("'not' on " + a.kind)
            self.stats["logic"] += 1
            return SV(self.node(f"logic NOT {a.w}", [a.ref]), a.w, a.kind)
        if k == "binop":
            return self.binop(e, p, env, ctx)
        if k == "index":
            a = self.expr(e[1], p, env, None)
            if a.kind not in ("slv", "uns"):
                raise LiftError("index into " + a.kind)
            if not (0 <= e[2] < a.w):
                raise LiftError(f"{p.label}: index {e[2]} out of range {a.w - 1} downto 0")
            return self.slice_(a, e[2], 1, "sl")
        if k == "slice":
            a = self.expr(e[1], p, env, None)
            if a.kind not in ("slv", "uns"):
                raise LiftError("slice of " + a.kind)
            hi, lo = e[2], e[3]
            if hi < lo or lo < 0 or hi >= a.w:
                raise LiftError(f"{p.label}: slice {hi} downto {lo} out of range {a.w - 1} downto 0")
            return self.slice_(a, lo, hi - lo + 1, a.kind)
        if k == "agg":
            ch, v = e[1][0]
            x = self.expr(v, p, env, ("sl",))
            if x.kind != "sl":
                raise LiftError("aggregate element is not STD_LOGIC")
            if ch == "others":
                if ctx is None or ctx[0] not in ("slv", "uns"):
                    raise Unsupported("(others => ..) without a constrained target")
                w = type_width(ctx)
                if x.lit is None:
                    raise Unsupported("(others => non-literal)")
                return self.const(x.lit * w, ctx[0])
            if ch != 0:
                raise Unsupported("aggregate choice other than 0")
            return SV(x.ref, 1, "str", x.lit)
        if k == "qual":
            a = self.expr(e[2], p, env, (e[1], 0, 0))
            if a.kind not in ("str", e[1]):
                raise LiftError(f"{p.label}: qualified expression {e[1]}'(..) applied to {a.kind}")
            return SV(a.ref, a.w, e[1], a.lit)
        if k == "dynindex":
            raise Unsupported("memory read (array signal) - interpreter route only")
        if k == "call":
            return self.call(e, p, env, ctx)
        raise Unsupported("expression " + k)

    LOGIC = {"and": "AND", "or": "OR", "xor": "XOR", "nand": "NAND", "nor": "NOR", "xnor": "EQ"}
    CMP = {"=": "EQ", "/=": "NEQ", "<": "LT", ">": "GT", "<=": "LEQ", ">=": "GEQ"}

    def binop(self, e, p, env, ctx):
        op = e[1]
        if op in self.LOGIC:
            a, b = self.expr(e[2], p, env, ctx), self.expr(e[3], p, env, ctx)
            ka = {a.kind, b.kind} - {"str"}
            if len(ka) > 1:
                raise LiftError(f"{p.label}: '{op}' between {a.kind} and {b.kind}")
            if a.w != b.w:
                raise LiftError(f"{p.label}: '{op}' on operands of different length {a.w} / {b.w}")
            self.stats["logic"] += 1
            return SV(self.node(f"logic {self.LOGIC[op]} {a.w}", [a.ref, b.ref]), a.w, ka.pop() if ka else "str")
        if op in ("+", "-", "*"):
            a, b = self.expr(e[2], p, env, ("uns", 0, 0)), self.expr(e[3], p, env, ("uns", 0, 0))
            if a.kind not in ("uns", "str") or b.kind not in ("uns", "str"):
                raise LiftError(f"{p.label}: '{op}' on {a.kind} and {b.kind} (numeric_std defines it for UNSIGNED)")
            w = a.w + b.w if op == "*" else max(a.w, b.w)
            a, b = self.zext(a, w), self.zext(b, w)
            self.stats["arith"] += 1
            return SV(self.node(f"arith {'ADD' if op == '+' else 'SUB' if op == '-' else 'MUL'} {w}", [a.ref, b.ref]), w, "uns")
        if op == "&":
            a, b = self.expr(e[2], p, env, None), self.expr(e[3], p, env, None)
            kinds = {a.kind, b.kind} - {"sl", "str"}
            if len(kinds) > 1 or not ({a.kind, b.kind} <= {"sl", "str", "slv", "uns"}):
                raise LiftError(f"{p.label}: '&' between {a.kind} and {b.kind}")
            self.stats["rewire"] += 1
            parts = [x for x in (b, a) if x.w > 0]       # LSB part first
            if not parts:
                return self.const("", "str")
            desc = " ".join(f"{x.w} I {i} 0" for i, x in enumerate(parts))
            return SV(self.node(f"rewire {len(parts)} {desc}", [x.ref for x in parts]), a.w + b.w, kinds.pop() if kinds else "str")
        if op in self.CMP:
            a, b = self.expr(e[2], p, env, None), self.expr(e[3], p, env, None)
            if a.kind == "sl" and b.kind == "sl":
                # x = '1' is TRUE exactly when x is '1'
                for x, y in ((a, b), (b, a)):
                    if y.lit is not None and y.lit in ("0", "1") and op in ("=", "/="):
                        pos = (y.lit == "1") == (op == "=")
                        if x.lit is not None:
                            continue
                        if pos:
                            return SV(x.ref, 1, "bool")
                        self.stats["logic"] += 1
                        return SV(self.node("logic NOT 1", [x.ref]), 1, "bool")
                if op not in ("=", "/="):
                    raise Unsupported("ordering comparison on STD_LOGIC")
                self.stats["cmp"] += 1
                return SV(self.node("cmp " + self.CMP[op], [a.ref, b.ref]), 1, "bool")
            if a.kind == "bool" and b.kind == "bool" and op in ("=", "/="):
                self.stats["cmp"] += 1
                return SV(self.node("cmp " + self.CMP[op], [a.ref, b.ref]), 1, "bool")
            if "uns" in (a.kind, b.kind) and a.kind in ("uns", "str") and b.kind in ("uns", "str"):
                w = max(a.w, b.w)
                a, b = self.zext(a, w), self.zext(b, w)
                self.stats["cmp"] += 1
                return SV(self.node("cmp " + self.CMP[op], [a.ref, b.ref]), 1, "bool")
            if "slv" in (a.kind, b.kind) and a.kind in ("slv", "str") and b.kind in ("slv", "str") and op in ("=", "/="):
                if a.w != b.w:
                    raise Unsupported("STD_LOGIC_VECTOR equality on different lengths")
                self.stats["cmp"] += 1
                return SV(self.node("cmp " + self.CMP[op], [a.ref, b.ref]), 1, "bool")
            raise LiftError(f"{p.label}: '{op}' between {a.kind} and {b.kind}")
        raise Unsupported("operator " + op)

    def call(self, e, p, env, ctx):
        f, args = e[1], e[2]
        if f in ("unsigned", "std_logic_vector"):
            if len(args) != 1:
                raise Unsupported("conversion arity")
            a = self.expr(args[0], p, env, None)
            if a.kind not in ("slv", "uns"):
                raise LiftError(f"{p.label}: type conversion {f}(..) applied to {a.kind}")
            return SV(a.ref, a.w, "uns" if f == "unsigned" else "slv", a.lit)
        if f == "resize":
            if len(args) != 2 or strip_paren(args[1])[0] != "int":
                raise Unsupported("resize with a non-literal size")
            a = self.expr(args[0], p, env, ("uns", 0, 0))
            if a.kind not in ("uns", "str"):
                raise LiftError(f"{p.label}: resize on {a.kind}")
            n = strip_paren(args[1])[1]
            if n <= a.w:
                if n == a.w:
                    return SV(a.ref, n, "uns")
                return self.slice_(a, 0, n, "uns")
            return self.zext(SV(a.ref, a.w, "uns"), n)
        if f in ("shift_left", "shift_right"):
            a = self.expr(args[0], p, env, ctx)
            akind = a.kind if a.kind != "str" else (ctx[0] if ctx is not None else "str")   # a literal takes the type the context demands
            if akind != "uns":
                raise LiftError(f"{p.label}: {f} on {'slv' if akind in ('slv', 'str') else akind} (numeric_std defines it for UNSIGNED/SIGNED)")
            n = strip_paren(args[1])
            if n[0] == "call" and n[1] == "to_integer" and len(n[2]) == 1:
                amt = self.expr(n[2][0], p, env, ("uns", 0, 0))
                if amt.kind != "uns":
                    raise LiftError(f"{p.label}: to_integer on {amt.kind}")
                if amt.w > 31:
                    raise Unsupported("to_integer of more than 31 bits (INTEGER overflow not modelled)")
            else:
                raise Unsupported(f + " with a count that is not to_integer(..)")
            self.stats["shift"] += 1
            return SV(self.node(f"shift {'LEFT' if f == 'shift_left' else 'RIGHT'} ZERO {a.w}", [a.ref, amt.ref]), a.w, "uns")
        if f == "bool2stdlogic":
            a = self.expr(args[0], p, env, ("bool",))
            if a.kind != "bool":
                raise LiftError("bool2stdlogic on " + a.kind)
            return SV(a.ref, 1, "sl", a.lit)
        if f == "stdlogic2bool":
            a = self.expr(args[0], p, env, ("sl",))
            if a.kind != "sl":
                raise LiftError("stdlogic2bool on " + a.kind)
            return SV(a.ref, 1, "bool", a.lit)
        raise Unsupported("function " + f)


class St:
    """state of an object inside a symbolic activation: value and whether it is assigned on every
    path so far (True) or the one-bit condition (SV) under which it is assigned"""
    __slots__ = ("val", "full")

    def __init__(self, val, full):
        self.val, self.full = val, full


class Env:
    def __init__(self):
        self.sig, self.var = {}, {}

    def fork(self):
        e = Env()
        e.sig, e.var = dict(self.sig), dict(self.var)
        return e


def lift_files(paths, top="top"):
    import C02_vhdl as P
    el = P.load(paths, top)
    lf = Lifter(el)
    return lf.lift(), lf, el
