"""Seeded generator of small design programs WITH memories (for the verified certificate on
circuits with memories, NetMemDefs/MachineCert): depth 2..3 words, width 1..2, 1-2 write
ports under IF conditions, 1-2 read ports declared before / between / after the writes,
optional read register (latency 1), optional read-modify-write data, noConflicts, initZero."""
import random


def gen_mem_design(seed, did, fill_prob=0.15, exact_lookup=False):
    """exact_lookup: shape aimed at partially undefined READ ADDRESSES (differential checks only, too big for
    certificates): power-of-two depth 4 or 8, EXACT undefined-address mode, fully defined pairwise different words"""
    r = random.Random(seed)
    s = [f"design {did}"]
    depth = r.choice([2, 2, 3, 4])
    width = r.choice([1, 1, 2])
    if exact_lookup:
        depth, width = r.choice([4, 4, 8]), r.choice([2, 3, 4])
    abits = 1 if depth == 2 else 2 if depth <= 4 else 3
    opts = []
    if r.random() < 0.25 and not exact_lookup: opts.append("noconf")
    if r.random() < 0.2 and not exact_lookup: opts.append("zero")
    if r.random() < 0.3 or exact_lookup: opts.append("exact")          # UndefinedReadAddrBehavior::EXACT (scl::Sequencer uses it)
    if exact_lookup:
        words = r.sample(range(1 << width), min(depth, 1 << width))
        while len(words) < depth: words.append(r.randrange(1 << width))
        opts.append("fill=" + "".join(format(w, f"0{width}b") for w in reversed(words)))
    elif "zero" not in opts and r.random() < fill_prob:
        # declared power-on contents (mostly defined, words differ): reads are informative from the first cycle on
        opts.append("fill=" + "".join(("X" if r.random() < 0.08 else r.choice("01")) for _ in range(depth * width)))
    in_bits = 0
    def pin(prefix, w, bit=False):
        nonlocal in_bits
        n = f"{prefix}{len(s)}"
        s.append(f"inb {n}" if bit else f"in {n} {w}")
        in_bits += w
        return n
    wa = pin("wa", abits)
    ra = pin("ra", abits) if r.random() < 0.7 else wa
    wd = pin("wd", width)
    we = pin("we", 1, True)
    s.append("mem M %d %d %s" % (depth, width, " ".join(opts)))
    nports = r.choice([2, 3, 3, 4])
    kinds = ["w", "r"] + [r.choice("wr") for _ in range(nports - 2)]
    r.shuffle(kinds)
    outs = []
    nw = 0
    last_read = None
    for k in kinds:
        if k == "r":
            a = r.choice([ra, wa])
            n = f"rd{len(s)}"
            k = r.random()
            if k < 0.3:
                # forward-declared read signal with a consumer attached BEFORE it is bound: the consumer hangs on the
                # signal node of the (still referenced) frontend object, which hangs directly on the read port
                s.append(f"loopvar {n} {width}")
                fo = f"f{len(s)}"
                s.append(f"out {fo} {n}")
                s.append(f"membind {n} M {a}")
            else:
                s.append(f"{'memreadf' if k < 0.55 else 'memread'} {n} M {a}")
            last_read = n
            if r.random() < 0.35:
                q = f"rq{len(s)}"
                s.append(f"reg {q} {n}" + (" rst " + "0" * width if r.random() < 0.5 else ""))
                outs.append(q)
            else:
                outs.append(n)
        else:
            nw += 1
            if nw > 2:
                continue
            a = wa if nw == 1 or in_bits >= 6 else pin("wb", abits)
            d = wd
            if last_read is not None and r.random() < 0.3:
                d2 = f"x{len(s)}"
                s.append(f"bin {d2} xor {last_read} {wd}")
                d = d2
            cond = we
            if nw == 2:
                cond = we if in_bits >= 7 or r.random() < 0.4 else pin("wf", 1, True)
            if r.random() < 0.85:
                s.append(f"if {cond}")
                s.append(f"memwrite M {a} {d}")
                s.append("endif")
            else:
                s.append(f"memwrite M {a} {d}")
    for i, o in enumerate(outs):
        s.append(f"out o{i} {o}")
    if r.random() < 0.5:
        s.append("dropall")
    return s
