"""Shared machinery for all property checks (see DESIGN.md §2, §5).

Every check script `checks/Cxx.py` uses this module to
  * rebuild gatery from /repo's *current working tree* with hooks on,
  * (re)build its C++ harness binary and its extracted OCaml model driver,
  * rebuild the Coq development and re-check `Properties_Cxx.v`
    (obligations / discharged / Print Assumptions),
  * write evidence/Cxx.json, replays, VIOLATION / KNOWN-FINDING lines.

Exit codes: 0 = held, 1 = violation (line printed), 2 = infrastructure error.
"""
import fcntl, hashlib, json, os, re, subprocess, sys, time, glob, shutil
from pathlib import Path

VERIF = Path(__file__).resolve().parent.parent
# VERIF_REPO / VERIF_BUILD_DIR are only for experiments on scratch copies (mutation
# testing in a worktree); registered checks always run with the defaults.
BUILD = Path(os.environ.get("VERIF_BUILD_DIR", str(VERIF / "build")))
REPO = Path(os.environ.get("VERIF_REPO", "/repo"))
GATERY_B = BUILD / "gatery"
COQ = VERIF / "coq"
NCPU = os.cpu_count() or 4

# Axioms that may appear under Print Assumptions (all declared by Coq's standard
# library, none by us); anything else makes the obligation count as not discharged.
ALLOWED_AXIOMS = {
    "functional_extensionality_dep", "FunctionalExtensionality.functional_extensionality_dep",
    "Eqdep.Eq_rect_eq.eq_rect_eq", "eq_rect_eq",
    "proof_irrelevance", "ProofIrrelevance.proof_irrelevance",
    "JMeq_eq", "JMeq.JMeq_eq",
    "classic", "Classical_Prop.classic",
}


def seed():
    try:
        return int(os.environ.get("VERIF_SEED", "1"))
    except ValueError:
        return 1


def tier(argv=None):
    argv = sys.argv if argv is None else argv
    t = os.environ.get("VERIF_TIER")
    if "--tier" in argv:
        t = argv[argv.index("--tier") + 1]
    return t if t in ("quick", "thorough") else "quick"


class Lock:
    """Serialises build steps between concurrently running checks (re-entrant within a process)."""
    _held = {}     # path -> [file, depth]
    def __init__(self, name="build"):
        BUILD.mkdir(exist_ok=True)
        # everything that touches the shared Coq tree is serialised by ONE lock that lives in that tree
        # (independent of the build directory), other steps by a lock per name in the build directory
        self.path = str((VERIF / "coq" / ".coq.lock") if name.startswith("coq") else BUILD / f".{name}.lock")
    def __enter__(self):
        h = Lock._held.get(self.path)
        if h:
            h[1] += 1
            return self
        f = open(self.path, "w")
        fcntl.flock(f, fcntl.LOCK_EX)
        Lock._held[self.path] = [f, 1]
        return self
    def __exit__(self, *a):
        h = Lock._held[self.path]
        h[1] -= 1
        if h[1] == 0:
            fcntl.flock(h[0], fcntl.LOCK_UN)
            h[0].close()
            del Lock._held[self.path]


def run(cmd, timeout=None, cwd=None, env=None, input=None, check=False):
    """Run a command, return (rc, stdout+stderr)."""
    e = dict(os.environ)
    if env:
        e.update(env)
    try:
        p = subprocess.run(cmd, cwd=cwd, env=e, input=input, capture_output=True,
                           text=True, errors="replace", timeout=timeout, shell=isinstance(cmd, str))
        out = p.stdout + p.stderr
        rc = p.returncode
    except subprocess.TimeoutExpired as ex:
        out = ((ex.stdout or b"").decode("utf8", "replace") if isinstance(ex.stdout, bytes) else (ex.stdout or "")) + "\n[timeout]"
        rc = 124
    if check and rc != 0:
        infra_error(f"command failed ({rc}): {cmd}\n{out[-3000:]}")
    return rc, out


def infra_error(msg):
    print("INFRASTRUCTURE-ERROR:", msg, file=sys.stderr)
    sys.exit(2)


# --------------------------------------------------------------------------
# gatery + harness
# --------------------------------------------------------------------------

def build_gatery():
    with Lock():
        rc, out = run([str(VERIF / "bin" / "build_gatery.sh")], timeout=3600)
    if rc != 0:
        infra_error("gatery build failed:\n" + out[-4000:])


CXXFLAGS = ["-std=gnu++23", "-fcoroutines", "-O1", "-DNOMINMAX", "-DGATERY_VERIF",
            "-DBOOST_STACKTRACE_USE_BACKTRACE", f"-I{REPO}/source", f"-I{GATERY_B}/gen",
            f"-I{VERIF}/harness", "-Wno-deprecated-declarations"]
LDLIBS = ["-Wl,--start-group", f"{GATERY_B}/libgatery_scl.a", f"{GATERY_B}/libgatery_core.a",
          "-Wl,--end-group", "-lboost_system", "-lboost_filesystem", "-lboost_thread",
          "-lboost_iostreams", "-lboost_json", "-lyaml-cpp", "-ldl", "-lbacktrace", "-lpthread"]
# experiments only (e.g. --coverage for bin/tie_coverage.sh); registered checks run without it
_extra = os.environ.get("VERIF_EXTRA_CXXFLAGS", "").split()
CXXFLAGS += _extra
LDLIBS += _extra


def _newest_header_mtime():
    m = 0.0
    for root, _, files in os.walk(REPO / "source"):
        for f in files:
            if f.endswith((".h", ".hpp", ".inl")):
                try:
                    m = max(m, os.path.getmtime(os.path.join(root, f)))
                except OSError:
                    pass
    for f in glob.glob(str(VERIF / "harness" / "*.h")):
        m = max(m, os.path.getmtime(f))
    return m


def build_harness(name, sources=None, extra_flags=()):
    """Build build/harness/<name> from harness/<name>.cpp (or `sources`).
    Rebuilt when the source, any header under /repo/source, or the libraries are
    newer than the binary.  Call build_gatery() first."""
    hd = BUILD / "harness"
    hd.mkdir(parents=True, exist_ok=True)
    srcs = [VERIF / "harness" / s for s in (sources or [name + ".cpp"])]
    exe = hd / name
    libs = [GATERY_B / "libgatery_scl.a", GATERY_B / "libgatery_core.a"]
    with Lock("harness_" + name):
        need = not exe.exists()
        if not need:
            t = exe.stat().st_mtime
            deps = [s.stat().st_mtime for s in srcs] + [l.stat().st_mtime for l in libs] + [_newest_header_mtime()]
            need = any(d > t for d in deps)
        if need:
            cmd = ["g++"] + CXXFLAGS + list(extra_flags) + [str(s) for s in srcs] + ["-o", str(exe)] + LDLIBS
            rc, out = run(cmd, timeout=1800)
            if rc != 0:
                infra_error(f"harness {name} failed to build:\n{out[-4000:]}")
    return str(exe)


# --------------------------------------------------------------------------
# Coq
# --------------------------------------------------------------------------

def coq_project():
    """(Re)generate coq/_CoqProject and coq/Makefile from the files on disk."""
    files = sorted(str(p.relative_to(COQ)) for p in (COQ / "Gatery").rglob("*.v"))
    txt = "-Q Gatery Gatery\n" + "\n".join(files) + "\n"
    cp = COQ / "_CoqProject"
    if not cp.exists() or cp.read_text() != txt or not (COQ / "Makefile").exists():
        cp.write_text(txt)
        run(["coq_makefile", "-f", "_CoqProject", "-o", "Makefile"], cwd=COQ, check=True)


def coq_make(targets=(), timeout=3000):
    """make -k of the given .vo targets (default: everything). Returns (rc, log)."""
    with Lock("coqproject"):
        coq_project()
    cmd = ["make", "-k", f"-j{NCPU}"] + [str(t) for t in targets]
    return run(cmd, cwd=COQ, timeout=timeout)


_THM = re.compile(r"^\s*(?:Theorem|Lemma|Corollary)\s+([A-Za-z0-9_']+)", re.M)
_PA = re.compile(r"^\s*Print Assumptions\s+([A-Za-z0-9_'.]+)\s*\.", re.M)


def check_properties(cid, extra_files=()):
    """Rebuild everything Properties_<cid>.v depends on, then compile that file
    afresh and collect the kernel's verdict for every theorem in it.

    Returns dict(obligations=[names], discharged=[names], axioms={name:[...]},
                 failed=[names], log=str, ok=bool)."""
    pf = COQ / "Gatery" / f"Properties_{cid}.v"
    src = pf.read_text()
    names = _THM.findall(src)
    pas = _PA.findall(src)
    for bad in ("Admitted", "admit.", "Axiom ", "Parameter ", "Conjecture "):
        if bad in src:
            return dict(obligations=names, discharged=[], failed=names, axioms={}, ok=False,
                        log=f"forbidden token {bad!r} in {pf.name}")
    vo = pf.with_suffix(".vo")
    with Lock("coqproject"):
        coq_project()
    with Lock("coq_" + cid):
        if vo.exists():
            vo.unlink()
        rel = f"Gatery/Properties_{cid}.vo"
        rc, log = run(["make", "-k", f"-j{NCPU}", rel] + list(extra_files), cwd=COQ, timeout=3000)
    discharged, failed, axioms = [], [], {}
    if rc == 0 and vo.exists():
        # split the Print Assumptions output blocks in order
        blocks = re.split(r"^(?=Closed under the global context|Axioms:)", log, flags=re.M)
        blocks = [b for b in blocks if b.startswith("Closed under") or b.startswith("Axioms:")]
        for i, n in enumerate(pas):
            ax = []
            if i < len(blocks) and blocks[i].startswith("Axioms:"):
                for line in blocks[i].splitlines()[1:]:
                    m = re.match(r"^([A-Za-z0-9_'.]+)\s*:", line)
                    if m:
                        ax.append(m.group(1))
                    elif line and not line[0].isspace():
                        break
            axioms[n] = ax
        for n in names:
            ax = axioms.get(n)
            if ax is None:
                failed.append(n)  # theorem without Print Assumptions: not accepted
            elif all(a in ALLOWED_AXIOMS or a.split(".")[-1] in ALLOWED_AXIOMS for a in ax):
                discharged.append(n)
            else:
                failed.append(n)
    else:
        # which theorem broke?  everything before the error line in Properties_<cid>.v
        # compiled; if a dependency broke, nothing is discharged.
        m = re.search(rf'File "\./Gatery/Properties_{cid}\.v", line (\d+)', log)
        if m:
            errline = int(m.group(1))
            for mm in _THM.finditer(src):
                ln = src.count("\n", 0, mm.start()) + 1
                # a theorem is discharged if its Print Assumptions line precedes the error
                pa = re.search(rf"Print Assumptions\s+{re.escape(mm.group(1))}\s*\.", src)
                paln = src.count("\n", 0, pa.start()) + 1 if pa else 10**9
                (discharged if paln < errline else failed).append(mm.group(1))
        else:
            failed = list(names)
    return dict(obligations=names, discharged=discharged, failed=failed, axioms=axioms,
                ok=(rc == 0 and not failed and len(names) > 0), log=log[-6000:])


def scan_forbidden():
    """grep the development for forbidden constructs; returns list of hits."""
    hits = []
    pat = re.compile(r"\b(Admitted|admit|Axiom|Axioms|Parameter|Parameters|Conjecture|Abort All)\b|Unset Guard|bypass_check|Unset Positivity|Unset Universe|type-in-type")
    for p in (COQ / "Gatery").rglob("*.v"):
        txt = re.sub(r"\(\*.*?\*\)", "", p.read_text(), flags=re.S)
        for i, line in enumerate(txt.splitlines(), 1):
            if pat.search(line):
                hits.append(f"{p.name}:{i}: {line.strip()}")
    return hits


last_model_log = ""


def build_model(cid, extract_file=None, driver=None, name=None):
    """Extract coq/extract/Extract_<cid>.v and link it with ocaml/<cid>_driver.ml into
    build/ocaml/<cid>/driver.  The build happens in a private directory and the binary is
    moved into place atomically, so a concurrently running check never sees it missing.
    Returns the path of the driver executable, or None when the extraction file no longer compiles."""
    global last_model_log
    name = name or cid
    od = BUILD / "ocaml" / name
    od.mkdir(parents=True, exist_ok=True)
    ef = COQ / "extract" / (extract_file or f"Extract_{cid}.v")
    dr = VERIF / "ocaml" / (driver or f"{cid}_driver.ml")
    exe = od / "driver"
    with Lock("ocaml_" + name):
        vos = list((COQ / "Gatery").rglob("*.vo"))
        newest = max([ef.stat().st_mtime, dr.stat().st_mtime] + [v.stat().st_mtime for v in vos])
        if exe.exists() and exe.stat().st_mtime >= newest:
            return str(exe)
        wd = od / f"build.{os.getpid()}"
        if wd.exists():
            shutil.rmtree(wd)
        wd.mkdir()
        try:
            with Lock("coq_extract"):      # reads the compiled model files: not while a make rewrites them
                rc, out = run(["coqc", "-Q", str(COQ / "Gatery"), "Gatery", "-o", str(wd / (ef.stem + ".vo")), str(ef)],
                              cwd=wd, timeout=1200)
            last_model_log = out
            if rc != 0:
                return None  # model did not compile: reported by caller as broken tie
            mls = sorted(p.name for p in wd.glob("*.ml"))
            mlis = sorted(p.name for p in wd.glob("*.mli"))
            shutil.copy(dr, wd / "driver_main.ml")
            cmd = ["ocamlfind", "ocamlopt", "-w", "-a", "-package", "str,unix", "-linkpkg"]
            for ml in mls:
                mli = ml + "i"
                if mli in mlis:
                    cmd.append(mli)
                cmd.append(ml)
            cmd += ["driver_main.ml", "-o", "driver"]
            rc, out = run(cmd, cwd=wd, timeout=1200)
            if rc != 0:
                infra_error(f"ocaml build for {cid} failed:\n{out[-4000:]}")
            os.replace(wd / "driver", exe)
            for f in wd.glob("*.ml*"):
                shutil.copy(f, od / f.name)   # keep the extracted sources next to the binary for inspection
        finally:
            shutil.rmtree(wd, ignore_errors=True)
    return str(exe)


# --------------------------------------------------------------------------
# evidence / violations / known findings
# --------------------------------------------------------------------------

TRUSTED_BASE_COMMON = [
    "Coq 8.16.1 kernel (coqc); vm_compute used for finite-domain decisions; no native_compute",
    "no Axiom/Parameter/Admitted declared in the development (scanned on every run)",
    "Coq Extraction with ExtrOcamlBasic directives only (bool/option/unit/list/prod/sumbool -> OCaml natives); no Extract Constant",
    "OCaml 4.13.1 compiler/runtime and the hand-written line-protocol driver",
    "C++ harness (generators, dumpers) linked against gatery built from /repo's working tree with -DGATERY_VERIF",
]


def known_findings(cid):
    """Returns (known, fixed): lists of the text after 'property=<cid> '."""
    known, fixed = [], []
    f = VERIF / "KNOWN_FINDINGS.txt"
    if f.exists():
        for line in f.read_text().splitlines():
            line = line.strip()
            m = re.match(r"^(known|fixed):\s*property=(\S+)\s+(.*)$", line)
            if m and m.group(2) == cid:
                (known if m.group(1) == "known" else fixed).append(m.group(3))
    return known, fixed


class Report:
    def __init__(self, cid, level="proof"):
        self.cid = cid
        self.level = level
        self.t0 = time.time()
        self.tier = tier()
        self.seed = seed()
        self.cov = dict(evaluations=0, distinct_nontrivial=0, rule="", samples=[],
                        obligations=0, discharged=0, checker_cmd="", trusted_base=list(TRUSTED_BASE_COMMON))
        self.assumptions = []
        self.violations = []   # (replay_path, nofail)
        self.known_hits = []

    def add_proof(self, res, checker_cmd=None):
        self.cov["obligations"] += len(res["obligations"])
        self.cov["discharged"] += len(res["discharged"])
        self.cov.setdefault("theorems", []).extend(
            {"name": n, "status": "discharged" if n in res["discharged"] else "FAILED",
             "axioms": res["axioms"].get(n, [])} for n in res["obligations"])
        self.cov["checker_cmd"] = checker_cmd or (
            f"make -C coq -k Gatery/Properties_{self.cid}.vo  (coqc 8.16.1, full .vo build, Print Assumptions per theorem)")
        allax = sorted({a for n in res["axioms"] for a in res["axioms"][n]})
        if allax:
            self.cov["trusted_base"].append("standard-library axioms reported by Print Assumptions: " + ", ".join(allax))
        else:
            self.cov["trusted_base"].append("Print Assumptions: every property theorem is closed under the global context")

    def violation(self, replay_obj, nofail=False, tag=None):
        """Record a violation; writes the replay file. Known findings are filtered by caller."""
        d = VERIF / "replays" / self.cid
        d.mkdir(parents=True, exist_ok=True)
        blob = json.dumps(replay_obj, indent=1, sort_keys=True, default=str)
        h = hashlib.sha1(blob.encode()).hexdigest()[:12]
        p = d / f"{tag or 'v'}_{h}.json"
        p.write_text(blob)
        self.violations.append((str(p), nofail))
        return str(p)

    def known(self, what):
        self.known_hits.append(what)

    def finish(self):
        ev = dict(property_id=self.cid, tier=self.tier, seed=self.seed, level=self.level,
                  coverage=self.cov, assumptions=self.assumptions,
                  wall_s=round(time.time() - self.t0, 2), violations=len(self.violations))
        evd = Path(os.environ.get("VERIF_EVIDENCE_DIR", str(VERIF / "evidence")))   # sub-checks write elsewhere and are merged by their parent
        evd.mkdir(parents=True, exist_ok=True)
        (evd / f"{self.cid}.json").write_text(json.dumps(ev, indent=1, default=str))
        for w in self.known_hits:
            print(f"KNOWN-FINDING: property={self.cid} {w}")
        for p, nofail in self.violations:
            print(f"VIOLATION property={self.cid} replay={p}" + (" no-failing-input-found" if nofail else ""))
        sys.stdout.flush()
        sys.exit(1 if self.violations else 0)
