"""Seeded, shape-directed generator of design programs (DESIGN.md Appendix B).

A program is a list of statement strings interpreted by harness/netdump.h through the
real gatery frontend.  Designs are kept small in *state and input bits* (so that the
verified product-reachability checker can enumerate them) but rich in *shape*: every
template targets one rewrite of the post processors or one case split of the proofs.
"""
import random


class Gen:
    def __init__(self, rng, max_in_bits=5, max_reg_bits=5):
        self.r = rng
        self.s = []
        self.vars = {}       # name -> ('u', w) | ('b', 1)
        self.n = 0
        self.in_bits = 0
        self.reg_bits = 0
        self.max_in = max_in_bits
        self.max_reg = max_reg_bits
        self.templates = []

    # ---- helpers -------------------------------------------------------
    def fresh(self, p="t"):
        self.n += 1
        return f"{p}{self.n}"

    def emit(self, line):
        self.s.append(line)

    def uvars(self, w=None):
        return [k for k, v in self.vars.items() if v[0] == 'u' and (w is None or v[1] == w)]

    def bvars(self):
        return [k for k, v in self.vars.items() if v[0] == 'b']

    def new_in(self, w):
        if self.in_bits + max(w, 1) > self.max_in:
            c = self.uvars(w)
            if c:
                return self.r.choice(c)
            w = 1
            if self.in_bits + 1 > self.max_in:
                c = self.uvars()
                return self.r.choice(c) if c else self.lit_u(w)
        n = self.fresh("i")
        self.emit(f"in {n} {w}")
        self.vars[n] = ('u', w)
        self.in_bits += w
        return n

    def new_inb(self):
        if self.in_bits + 1 > self.max_in:
            c = self.bvars()
            if c:
                return self.r.choice(c)
            return self.lit_b()
        n = self.fresh("c")
        self.emit(f"inb {n}")
        self.vars[n] = ('b', 1)
        self.in_bits += 1
        return n

    def lit_u(self, w, xprob=0.15):
        n = self.fresh("k")
        bits = "".join(('X' if self.r.random() < xprob else self.r.choice("01")) for _ in range(w)) or "e"
        self.emit(f"lit {n} u{w} {bits}")
        self.vars[n] = ('u', w)
        return n

    def lit_b(self, xprob=0.1):
        n = self.fresh("k")
        v = 'X' if self.r.random() < xprob else self.r.choice("01")
        self.emit(f"lit {n} b {v}")
        self.vars[n] = ('b', 1)
        return n

    def some_u(self, w):
        c = self.uvars(w)
        if c and self.r.random() < 0.75:
            return self.r.choice(c)
        if self.r.random() < 0.5:
            v = self.new_in(w)
            return v if self.vars.get(v) == ('u', w) else self.lit_u(w)
        return self.lit_u(w)

    def get_u(self, w):
        v = self.some_u(w)
        if self.vars[v] != ('u', w):
            v = self.lit_u(w)
        return v

    def get_b(self):
        c = self.bvars()
        if c and self.r.random() < 0.7:
            return self.r.choice(c)
        if self.r.random() < 0.6:
            return self.new_inb()
        return self.cond()

    def cond(self):
        """a fresh Bit computed from existing things"""
        k = self.r.random()
        n = self.fresh("b")
        if k < 0.35:
            w = self.r.choice([1, 2, 2, 3])
            a, b = self.get_u(w), self.get_u(w)
            self.emit(f"bin {n} {self.r.choice(['eq','ne','lt','gt','le','ge'])} {a} {b}")
        elif k < 0.6 and self.bvars():
            a, b = self.get_b(), self.get_b()
            self.emit(f"bin {n} {self.r.choice(['and','or','xor','nand','nor','xnor'])} {a} {b}")
        elif k < 0.75 and self.bvars():
            self.emit(f"not {n} {self.get_b()}")
        elif k < 0.9 and self.uvars():
            a = self.r.choice(self.uvars())
            w = self.vars[a][1]
            if w == 0:
                return self.new_inb()
            self.emit(f"bit {n} {a} {self.r.randrange(w)}")
        else:
            return self.new_inb()
        self.vars[n] = ('b', 1)
        if self.r.random() < 0.3:
            self.emit(f"name {n} n_{n}")
        return n

    def expr(self, w):
        """a fresh UInt(w) computed from existing things"""
        n = self.fresh("t")
        k = self.r.random()
        if w == 0:
            self.emit(f"lit {n} u0 e")
        elif k < 0.30:
            op = self.r.choice(['and', 'or', 'xor', 'nand', 'nor', 'xnor', 'add', 'sub', 'mul'])
            self.emit(f"bin {n} {op} {self.get_u(w)} {self.get_u(w)}")
        elif k < 0.40:
            self.emit(f"not {n} {self.get_u(w)}")
        elif k < 0.55:
            self.emit(f"mux {n} {self.get_b()} {self.get_u(w)} {self.get_u(w)}")
        elif k < 0.65 and w >= 2:
            w1 = self.r.randrange(1, w)
            self.emit(f"bin {n} cat {self.get_u(w1)} {self.get_u(w - w1)}")
        elif k < 0.75:
            big = self.r.choice([w, w + 1, w + 2])
            off = self.r.randrange(0, big - w + 1)
            self.emit(f"slice {n} {self.get_u(big)} {off} {w}")
        elif k < 0.82 and w >= 2:
            small = self.r.randrange(1, w)
            self.emit(f"{self.r.choice(['zext','oext','sext'])} {n} {self.get_u(small)} {w}")
        elif k < 0.90:
            sw = self.r.choice([1, 2])
            self.emit(f"bin {n} {self.r.choice(['shl','shr','rotl','rotr'])} {self.get_u(w)} {self.get_u(sw)}")
        else:
            sw = self.r.choice([1, 2])
            k2 = self.r.choice([2, 3, 4]) if sw == 2 else 2
            tab = " ".join(self.get_u(w) for _ in range(k2))
            self.emit(f"mux {n} {self.get_u(sw)} {tab}")
        self.vars[n] = ('u', w)
        if self.r.random() < 0.2:
            self.emit(f"name {n} n_{n}")
        return n

    def t_rewire(self):
        """chains of slices / extensions / concatenations / bit picks (mergeRewires, Node_Rewire::optimize):
        a rewire fed by rewires, constants in the middle, a slice of a concatenation crossing the seam"""
        w = self.r.choice([2, 3, 3, 4])
        cur = self.get_u(w)
        for _ in range(self.r.choice([2, 3, 3, 4])):
            w = self.vars[cur][1]
            n = self.fresh("q")
            k = self.r.random()
            if k < 0.3 and w >= 2:
                sw = self.r.randrange(1, w); off = self.r.randrange(0, w - sw + 1)
                self.emit(f"slice {n} {cur} {off} {sw}"); nw = sw
            elif k < 0.55 and w <= 3:
                ow = self.r.choice([1, 2])
                other = self.lit_u(ow, xprob=0.2) if self.r.random() < 0.5 else self.get_u(ow)
                a, b = (cur, other) if self.r.random() < 0.5 else (other, cur)
                self.emit(f"bin {n} cat {a} {b}"); nw = w + ow
            elif k < 0.75 and w <= 3:
                nw = w + self.r.choice([1, 2])
                self.emit(f"{self.r.choice(['zext', 'oext', 'sext'])} {n} {cur} {nw}")
            elif k < 0.9 and w >= 2:
                # reassemble from single bits in a permuted order
                idx = list(range(w)); self.r.shuffle(idx)
                parts = []
                for i in idx[:self.r.choice([2, w])]:
                    b = self.fresh("b"); self.emit(f"bit {b} {cur} {i}"); self.vars[b] = ('b', 1)
                    parts.append(b)
                v = self.fresh("y"); self.emit(f"var {v} {self.lit_u(len(parts), xprob=0.0)}"); self.vars[v] = ('u', len(parts))
                for j, b in enumerate(parts):
                    self.emit(f"setbit {v} {j} {b}")
                self.emit(f"slice {n} {v} 0 {len(parts)}"); nw = len(parts)
            else:
                self.emit(f"not {n} {cur}"); nw = w
            self.vars[n] = ('u', nw)
            if self.r.random() < 0.25:
                self.emit(f"name {n} n_{n}")
            cur = n
        return cur

    def t_xovr(self):
        """export override: the simulated value is the first operand, the second (different logic) is what the
        exported design would use; post-processing must keep simulating the first (not used by the VHDL checks)"""
        w = self.r.choice([1, 2, 2])
        a = self.expr(w)
        b = self.expr(w)
        n = self.fresh("x")
        self.emit(f"xovr {n} {a} {b}")
        self.vars[n] = ('u', w)
        if self.r.random() < 0.4:
            self.emit(f"name {n} n_{n}")
        if self.r.random() < 0.5:
            o = self.fresh("t")
            self.emit(f"bin {o} {self.r.choice(['and', 'or', 'xor', 'add'])} {n} {self.get_u(w)}")
            self.vars[o] = ('u', w)
            return o
        return n

    def t_edges(self):
        """registers on a derived clock of the SAME clock pin (falling / both edges, own reset kind, polarity and
        reset pin) next to rising-edge registers, data crossing between the edges in both directions.  Outside
        the single-clock certificate model (reported as unsupported there): decided by the differential oracle on
        the real traces only."""
        c = self.fresh("ck")
        opts = [self.r.choice(["falling", "falling", "both", ""]), self.r.choice(["", "rst=sync", "rst=async", "rst=none"]),
                self.r.choice(["", "", "act=low"]), self.r.choice(["", "", f"rstname=r{c}"])]
        self.emit(("dclk " + c + " " + " ".join(o for o in opts if o)).strip())
        w = self.r.choice([1, 2])
        x = self.get_u(w)
        a = self.fresh("r")
        self.emit(f"clk {c}")
        self.emit(f"reg {a} {x}" + (f" rst {''.join(self.r.choice('01') for _ in range(w))}" if self.r.random() < 0.7 else ""))
        self.emit("endclk")
        self.vars[a] = ('u', w); self.reg_bits += w
        b = self.fresh("r")
        self.emit(f"reg {b} {a}" + (f" rst {''.join(self.r.choice('01') for _ in range(w))}" if self.r.random() < 0.5 else ""))
        self.vars[b] = ('u', w); self.reg_bits += w
        if self.r.random() < 0.5:
            d = self.fresh("r")
            self.emit(f"clk {c}")
            self.emit(f"bin {d}x xor {b} {x}")
            self.emit(f"reg {d} {d}x")
            self.emit("endclk")
            self.vars[d] = ('u', w); self.reg_bits += w
            return d
        return b

    def t_attached_reset(self):
        """reset values ATTACHED to signal objects (Bit::resetValue, Enum::resetValue) and used by reg(signal, settings);
        enum signals; a struct of (UInt, Bit, Enum) registered member-wise.  Copies of such signals must carry the
        attached value along (C11: pass-through copies), post-processing must keep the registers' reset values (C01)."""
        if self.reg_bits + 3 > self.max_reg:
            return self.expr(2)
        u = self.get_u(2)
        e = self.fresh("e")
        self.emit(f"toenum {e} {u}" + (f" rst {self.r.randrange(4)}" if self.r.random() < 0.8 else ""))
        kind = self.r.random()
        if kind < 0.45:
            self.reg_bits += 2
            r = self.fresh("e"); self.emit(f"regs {r} {e}")
            o = self.fresh("t"); self.emit(f"ofenum {o} {r}")
            self.vars[o] = ('u', 2)
            return o
        bsrc = self.get_b()
        b = self.fresh("b")
        self.emit(f"bitrst {b} {bsrc} {self.r.choice('01')}")
        self.vars[b] = ('b', 1)
        if kind < 0.7:
            self.reg_bits += 1
            rb = self.fresh("r"); self.emit(f"regs {rb} {b}")
            self.vars[rb] = ('b', 1)
            return rb
        # struct: UInt member without reset, Bit and Enum members with their attached reset values
        self.reg_bits += 5
        a = self.get_u(2)
        sa, sb, se = self.fresh("s"), self.fresh("s"), self.fresh("e")
        self.emit(f"regst {sa} {sb} {se} {a} {b} {e}")
        self.vars[sa] = ('u', 2); self.vars[sb] = ('b', 1)
        o = self.fresh("t"); self.emit(f"ofenum {o} {se}")
        self.vars[o] = ('u', 2)
        x = self.fresh("t")
        self.emit(f"mux {x} {sb} {sa} {o}")
        self.vars[x] = ('u', 2)
        return x

    def t_cmpconst(self):
        """comparisons against constants (removeIrrelevantComparisons, ensureNoLiteralComparison): 1-bit
        operands compared with '0' / '1' / X, both operand orders, == and !=, used as condition and as data"""
        a = self.get_b() if self.r.random() < 0.7 else None
        n = self.fresh("b")
        if a is not None:
            k = self.lit_b(xprob=0.12)                 # BOOL == BOOL constant: identity / inverter / undefined
            x, y = (a, k) if self.r.random() < 0.5 else (k, a)
            self.emit(f"bin {n} {self.r.choice(['eq', 'ne'])} {x} {y}")
        else:
            w = self.r.choice([1, 2])
            ua, k = self.get_u(w), self.lit_u(w, xprob=0.1)
            x, y = (ua, k) if self.r.random() < 0.5 else (k, ua)
            self.emit(f"bin {n} {self.r.choice(['eq', 'ne', 'lt', 'gt', 'le', 'ge'])} {x} {y}")
        self.vars[n] = ('b', 1)
        if self.r.random() < 0.3:
            self.emit(f"name {n} n_{n}")
        w = self.r.choice([1, 2])
        o = self.fresh("t")
        self.emit(f"mux {o} {n} {self.get_u(w)} {self.get_u(w)}")
        self.vars[o] = ('u', w)
        return o

    # ---- templates -----------------------------------------------------
    def t_ifchain(self, depth=0):
        w = self.r.choice([1, 2, 2, 3])
        y = self.fresh("y")
        self.emit(f"var {y} {self.get_u(w)}")
        self.vars[y] = ('u', w)
        self._ifblock([y], w, depth)
        return y

    def _ifblock(self, ys, w, depth):
        c = self.get_b()
        self.emit(f"if {c}")
        self._assigns(ys, w, depth)
        for _ in range(self.r.choice([0, 0, 1, 2])):
            self.emit(f"elif {self.get_b()}")
            self._assigns(ys, w, depth)
        if self.r.random() < 0.6:
            self.emit("else")
            self._assigns(ys, w, depth)
        self.emit("endif")

    def _assigns(self, ys, w, depth):
        saved = dict(self.vars)
        for _ in range(self.r.choice([1, 1, 2])):
            y = self.r.choice(ys)
            k = self.r.random()
            if k < 0.65 or w < 2:
                self.emit(f"set {y} {self.get_u(w)}")
            elif k < 0.85:
                sw = self.r.randrange(1, w)
                off = self.r.randrange(0, w - sw + 1)
                self.emit(f"setslice {y} {off} {sw} {self.get_u(sw)}")
            else:
                self.emit(f"setbit {y} {self.r.randrange(w)} {self.get_b()}")
            if depth < 2 and self.r.random() < 0.3:
                self._ifblock(ys, w, depth + 1)
        # variables created inside a scope stay usable (they are plain signals), keep them

    def t_muxchain(self):
        """comparison chain on one selector (mergeBinaryMuxChain, finding F2 shape)"""
        sw = 2
        s = self.get_u(sw)
        w = self.r.choice([1, 2])
        y = self.fresh("y")
        self.emit(f"var {y} {self.get_u(w)}")
        self.vars[y] = ('u', w)
        vals = list(range(4))
        self.r.shuffle(vals)
        vals = vals[:self.r.choice([3, 3, 4])]
        if self.r.random() < 0.4:
            # the same constant tested twice with different assigned values: the LAST assignment wins (sequential IFs)
            vals.insert(self.r.randrange(1, len(vals) + 1), self.r.choice(vals))
        seen_vals = {}
        for v in vals:
            k = self.lit_u(sw, xprob=0.0)
            # overwrite literal with the exact value
            self.s[-1] = f"lit {k} u{sw} {v:02b}"
            c = self.fresh("b")
            self.emit(f"bin {c} eq {s} {k}")
            self.vars[c] = ('b', 1)
            self.emit(f"if {c}")
            if vals.count(v) > 1:
                # both assignments under the repeated constant are explicit, different literals
                bits = format(self.r.randrange(1 << w), f"0{w}b")
                while bits == seen_vals.get(v):
                    bits = format(self.r.randrange(1 << w), f"0{w}b")
                seen_vals[v] = bits
                kk = self.fresh("k")
                self.emit(f"lit {kk} u{w} {bits}")
                self.vars[kk] = ('u', w)
                self.emit(f"set {y} {kk}")
            else:
                self.emit(f"set {y} {self.get_u(w)}")
            self.emit("endif")
        if self.r.random() < 0.6:
            # a following mux on the same selector that is entered through its TRUE input
            z = self.fresh("z")
            self.emit(f"var {z} {self.get_u(w)}")
            self.vars[z] = ('u', w)
            k = self.lit_u(sw, xprob=0.0)
            self.s[-1] = f"lit {k} u{sw} {self.r.randrange(4):02b}"
            c = self.fresh("b")
            self.emit(f"bin {c} eq {s} {k}")
            self.vars[c] = ('b', 1)
            self.emit(f"if {c}")
            self.emit(f"set {z} {y}")
            self.emit("endif")
            return z
        return y

    def t_muxmerge(self):
        """mux(c, mux(c', a, b), d) with equal / negated / De-Morgan-related conditions through named signals"""
        w = self.r.choice([1, 2])
        p, q = self.get_b(), self.get_b()
        c1 = self.fresh("b")
        kind = self.r.choice(["same", "neg", "demorgan", "demorgan_and", "demorgan_and", "and_sub", "notnamed"])
        if kind == "same":
            self.emit(f"bin {c1} and {p} {q}")
            self.vars[c1] = ('b', 1)
            c2 = self.fresh("b"); self.emit(f"bin {c2} and {p} {q}"); self.vars[c2] = ('b', 1)
        elif kind == "neg":
            self.emit(f"bin {c1} and {p} {q}"); self.vars[c1] = ('b', 1)
            c2 = self.fresh("b"); self.emit(f"not {c2} {c1}"); self.vars[c2] = ('b', 1)
        elif kind == "demorgan":
            a = self.fresh("b"); self.emit(f"bin {a} and {p} {q}"); self.vars[a] = ('b', 1)
            self.emit(f"name {a} n_{a}")
            self.emit(f"not {c1} {a}"); self.vars[c1] = ('b', 1)
            np_, nq = self.fresh("b"), self.fresh("b")
            self.emit(f"not {np_} {p}"); self.emit(f"not {nq} {q}")
            self.vars[np_] = ('b', 1); self.vars[nq] = ('b', 1)
            c2 = self.fresh("b"); self.emit(f"bin {c2} and {np_} {nq}"); self.vars[c2] = ('b', 1)
        elif kind == "demorgan_and":
            # NOT over a NAMED and, inside a larger conjunction, vs the De-Morgan-wrong flat conjunction (finding F1)
            r_ = self.get_b()
            a = self.fresh("b"); self.emit(f"bin {a} and {p} {q}"); self.vars[a] = ('b', 1)
            self.emit(f"name {a} n_{a}")
            na = self.fresh("b"); self.emit(f"not {na} {a}"); self.vars[na] = ('b', 1)
            self.emit(f"bin {c1} and {na} {r_}"); self.vars[c1] = ('b', 1)
            np_, nq = self.fresh("b"), self.fresh("b")
            self.emit(f"not {np_} {p}"); self.emit(f"not {nq} {q}")
            self.vars[np_] = ('b', 1); self.vars[nq] = ('b', 1)
            nn = self.fresh("b"); self.emit(f"bin {nn} and {np_} {nq}"); self.vars[nn] = ('b', 1)
            c2 = self.fresh("b"); self.emit(f"bin {c2} and {nn} {r_}"); self.vars[c2] = ('b', 1)
        elif kind == "and_sub":
            self.emit(f"bin {c1} and {p} {q}"); self.vars[c1] = ('b', 1)
            c2 = p
        else:
            self.emit(f"not {c1} {p}"); self.vars[c1] = ('b', 1)
            self.emit(f"name {c1} n_{c1}")
            c2 = self.fresh("b"); self.emit(f"not {c2} {c1}"); self.vars[c2] = ('b', 1)
        inner = self.fresh("t")
        self.emit(f"mux {inner} {c2} {self.get_u(w)} {self.get_u(w)}")
        self.vars[inner] = ('u', w)
        if self.r.random() < 0.4:
            self.emit(f"name {inner} n_{inner}")
        outer = self.fresh("t")
        if self.r.random() < 0.5:
            self.emit(f"mux {outer} {c1} {inner} {self.get_u(w)}")
        else:
            self.emit(f"mux {outer} {c1} {self.get_u(w)} {inner}")
        self.vars[outer] = ('u', w)
        return outer

    def t_noop(self):
        w = self.r.choice([1, 2, 3])
        x = self.get_u(w)
        n = self.fresh("t")
        k = self.r.choice(["and0", "and1", "or0", "or1", "xor0", "slice_full", "cat_split", "cmpbool", "constsel", "notnot", "eqself"])
        if k in ("and0", "or0", "xor0"):
            z = self.lit_u(w, 0.0); self.s[-1] = f"lit {z} u{w} {'0'*w}"
            self.emit(f"bin {n} {k[:-1]} {x} {z}")
        elif k in ("and1", "or1"):
            z = self.lit_u(w, 0.0); self.s[-1] = f"lit {z} u{w} {'1'*w}"
            self.emit(f"bin {n} {k[:-1]} {x} {z}")
        elif k == "slice_full":
            self.emit(f"slice {n} {x} 0 {w}")
        elif k == "cat_split" and w >= 2:
            a, b = self.fresh("t"), self.fresh("t")
            cut = self.r.randrange(1, w)
            self.emit(f"slice {a} {x} 0 {cut}"); self.emit(f"slice {b} {x} {cut} {w-cut}")
            self.vars[a] = ('u', cut); self.vars[b] = ('u', w - cut)
            self.emit(f"bin {n} cat {b} {a}")
        elif k == "cmpbool":
            c = self.get_b()
            one = self.lit_b(0.0); self.s[-1] = f"lit {one} b {self.r.choice('01X')}"
            cb = self.fresh("b")
            self.emit(f"bin {cb} {self.r.choice(['eq','ne'])} {c} {one}")
            self.vars[cb] = ('b', 1)
            self.emit(f"mux {n} {cb} {x} {self.get_u(w)}")
        elif k == "constsel":
            sel = self.lit_b(0.0); self.s[-1] = f"lit {sel} b {self.r.choice('01X')}"
            self.emit(f"mux {n} {sel} {x} {self.get_u(w)}")
        elif k == "notnot":
            a = self.fresh("t"); self.emit(f"not {a} {x}"); self.vars[a] = ('u', w)
            self.emit(f"not {n} {a}")
        else:
            c = self.fresh("b"); self.emit(f"bin {c} eq {x} {x}"); self.vars[c] = ('b', 1)
            self.emit(f"mux {n} {c} {self.get_u(w)} {x}")
        self.vars[n] = ('u', w)
        return n

    def t_reg(self):
        w = self.r.choice([1, 1, 2])
        if self.reg_bits + w > self.max_reg:
            return self.expr(w)
        self.reg_bits += w
        src = self.get_u(w) if self.r.random() < 0.7 else self.expr(w)
        n = self.fresh("r")
        line = f"reg {n} {src}"
        if self.r.random() < 0.6:
            line += " rst " + "".join(self.r.choice("01") for _ in range(w))
        if self.r.random() < 0.4:
            line += f" en {self.get_b()}"
        self.emit(line)
        self.vars[n] = ('u', w)
        return n

    def t_holdloop(self):
        """x = reg(mux(c, x, d)) with/without reset (foldRegisterMuxEnableLoops) or a small counter"""
        w = self.r.choice([1, 2])
        if self.reg_bits + w > self.max_reg:
            return self.expr(w)
        self.reg_bits += w
        x = self.fresh("x")
        self.emit(f"loopvar {x} {w}")
        self.vars[x] = ('u', w)
        kind = self.r.choice(["hold", "hold", "hold_neg", "hold_neg", "counter", "toggle"])
        m = self.fresh("t")
        if kind == "hold":
            self.emit(f"mux {m} {self.get_b()} {x} {self.get_u(w)}")
        elif kind == "hold_neg":
            self.emit(f"mux {m} {self.get_b()} {self.get_u(w)} {x}")
        elif kind == "counter":
            self.emit(f"bin {m} add {x} {self.get_u(w)}")
        else:
            self.emit(f"not {m} {x}")
        self.vars[m] = ('u', w)
        q = self.fresh("r")
        line = f"reg {q} {m}"
        if self.r.random() < 0.7:
            line += " rst " + "".join(self.r.choice("01") for _ in range(w))
        if self.r.random() < 0.5:     # hold mux AND an explicit enable: two cooperating conditions (foldRegisterMuxEnableLoops)
            line += f" en {self.get_b()}"
        self.emit(line)
        self.vars[q] = ('u', w)
        self.emit(f"close {x} {q}")
        return q

    def t_constfold(self):
        w = self.r.choice([1, 2, 3])
        a, b = self.lit_u(w), self.lit_u(w)
        n = self.fresh("t")
        self.emit(f"bin {n} {self.r.choice(['and','or','xor','add','sub','mul'])} {a} {b}")
        self.vars[n] = ('u', w)
        m = self.fresh("t")
        self.emit(f"bin {m} {self.r.choice(['and','or','xor','add'])} {n} {self.get_u(w)}")
        self.vars[m] = ('u', w)
        return m

    def t_partconst(self):
        """an operation with ONE constant operand that is all zeros / all ones / one-hot / has undefined bits
        (propagateConstants evaluates the node with the other operand undefined and folds it when the result comes
        back fully defined: sound only where the constant really dominates - AND 0, OR 1s, NAND 0, NOR 1s, MUL 0)"""
        w = self.r.choice([1, 2, 2, 3])
        kind = self.r.choice(["zeros", "zeros", "ones", "ones", "onehot", "x"])
        bits = {"zeros": "0" * w, "ones": "1" * w,
                "onehot": "".join("1" if i == self.r.randrange(w) else "0" for i in range(w)),
                "x": "".join(self.r.choice("01X") for _ in range(w))}[kind]
        k = self.fresh("k")
        self.emit(f"lit {k} u{w} {bits}")
        self.vars[k] = ('u', w)
        x = self.get_u(w)
        if self.vars[x] != ('u', w) or x == k:
            x = self.new_in(w)
            if self.vars.get(x) != ('u', w): x = self.lit_u(w)
        op = self.r.choice(['and', 'or', 'xor', 'nand', 'nor', 'xnor', 'add', 'sub', 'mul', 'eq', 'ne', 'lt', 'ge'])
        a, b = (x, k) if self.r.random() < 0.5 else (k, x)
        n = self.fresh("t")
        self.emit(f"bin {n} {op} {a} {b}")
        if op in ('eq', 'ne', 'lt', 'ge'):
            self.vars[n] = ('b', 1)
            o = self.fresh("t")
            self.emit(f"mux {o} {n} {self.get_u(w)} {self.get_u(w)}")
            self.vars[o] = ('u', w)
            return o
        self.vars[n] = ('u', w)
        if self.r.random() < 0.4:
            m = self.fresh("t")
            self.emit(f"not {m} {n}")
            self.vars[m] = ('u', w)
            return m
        return n

    def t_regconst(self):
        """register fed by a constant, with compatible / incompatible / no reset value (propagateConstants)"""
        w = 1
        if self.reg_bits + w > self.max_reg:
            return self.expr(w)
        self.reg_bits += w
        k = self.lit_u(w, 0.0)
        v = self.r.choice("01")
        self.s[-1] = f"lit {k} u{w} {v}"
        q = self.fresh("r")
        rst = self.r.choice(["", f" rst {v}", f" rst {'1' if v == '0' else '0'}"])
        self.emit(f"reg {q} {k}{rst}")
        self.vars[q] = ('u', w)
        return q


TEMPLATES = ["t_ifchain", "t_muxchain", "t_muxmerge", "t_noop", "t_reg", "t_holdloop", "t_constfold", "t_partconst", "t_regconst", "t_rewire", "t_cmpconst", "expr", "expr"]


def gen_design(seed, did, decorate=None, extra_templates=()):
    """returns (list of statement lines, list of template names used); extra_templates: names of
    templates only some checks can use (t_xovr: simulation-only meaning)"""
    rng = random.Random(seed)
    g = Gen(rng)
    used = []
    cc = rng.random()
    if cc < 0.15:
        g.emit("clockcfg rst=async")
    elif cc < 0.25:
        g.emit("clockcfg rst=none")
    elif cc < 0.35:
        g.emit("clockcfg rst=sync act=low")
    elif cc < 0.40:
        g.emit("clockcfg rst=async act=low")
    # a couple of inputs first so templates have something to chew on
    g.new_in(rng.choice([1, 2])); g.new_inb()
    nt = rng.choice([2, 3, 3, 4, 5])
    outs = []
    area_open = False
    for i in range(nt):
        if not area_open and rng.random() < 0.2:
            g.emit(f"area ar{i} {'entity' if rng.random() < 0.5 else ''}".strip())
            area_open = True
        t = rng.choice(TEMPLATES + list(extra_templates))
        if t == "t_edges" and rng.random() < 0.6:      # keep most designs inside the single-clock certificate model
            t = rng.choice(TEMPLATES)
        used.append(t)
        if t == "expr":
            v = g.expr(rng.choice([1, 2, 2, 3, 0] if rng.random() < 0.1 else [1, 2, 2, 3]))
        else:
            v = getattr(g, t)()
        outs.append(v)
        if area_open and rng.random() < 0.5:
            g.emit("endarea")
            area_open = False
    if area_open:
        g.emit("endarea")
    # outputs: every template result (zero-width ones too) + one combination
    k = 0
    for v in outs:
        if g.vars.get(v):
            g.emit(f"out o{k} {v}")
            k += 1
    mode = rng.random()
    if mode < 0.45:
        g.emit("dropall")
    elif mode < 0.8:
        for v in list(g.vars):
            if rng.random() < 0.5 and not v.startswith("x"):
                g.emit(f"drop {v}")
    return [f"design {did}"] + g.s, used


def write_programs(path, designs):
    with open(path, "w") as f:
        for lines in designs:
            f.write("\n".join(lines) + "\n")


# ---------------------------------------------------------------------------
# decorations (property C11): behaviour-neutral rewrites of a design program
# ---------------------------------------------------------------------------
DEF_OPS = {"lit", "not", "bin", "slice", "bit", "zext", "oext", "sext", "mux", "var", "reg", "xovr", "memread", "memreadf",
           "toenum", "ofenum", "bitrst", "regs", "regst"}
MUT_OPS = {"set", "setslice", "setbit", "close", "loopvar", "membind"}


def decorate(lines, seed):
    """returns (decorated program lines, list of decoration kinds applied)"""
    rng = random.Random(seed)
    head, body = lines[0], [l for l in lines[1:]]
    applied = []
    mutable = set()
    for l in body:
        t = l.split()
        if t[0] in MUT_OPS:
            mutable.add(t[1])
    # 5. handle lifetime pattern
    body = [l for l in body if not (l.startswith("drop ") or l == "dropall")]
    # 1. names
    out = []
    for l in body:
        t = l.split()
        if t[0] == "name" and rng.random() < 0.5:
            applied.append("unname"); continue
        out.append(l)
        if t[0] in DEF_OPS and rng.random() < 0.35:
            out.append(f"name {t[1]} dn_{t[1]}"); applied.append("name")
        # naming a single bit of a vector THROUGH the alias (x[i].setName(..)): the vector itself must be unaffected
        wd = None
        if t[0] == "in": wd = int(t[2])
        elif t[0] == "lit" and t[2].startswith("u"): wd = int(t[2][1:])
        elif t[0] in ("zext", "oext", "sext"): wd = int(t[3])
        elif t[0] == "slice": wd = int(t[4])
        if wd and t[1] not in mutable and rng.random() < 0.25:
            i = rng.randrange(wd)
            out.append(f"namebit {t[1]} {'msb' if i == wd - 1 and rng.random() < 0.5 else i} nb_{t[1]}_{i}"); applied.append("name-alias-bit")
        if t[0] in DEF_OPS and rng.random() < 0.08:
            out.append(f"attr {t[1]}"); applied.append("attr")
        if t[0] in DEF_OPS and rng.random() < 0.08:
            out.append(f"tap {t[1]}"); applied.append("tap")
    body = out
    # 2. pass-through copies of immutable temporaries
    out, ren = [], {}
    for l in body:
        t = l.split()
        if t[0] in ("name", "attr", "tap", "drop", "namebit"):
            out.append(l); continue
        # rename uses (all operand positions except the defined name)
        if t[0] in DEF_OPS or t[0] in ("out",):
            t = t[:2] + [ren.get(x, x) for x in t[2:]]
        elif t[0] in ("set", "close"):
            t = t[:2] + [ren.get(x, x) for x in t[2:]]
        elif t[0] in ("setslice", "setbit"):
            t = t[:-1] + [ren.get(t[-1], t[-1])]
        elif t[0] in ("if", "elif"):
            t = [t[0], ren.get(t[1], t[1])]
        out.append(" ".join(t))
        if t[0] in DEF_OPS and t[1] not in mutable and t[0] not in ("reg", "regs", "regst") and rng.random() < (0.5 if t[0] in ("toenum", "bitrst") else 0.2):
            cp = f"{t[1]}_cp"
            out.append(f"var {cp} {t[1]}")
            ren[t[1]] = cp
            applied.append("copy")
        elif t[0] in DEF_OPS and t[1] not in mutable and t[0] not in ("memread", "toenum", "bitrst") and rng.random() < 0.15:
            # (not for signals that carry an attached reset value: attribute() returns a NEW signal built from a read port,
            #  like any operator result, and such results do not inherit the attached reset value - only copies do)
            # the value routed THROUGH an attribute node (x = attribute(x, ...)): every later use sees the attributed copy
            ap = f"{t[1]}_at"
            out.append(f"attrp {ap} {t[1]}")
            ren[t[1]] = ap
            applied.append("attr-passthrough")
    body = out
    # 3. areas / entities around top-level ranges
    depth_if, depth_area = 0, 0
    tops = []
    for i, l in enumerate(body):
        t = l.split()
        if depth_if == 0 and depth_area == 0 and t[0] not in ("elif", "else", "endif", "endarea"):
            tops.append(i)
        if t[0] == "if": depth_if += 1
        elif t[0] == "endif": depth_if -= 1
        elif t[0] == "area": depth_area += 1
        elif t[0] == "endarea": depth_area -= 1
    inserts = {}
    if len(tops) > 3:
        for _ in range(rng.choice([0, 1, 1, 2])):
            a = rng.randrange(0, len(tops) - 1)
            b = rng.randrange(a + 1, min(len(tops), a + 8))
            ia, ib = tops[a], tops[b]
            # ranges must not overlap earlier inserts and must not contain out statements' defs problems: fine
            if any(ia <= k <= ib for k in inserts):
                continue
            # the range must be balanced w.r.t. if/area (it is: both ends are top-level positions)
            inserts[ia] = f"area dec{len(inserts)}{' entity' if rng.random() < 0.5 else ''}"
            inserts[ib] = "endarea"
            applied.append("area")
    out = []
    for i, l in enumerate(body):
        if i in inserts:
            out.append(inserts[i])
        out.append(l)
    body = out
    # new handle-lifetime pattern
    m = rng.random()
    if m < 0.4:
        body.append("dropall"); applied.append("dropall")
    elif m < 0.75:
        names = []
        for l in body:
            t = l.split()
            if t[0] in DEF_OPS and t[1] not in mutable:
                names.append(t[1])
        for n in names:
            if rng.random() < 0.5:
                body.append(f"drop {n}")
        applied.append("drop")
    return [head] + body, applied
