"""C02 - VHDL front end, part 2: a direct event-driven INTERPRETER for the elaborated subset
(independent of the lifter in C02_vhdl_lift.py; shares only the parser/elaborator).

This is the SEARCH ORACLE of C02 and the second, independent decision route: it executes the
exported VHDL text under (our reading of) VHDL simulation semantics

  * nine-valued STD_LOGIC with the IEEE 1164 tables for and/or/xor/not (derived from the
    X01 classes, see `_and` etc.), element-wise on vectors,
  * numeric_std for UNSIGNED: "+" "-" (size = max of the operand lengths), "*" (sum of the
    lengths), any metavalue in an operand makes the whole result 'X'; relational operators
    compare numerically after resizing, "=" "<" "<=" ">" ">=" return FALSE and "/=" returns
    TRUE when an operand contains a metavalue; RESIZE / SHIFT_LEFT / SHIFT_RIGHT move bits
    without looking at them; TO_INTEGER of a metavalue is 0,
  * "=" / "/=" on STD_LOGIC and on STD_LOGIC_VECTOR are the predefined (exact nine-valued)
    equality; a CASE choice matches by exact equality; a BOOLEAN condition that is FALSE
    (including every comparison that hit a metavalue) takes the ELSE branch,
  * signal assignment takes effect one delta cycle later, variable assignment immediately and
    variables KEEP their value between activations of a process (so a variable that is read
    before it is written shows its value from the previous activation),
  * every process runs once at initialisation; PROCESS(all) is sensitive to every signal it
    reads; delta cycles are iterated until no signal changes (oscillation limit),
  * rising_edge(c) = c'event and TO_X01(c) = '1' and TO_X01(c'last_value) = '0'.

Two replays are offered:
  replay_trace       the stimuli, clock edges and reset events of a `.trace` file written by
                     nd::runTrace; every DEFINED bit the real simulator showed must be shown by
                     the VHDL (after TO_X01) in the same cycle
  replay_testvectors the SET / CHECK / ADV / RST stream written by the exporter's own
                     FileBasedTestbenchRecorder, with the clock process and initial values taken
                     from the generated testbench.vhd; every CHECK uses std_match
TRUSTED: the semantics above are transcribed from the standards by hand; no VHDL simulator is
available on this machine to validate them.
"""
import re
from C02_vhdl import Unsupported, LiftError, Net, AliasNet, Var, base_net, type_width, strip_paren


class VhdlRuntimeError(Exception):
    pass


# ---- nine-valued logic ------------------------------------------------------------------------
_CLS = {"U": "U", "X": "X", "0": "0", "1": "1", "Z": "X", "W": "X", "L": "0", "H": "1", "-": "X"}


def _and(a, b):
    a, b = _CLS[a], _CLS[b]
    if a == "0" or b == "0":
        return "0"
    if a == "U" or b == "U":
        return "U"
    if a == "X" or b == "X":
        return "X"
    return "1"


def _or(a, b):
    a, b = _CLS[a], _CLS[b]
    if a == "1" or b == "1":
        return "1"
    if a == "U" or b == "U":
        return "U"
    if a == "X" or b == "X":
        return "X"
    return "0"


def _xor(a, b):
    a, b = _CLS[a], _CLS[b]
    if a == "U" or b == "U":
        return "U"
    if a == "X" or b == "X":
        return "X"
    return "1" if a != b else "0"


def _not(a):
    a = _CLS[a]
    return {"U": "U", "X": "X", "0": "1", "1": "0"}[a]


_LOGIC = {"and": _and, "or": _or, "xor": _xor,
          "nand": lambda a, b: _not(_and(a, b)), "nor": lambda a, b: _not(_or(a, b)), "xnor": lambda a, b: _not(_xor(a, b))}


def to_x01(s):
    return "".join({"U": "X", "X": "X", "0": "0", "1": "1"}[_CLS[c]] for c in s)


def has_meta(s):
    return any(_CLS[c] not in "01" for c in s)


def to_int(s):
    return int(to_x01(s), 2) if s else 0


def from_int(v, w):
    return format(v % (1 << w), "0%db" % w) if w > 0 else ""


def resize(s, n):
    if n <= len(s):
        return s[len(s) - n:] if n > 0 else ""
    return "0" * (n - len(s)) + s


def std_match(a, b):
    if len(a) != len(b):
        return False
    for x, y in zip(a, b):
        if x == "-" or y == "-":
            continue
        cx, cy = _CLS[x], _CLS[y]
        if cx in "01" and cy in "01" and cx == cy:
            continue
        return False
    return True


# ---- typed values: (kind, payload); kind in sl / slv / uns / str (bit-string literal) / bool / int
class Interp:
    def __init__(self, elab, max_delta=2000, case_merge=False, mem_exact_merge=False, port_reg_init=False):
        self.e = elab
        self.max_delta = max_delta
        # case_merge=True is NOT VHDL semantics: a CASE whose selector contains a metavalue merges all
        # explicit branches bit-wise (what Node_Multiplexer::simulateEvaluate does) instead of taking
        # WHEN OTHERS.  Used only to CLASSIFY a mismatch as the known X-pessimism of the CASE export.
        self.case_merge = case_merge
        self.case_merged = 0
        self.cur_cycle = 0
        # The next two switches are NOT VHDL semantics either; like case_merge they exist only to CLASSIFY a mismatch as one
        # of the recorded known findings, by showing that it disappears when exactly that one deviation is removed:
        #  mem_exact_merge: memory(to_integer(a)) with a metavalue in `a` merges all candidate words bit-wise (what the
        #                   reference simulator does for UndefinedReadAddrBehavior::EXACT) instead of reading word 0
        #  port_reg_init:   a register whose output is assigned directly to an OUT port of a sub-entity (so that no SIGNAL
        #                   declaration can carry its `:= reset value` default) starts with the reset value of its reset branch
        self.mem_exact_merge = mem_exact_merge
        self.mem_merged = 0
        self.port_regs = []        # (net id, edge kind) of the registers concerned (filled for every interpreter)
        self.val = []
        for n in elab.nets:
            if n.ty[0] == "array":      # memory: tuple of words, index = address
                self.val.append(n.init if n.init is not None else tuple("U" * type_width(n.ty[2]) for _ in range(n.ty[1])))
            else:
                self.val.append(n.init if n.init is not None else "U" * n.width)
        self.last = list(self.val)
        self.events = set()
        self.varval = {}
        for p in elab.procs:
            for v in p.vars:
                self.varval[id(v)] = v.init if v.init is not None else "U" * v.width
        for n in elab.nets:
            if len(set(n.drivers)) > 1:
                raise Unsupported(f"signal {n.name} has several drivers")
        self.sens = {}
        for p in elab.procs:
            s = p.sens if p.sens is not None else sorted(p.reads)
            for nid in s:
                self.sens.setdefault(nid, []).append(p.idx)
        self.pending = {}
        self.deltas = 0
        self.warn_stale = []
        self.initialised = False
        self._find_port_regs(apply=port_reg_init)

    def _find_port_regs(self, apply):
        from C02_vhdl_lift import classify_clocked
        from C02_vhdl import literal_bits
        for p in self.e.procs:
            if p.sens is None:
                continue
            try:
                c = classify_clocked(p)
            except (Unsupported, LiftError):
                continue
            for st in c["reset_body"]:
                if st[0] != "sassign":
                    continue
                o = p.scope.lookup(st[1])
                if isinstance(o, AliasNet) and o.dir == "out" and base_net(o).init is None and base_net(o).port is None:
                    try:
                        v = literal_bits(st[2], o.ty)
                    except Unsupported:
                        continue
                    self.port_regs.append((base_net(o).id, c["edge"]))
                    if apply:
                        self.val[base_net(o).id] = v
                        self.last[base_net(o).id] = v

    # -- kernel
    def initialise(self):
        self.events = set()
        for p in self.e.procs:
            self.run_process(p)
        self.initialised = True
        self.settle()

    def apply(self, updates):
        """updates: {net id: value} taking effect together (one simulation cycle), then delta cycles"""
        for k, v in updates.items():
            self.pending[k] = v
        self.settle()

    def settle(self):
        for _ in range(self.max_delta):
            changed = set()
            for nid, v in self.pending.items():
                if len(v) != len(self.val[nid]):
                    raise VhdlRuntimeError(f"length mismatch assigning {self.e.nets[nid].name}: {len(v)} to {len(self.val[nid])}")
                if v != self.val[nid]:
                    self.last[nid] = self.val[nid]
                    self.val[nid] = v
                    changed.add(nid)
            self.pending = {}
            if not changed:
                self.events = set()
                return
            self.deltas += 1
            self.events = changed
            todo = []
            seen = set()
            for nid in sorted(changed):
                for pi in self.sens.get(nid, ()):
                    if pi not in seen:
                        seen.add(pi)
                        todo.append(pi)
            for pi in sorted(todo):
                self.run_process(self.e.procs[pi])
        raise VhdlRuntimeError("delta cycle limit reached (combinational oscillation)")

    def run_process(self, p):
        self.cur = p
        self.exec_stmts(p.body, p)

    # -- statements
    def exec_stmts(self, stmts, p):
        for s in stmts:
            k = s[0]
            if k == "sassign":
                o = p.scope.lookup(s[1])
                if not isinstance(o, (Net, AliasNet)):
                    raise LiftError(f"{p.label}: '<=' to a non-signal {s[1]}")
                v = self.coerce(self.ev(s[2], p, o.ty), o.ty, s[1])
                self.pending[base_net(o).id] = v
            elif k == "sassign_idx":
                # element of an array signal: only that element's driver gets a new transaction
                o = p.scope.lookup(s[1])
                if not isinstance(o, (Net, AliasNet)) or o.ty[0] != "array":
                    raise LiftError(f"{p.label}: indexed assignment to a non-array {s[1]}")
                i = self.ev(s[2], p, None)
                if i[0] != "int":
                    raise LiftError(f"{p.label}: array index is not an integer")
                nid = base_net(o).id
                cur = list(self.pending.get(nid, self.val[nid]))
                if not (0 <= i[1] < len(cur)):
                    raise VhdlRuntimeError(f"index {i[1]} out of range {len(cur) - 1} downto 0 in an assignment to {s[1]}")
                cur[i[1]] = self.coerce(self.ev(s[3], p, o.ty[2]), o.ty[2], s[1] + "(..)")
                self.pending[nid] = tuple(cur)
            elif k == "vassign":
                o = p.scope.lookup(s[1])
                if not isinstance(o, Var):
                    raise LiftError(f"{p.label}: ':=' to a non-variable {s[1]}")
                self.varval[id(o)] = self.coerce(self.ev(s[2], p, o.ty), o.ty, s[1])
            elif k == "if":
                done = False
                for c, body in s[1]:
                    if self.cond(c, p):
                        self.exec_stmts(body, p)
                        done = True
                        break
                if not done and s[2] is not None:
                    self.exec_stmts(s[2], p)
            elif k == "case":
                sel = self.ev(s[1], p, None)
                if sel[0] not in ("uns", "slv", "sl"):
                    raise Unsupported("CASE selector of type " + sel[0])
                hit = False
                if self.case_merge and has_meta(sel[1]) and len(s[2]) > 1:
                    self.merge_case(s, p)
                    continue
                for ch, body in s[2]:
                    if ch == "others":
                        self.exec_stmts(body, p)
                        hit = True
                        break
                    c = self.ev(ch, p, None)
                    if c[0] not in ("str", "chr_sl", "sl"):
                        raise Unsupported("CASE choice is not a literal")
                    if len(c[1]) != len(sel[1]):
                        raise VhdlRuntimeError("CASE choice length differs from the selector length")
                    if c[1] == sel[1]:
                        self.exec_stmts(body, p)
                        hit = True
                        break
                if not hit:
                    raise VhdlRuntimeError("CASE without matching choice")
            elif k in ("assert", "null"):
                pass
            else:
                raise Unsupported("statement " + k)

    def merge_case(self, s, p):
        self.case_merged += 1
        snap_v, snap_p = dict(self.varval), dict(self.pending)
        res = []
        for ch, body in s[2]:
            if ch == "others":
                continue
            self.varval, self.pending = dict(snap_v), dict(snap_p)
            self.exec_stmts(body, p)
            res.append((self.varval, self.pending))

        def merge(vals):
            return "".join(c[0] if (c[0] in "01" and all(x == c[0] for x in c)) else "X" for c in zip(*vals)) if vals[0] else ""
        nv, np_ = dict(snap_v), dict(snap_p)
        for k in snap_v:
            vs = [r[0][k] for r in res]
            if any(v != snap_v[k] for v in vs):
                nv[k] = merge(vs)
        for k in set().union(*[set(r[1]) for r in res]):
            vs = [r[1].get(k, snap_p.get(k, "X" * len(self.val[k]))) for r in res]
            if any(v != snap_p.get(k) for v in vs):
                np_[k] = merge(vs)
        self.varval, self.pending = nv, np_

    def cond(self, e, p):
        v = self.ev(e, p, ("bool",))
        if v[0] != "bool":
            raise LiftError(f"{p.label}: condition is not BOOLEAN")
        return v[1]

    def coerce(self, v, ty, what):
        k = ty[0]
        w = type_width(ty)
        if k == "sl":
            if v[0] != "sl":
                raise LiftError(f"type mismatch assigning {v[0]} to STD_LOGIC {what}")
            return v[1]
        if k in ("slv", "uns"):
            if v[0] == "str" or v[0] == k:
                if len(v[1]) != w:
                    raise VhdlRuntimeError(f"length mismatch assigning to {what}: {len(v[1])} vs {w}")
                return v[1]
            raise LiftError(f"type mismatch assigning {v[0]} to {k} {what}")
        if k == "bool":
            if v[0] != "bool":
                raise LiftError("type mismatch assigning to BOOLEAN " + what)
            return "1" if v[1] else "0"
        raise Unsupported("object type " + k)

    # -- expressions. `ctx` = expected type (None if unknown); only used for aggregates
    def ev(self, e, p, ctx):
        k = e[0]
        if k == "paren":
            return self.ev(e[1], p, ctx)
        if k == "name":
            o = p.scope.lookup(e[1])
            if o is None:
                raise Unsupported("unknown name " + e[1])
            if isinstance(o, Var):
                return (o.ty[0], self.varval[id(o)]) if o.ty[0] != "bool" else ("bool", self.varval[id(o)] == "1")
            n = base_net(o)
            ty = o.ty
            return (ty[0], self.val[n.id]) if ty[0] != "bool" else ("bool", self.val[n.id] == "1")
        if k == "str":
            s = e[1].upper()
            if any(c not in _CLS for c in s):
                raise Unsupported("string literal " + e[1])
            return ("str", s)
        if k == "chr":
            c = e[1].upper()
            if c not in _CLS:
                raise Unsupported("character literal " + e[1])
            return ("sl", c)
        if k == "int":
            return ("int", e[1])
        if k == "bool":
            return ("bool", e[1])
        if k == "unop":
            a = self.ev(e[2], p, ctx)
            if a[0] == "bool":
                return ("bool", not a[1])
            if a[0] in ("sl", "slv", "uns", "str"):
                return (a[0], "".join(_not(c) for c in a[1]))
            raise LiftError("'not' on " + a[0])
        if k == "binop":
            return self.binop(e, p, ctx)
        if k == "index":
            a = self.ev(e[1], p, None)
            if a[0] not in ("slv", "uns"):
                raise LiftError("index into " + a[0])
            w = len(a[1])
            if not (0 <= e[2] < w):
                raise VhdlRuntimeError(f"index {e[2]} out of range {w - 1} downto 0")
            return ("sl", a[1][w - 1 - e[2]])
        if k == "slice":
            a = self.ev(e[1], p, None)
            if a[0] not in ("slv", "uns"):
                raise LiftError("slice of " + a[0])
            w = len(a[1])
            hi, lo = e[2], e[3]
            if hi < lo:
                return (a[0], "")
            if not (0 <= lo and hi < w):
                raise VhdlRuntimeError(f"slice {hi} downto {lo} out of range {w - 1} downto 0")
            return (a[0], a[1][w - 1 - hi: w - lo])
        if k == "qual":
            # a qualified expression states the type of its operand; it converts nothing
            a = self.ev(e[2], p, (e[1], 0, 0))
            if a[0] not in ("str", e[1]):
                raise LiftError(f"qualified expression {e[1]}'(..) applied to {a[0]}")
            return (e[1], a[1])
        if k == "dynindex":
            b = strip_paren(e[1])
            o = p.scope.lookup(b[1]) if b[0] == "name" else None
            if not isinstance(o, (Net, AliasNet)) or o.ty[0] != "array":
                raise Unsupported("index with a non-literal expression into something that is not an array signal")
            i = self.ev(e[2], p, None)
            if i[0] != "int":
                raise LiftError("array index is not an integer")
            words = self.val[base_net(o).id]
            ia = strip_paren(e[2])
            if self.mem_exact_merge and ia[0] == "call" and ia[1] == "to_integer":
                av = self.ev(ia[2][0], p, ("uns", 0, 0))
                if av[0] == "uns" and has_meta(av[1]):
                    a01 = to_x01(av[1])
                    cand = [k for k in range(len(words)) if all(c == "X" or c == b for c, b in zip(a01, format(k, "0%db" % len(a01))))] \
                        if (1 << len(a01)) >= len(words) else list(range(len(words)))
                    self.mem_merged += 1
                    ws = [to_x01(words[k]) for k in cand]
                    merged = "".join(c[0] if (c[0] in "01" and all(x == c[0] for x in c)) else "X" for c in zip(*ws)) if ws else "X" * type_width(o.ty[2])
                    return (o.ty[2][0], merged)
            if not (0 <= i[1] < len(words)):
                raise VhdlRuntimeError(f"index {i[1]} out of range {len(words) - 1} downto 0 reading {b[1]}")
            return (o.ty[2][0], words[i[1]])
        if k == "agg":
            ch, v = e[1][0]
            x = self.ev(v, p, ("sl",))
            if x[0] != "sl":
                raise LiftError("aggregate element is not STD_LOGIC")
            if ch == "others":
                if ctx is None or ctx[0] not in ("slv", "uns"):
                    raise Unsupported("(others => ..) without a constrained target")
                return (ctx[0], x[1] * type_width(ctx))
            if ch != 0:
                raise Unsupported("aggregate choice other than 0")
            return ("str", x[1])   # (0 => e): a one-element array, adopts the context's vector type
        if k == "attr":
            a = strip_paren(e[1])
            o = p.scope.lookup(a[1]) if a[0] == "name" else None
            if e[2] != "event" or not isinstance(o, (Net, AliasNet)):
                raise Unsupported("attribute other than signal'event")
            return ("bool", base_net(o).id in self.events)
        if k == "call":
            return self.call(e, p, ctx)
        raise Unsupported("expression " + k)

    def vec(self, v, what):
        if v[0] in ("slv", "uns", "str"):
            return v[1]
        raise LiftError(f"{what}: vector expected, got {v[0]}")

    def binop(self, e, p, ctx):
        op = e[1]
        if op in _LOGIC:
            a, b = self.ev(e[2], p, ctx), self.ev(e[3], p, ctx)
            if a[0] == "bool" and b[0] == "bool":
                x, y = a[1], b[1]
                r = {"and": x and y, "or": x or y, "xor": x != y, "nand": not (x and y), "nor": not (x or y), "xnor": x == y}[op]
                return ("bool", r)
            if a[0] == "sl" and b[0] == "sl":
                return ("sl", _LOGIC[op](a[1], b[1]))
            va, vb = self.vec(a, op), self.vec(b, op)
            kind = a[0] if a[0] != "str" else b[0]
            if a[0] != "str" and b[0] != "str" and a[0] != b[0]:
                raise LiftError(f"'{op}' between {a[0]} and {b[0]}")
            if len(va) != len(vb):
                raise VhdlRuntimeError(f"'{op}' on vectors of different length {len(va)} / {len(vb)}")
            f = _LOGIC[op]
            return (kind, "".join(f(x, y) for x, y in zip(va, vb)))
        if op in ("+", "-", "*"):
            a, b = self.ev(e[2], p, ("uns", 0, 0)), self.ev(e[3], p, ("uns", 0, 0))
            if not (a[0] in ("uns", "str") and b[0] in ("uns", "str")) or (a[0] == "str" and b[0] == "str" and False):
                raise LiftError(f"'{op}' on {a[0]} and {b[0]} (numeric_std defines it for UNSIGNED)")
            va, vb = a[1], b[1]
            size = len(va) + len(vb) if op == "*" else max(len(va), len(vb))
            if len(va) < 1 or len(vb) < 1:
                return ("uns", "")
            if has_meta(va) or has_meta(vb):
                return ("uns", "X" * size)
            x, y = to_int(va), to_int(vb)
            r = x + y if op == "+" else x - y if op == "-" else x * y
            return ("uns", from_int(r, size))
        if op == "&":
            a, b = self.ev(e[2], p, None), self.ev(e[3], p, None)
            kinds = {a[0], b[0]} - {"sl", "str"}
            if len(kinds) > 1:
                raise LiftError("'&' between " + a[0] + " and " + b[0])
            kind = kinds.pop() if kinds else "str"
            for x in (a, b):
                if x[0] not in ("sl", "slv", "uns", "str"):
                    raise LiftError("'&' on " + x[0])
            return (kind, a[1] + b[1])
        if op in ("=", "/=", "<", "<=", ">", ">="):
            a, b = self.ev(e[2], p, None), self.ev(e[3], p, None)
            if a[0] == "bool" and b[0] == "bool" and op in ("=", "/="):
                return ("bool", (a[1] == b[1]) == (op == "="))
            if a[0] == "sl" and b[0] == "sl":
                # predefined enumeration operators: exact equality; ordering by position U X 0 1 Z W L H -
                if op in ("=", "/="):
                    return ("bool", (a[1] == b[1]) == (op == "="))
                pos = "UX01ZWLH-"
                x, y = pos.index(a[1]), pos.index(b[1])
                return ("bool", {"<": x < y, "<=": x <= y, ">": x > y, ">=": x >= y}[op])
            if "uns" in (a[0], b[0]) and a[0] in ("uns", "str") and b[0] in ("uns", "str"):
                va, vb = a[1], b[1]
                if len(va) < 1 or len(vb) < 1:
                    return ("bool", op == "/=")
                if has_meta(va) or has_meta(vb):
                    return ("bool", op == "/=")
                x, y = to_int(va), to_int(vb)
                return ("bool", {"=": x == y, "/=": x != y, "<": x < y, "<=": x <= y, ">": x > y, ">=": x >= y}[op])
            if "slv" in (a[0], b[0]) and a[0] in ("slv", "str") and b[0] in ("slv", "str") and op in ("=", "/="):
                return ("bool", (a[1] == b[1]) == (op == "="))
            raise LiftError(f"'{op}' between {a[0]} and {b[0]}")
        raise Unsupported("operator " + op)

    def call(self, e, p, ctx):
        f, args = e[1], e[2]
        if f in ("unsigned", "std_logic_vector"):
            if len(args) != 1:
                raise Unsupported("conversion arity")
            a = self.ev(args[0], p, None)
            if a[0] not in ("slv", "uns"):
                # a qualified-expression-less conversion of a literal/aggregate is not legal VHDL
                raise LiftError(f"type conversion {f}(..) applied to {a[0]}")
            return ("uns" if f == "unsigned" else "slv", a[1])
        if f == "resize":
            a = self.ev(args[0], p, ("uns", 0, 0))
            n = self.ev(args[1], p, None)
            if a[0] not in ("uns", "str") or n[0] != "int":
                raise LiftError("resize on " + a[0])
            return ("uns", resize(a[1], n[1]))
        if f in ("shift_left", "shift_right"):
            a = self.ev(args[0], p, ctx)
            n = self.ev(args[1], p, None)
            akind = a[0] if a[0] != "str" else (ctx[0] if ctx is not None else "str")   # a literal takes the type the context demands
            if akind != "uns":
                raise LiftError(f"{f} on {'slv' if akind in ('slv', 'str') else akind} (numeric_std defines it for UNSIGNED/SIGNED)")
            if n[0] != "int":
                raise LiftError(f"{f}: count is not an integer")
            w, c = len(a[1]), n[1]
            if c >= w:
                return ("uns", "0" * w)
            if f == "shift_left":
                return ("uns", a[1][c:] + "0" * c)
            return ("uns", "0" * c + a[1][:w - c])
        if f == "to_integer":
            a = self.ev(args[0], p, ("uns", 0, 0))
            if a[0] != "uns":
                raise LiftError("to_integer on " + a[0])
            if has_meta(a[1]):
                return ("int", 0)
            v = to_int(a[1])
            if v >= 2 ** 31:
                raise VhdlRuntimeError("to_integer result exceeds INTEGER'high")
            return ("int", v)
        if f == "bool2stdlogic":
            a = self.ev(args[0], p, ("bool",))
            if a[0] != "bool":
                raise LiftError("bool2stdlogic on " + a[0])
            return ("sl", "1" if a[1] else "0")
        if f == "stdlogic2bool":
            a = self.ev(args[0], p, ("sl",))
            return ("bool", a[1] == "1")
        if f in ("rising_edge", "falling_edge"):
            a = strip_paren(args[0])
            if a[0] != "name":
                raise Unsupported(f + " of an expression")
            o = p.scope.lookup(a[1])
            if not isinstance(o, (Net, AliasNet)) or o.ty[0] != "sl":
                raise LiftError(f + " of a non-STD_LOGIC object")
            n = base_net(o)
            if n.id not in self.events:
                return ("bool", False)
            cur, last = to_x01(self.val[n.id]), to_x01(self.last[n.id])
            return ("bool", (cur == "1" and last == "0") if f == "rising_edge" else (cur == "0" and last == "1"))
        raise Unsupported("function " + f)

    # -- top-level access
    def port_net(self, name):
        for pn, d, n in self.e.top_ports:
            if pn == name:
                return n
        return None

    def get(self, name):
        return self.val[self.port_net(name).id]


# ---- replay of a nd::runTrace trace --------------------------------------------------------------
def find_clock_reset(elab):
    """names of the top-level IN ports used as clock / reset by clocked processes"""
    from C02_vhdl_lift import classify_clocked
    clk, rst = set(), {}
    for p in elab.procs:
        if p.sens is None:
            continue
        c = classify_clocked(p)
        clk.add(c["clk"].id)
        if c["rst"] is not None:
            rst[c["rst"].id] = c["active"]
    return clk, rst


def parse_htraces(path):
    """half-period traces written by harness/C02_export.cpp -> {tag: dict(meta=.., pins_in, pins_out, cycles)}"""
    import os
    res, cur, ev = {}, None, []
    if not os.path.exists(path):
        return res
    for line in open(path):
        p = line.split()
        if not p:
            continue
        if p[0] == "trace":
            cur = dict(pins_in=[], pins_out=[], cycles=[], meta={})
            res[" ".join(p[1:])] = cur
        elif p[0] == "meta" and cur is not None:
            cur["meta"] = dict(x.split("=", 1) for x in p[1:])
        elif p[0] == "pins" and cur is not None:
            i = p.index("out")
            cur["pins_in"] = [tuple(x.rsplit(":", 1)) for x in p[2:i]]
            cur["pins_out"] = [tuple(x.rsplit(":", 1)) for x in p[i + 1:]]
        elif p[0] == "ev":
            ev = p[1:]
        elif p[0] == "cy" and cur is not None:
            i = p.index("out")
            cur["cycles"].append((p[3:i], p[i + 1:], ev))
    return res


def replay_trace(elab, tr, clock_names=("sysclk",), reset_names=("reset",), reset_active="1", case_merge=False, stats=None, meta=None, opts=None):
    """tr: circ.parse_traces entry (one sample per period, events E e R1 R0) or parse_htraces entry (one sample per HALF
    period, events E e R1@port R0@port, `meta` naming the exported clock / reset ports).  The clock edges and reset levels
    of the real simulator's event log are applied to the VHDL ports in the recorded order; whether a register reacts to a
    given edge is decided by the exported text (rising_edge / falling_edge / 'event), not by the replay.
    Returns None or dict(cycle=, pin=, expected=, observed=, ...)"""
    it = Interp(elab, case_merge=case_merge, **(opts or {}))
    ports = {pn: (d, n) for pn, d, n in elab.top_ports}
    meta = tr.get("meta") or meta or {}      # period traces carry no port names: the caller passes the design's .meta
    if meta.get("clkports", "-") != "-":
        clock_names = tuple(meta["clkports"].split(","))
    elif meta.get("clkport", "-") != "-":
        clock_names = (meta["clkport"],)
    if "resets" in meta:
        reset_names = tuple(x.split(":")[0] for x in meta["resets"].split(",") if x != "-")
    clk = {c: ports[c][1] for c in clock_names if c in ports}
    rst = {r: ports[r][1] for r in reset_names if r in ports}
    ins = [(nm, int(w)) for nm, w in tr["pins_in"]]
    outs = [(nm, int(w)) for nm, w in tr["pins_out"]]
    for nm, w in ins + outs:
        if w > 0 and nm not in ports:
            return dict(kind="pin missing in VHDL", pin=nm, cycle=0, contradiction=True, stimulus_fully_defined=True, expected=None, observed=None)
    try:
        return _replay_trace(it, tr, ports, clk, rst, ins, outs, reset_active, stats)
    except VhdlRuntimeError as ex:
        return dict(kind="VHDL simulation aborts with a run-time error (length/range check) where the reference simulator runs", cycle=it.cur_cycle,
                    pin=outs[0][0] if outs else "", error=str(ex), expected=None, observed=None, contradiction=True,
                    stimulus_fully_defined=all(all(ch in "01" for ch in v) for c2 in tr["cycles"][:max(1, it.cur_cycle + 1)] for v in c2[0] if v != "e"))


def _replay_trace(it, tr, ports, clk, rst, ins, outs, reset_active, stats):
    # power-on levels: the clock pin starts at the level opposite to its first recorded edge; every reset pin starts at the
    # level of its power-on event (first ev line), as the generated test bench initialises them from the simulator's state
    # (events of a design with several clock pins carry the exported port name: E@name / e@name)
    for name, c in clk.items():
        first_clk = next((e[0] for cy in tr["cycles"] for e in cy[2] if e[0] in "Ee" and (e in ("E", "e") or e[2:] == name)), "e")
        it.val[c.id] = "1" if first_clk == "e" else "0"; it.last[c.id] = it.val[c.id]
    lvl0 = {}
    for e in (tr["cycles"][0][2] if tr["cycles"] else []):
        if e[0] == "R":
            lvl0.setdefault(e[3:] if "@" in e else None, e[1])
    for name, r in rst.items():
        v = lvl0.get(name, lvl0.get(None, _not(reset_active)))
        it.val[r.id] = v; it.last[r.id] = v
    for nm, w in ins:
        if w > 0:
            n = ports[nm][1]
            it.val[n.id] = "U" * n.width
    it.initialise()
    for cyc, (iv, ov, evs) in enumerate(tr["cycles"]):
        it.cur_cycle = cyc
        # (in half-period traces the sampling step is the fastest half period and all clock pins toggle on multiples of it, so consecutive clock
        # events of one ev line belong to ONE instant: they take effect together, as simultaneous signal updates do in VHDL)
        batch = {}
        for ev in list(evs) + ["."]:
            if ev in ("E", "e"):
                if batch:                            # a second edge of the (single) pin: a new instant
                    it.apply(batch); batch = {}
                batch.update({c.id: "1" if ev == "E" else "0" for c in clk.values()}); continue
            if ev[0] in "Ee" and ev[1:2] == "@":
                if ev[2:] in clk:
                    if clk[ev[2:]].id in batch:      # a second edge of the same pin: a new instant
                        it.apply(batch); batch = {}
                    batch[clk[ev[2:]].id] = "1" if ev[0] == "E" else "0"
                continue
            if batch:
                it.apply(batch); batch = {}
            if ev == ".":
                break
            if ev[0] == "R":      # SimulatorCallbacks::onReset reports the LEVEL of the reset pin
                if "@" in ev:
                    if ev[3:] in rst:
                        it.apply({rst[ev[3:]].id: ev[1]})
                else:
                    it.apply({r.id: ev[1] for r in rst.values()})
        upd = {}
        for (nm, w), v in zip(ins, iv):
            if w == 0:
                continue
            v = "" if v == "e" else v
            upd[ports[nm][1].id] = v
        it.apply(upd)
        for (nm, w), exp in zip(outs, ov):
            if w == 0:
                continue
            got = it.get(nm)
            g01 = to_x01(got)
            if len(exp) != len(got):
                return dict(kind="width differs", cycle=cyc, pin=nm, expected=exp, observed=got, contradiction=True, stimulus_fully_defined=True)
            if stats is not None:
                stats["bits_compared"] = stats.get("bits_compared", 0) + sum(1 for x in exp if x in "01")
                stats["vhdl_more_defined_bits"] = stats.get("vhdl_more_defined_bits", 0) + sum(1 for x, y in zip(exp, g01) if x not in "01" and y in "01")
            for x, y in zip(exp, g01):
                if x in "01" and x != y:
                    contradiction = any(a in "01" and b in "01" and a != b for a, b in zip(exp, g01))
                    defined_so_far = all(all(ch in "01" for ch in v) for c2 in tr["cycles"][:cyc + 1] for v in c2[0] if v != "e")
                    return dict(kind="defined output value of the reference simulator not reproduced by the VHDL", cycle=cyc, pin=nm,
                                expected=exp, observed=got, inputs=dict(zip([i[0] for i in ins], iv)), events_before_sample=list(evs),
                                contradiction=contradiction, stimulus_fully_defined=defined_so_far)
    if stats is not None:
        stats["deltas"] = stats.get("deltas", 0) + it.deltas
        stats["cycles"] = stats.get("cycles", 0) + len(tr["cycles"])
    return None


# ---- replay of the exporter's test vector file ----------------------------------------------------
_TIME_UNITS = {"fs": 1, "ps": 1000, "ns": 10 ** 6, "us": 10 ** 9, "ms": 10 ** 12, "s": 10 ** 15}


def parse_testbench(text):
    """from the generated testbench.vhd: initial values of the clock / reset signals and the
    half period of each clock process.  -> dict(init={name: char}, clocks={name: half_period_fs})"""
    init = {}
    for m in re.finditer(r"SIGNAL\s+(\w+)\s*:\s*STD_LOGIC\s*:=\s*'(.)'\s*;", text):
        init[m.group(1)] = m.group(2).upper()
    clocks = {}
    for m in re.finditer(r"clock_process_(\w+)\s*:\s*PROCESS\s+BEGIN\s+WAIT FOR\s+([0-9.]+)\s*(\w+)\s*;\s*(\w+)\s*<=\s*not\s+(\w+)\s*;", text):
        name, num, unit = m.group(1), m.group(2), m.group(3).lower()
        if unit not in _TIME_UNITS or m.group(4) != name or m.group(5) != name:
            raise Unsupported("clock process of the testbench not understood")
        clocks[name] = int(round(float(num) * _TIME_UNITS[unit]))
    return dict(init=init, clocks=clocks)


def replay_testvectors(elab, tv_text, tb_text, case_merge=False, opts=None):
    """-> dict(checks=n, failed=[...first few...], sets=n)"""
    tb = parse_testbench(tb_text)
    it = Interp(elab, case_merge=case_merge, **(opts or {}))
    ports = {pn: (d, n) for pn, d, n in elab.top_ports}
    for nm, c in tb["init"].items():
        if nm in ports:
            n = ports[nm][1]
            it.val[n.id] = c; it.last[n.id] = c
    for c in tb["clocks"]:
        if c not in ports:
            raise Unsupported("testbench clock " + c + " is not a port")
    it.initialise()
    lines = tv_text.split("\n")
    # the sim_process: list of (time_fs, [actions]) blocks
    blocks, t, cur = [], 0, []
    i = 0
    while i < len(lines):
        l = lines[i].strip()
        if l == "":
            i += 1
            continue
        if l == "ADV":
            blocks.append((t, cur)); cur = []
            t += int(lines[i + 1]) * 1000
            i += 2
        elif l in ("SET", "CHECK", "RST"):
            cur.append((l, lines[i + 1].strip(), lines[i + 2].strip()))
            i += 3
        else:
            raise Unsupported("test vector line " + l)
    blocks.append((t, cur))
    end = t
    if tb["clocks"] and end // min(tb["clocks"].values()) > 400000:
        raise Unsupported("test vector file spans more than 400000 clock half periods (corrupt ADV record?)")
    # merge with clock toggles
    events = [(bt, 1, acts) for bt, acts in blocks]
    for c, half in tb["clocks"].items():
        k = 1
        while k * half <= end:
            events.append((k * half, 0, c))
            k += 1
    events.sort(key=lambda x: (x[0], x[1]))
    res = dict(checks=0, sets=0, failed=[], edges=0)
    idx = 0
    while idx < len(events):
        now = events[idx][0]
        upd = {}
        while idx < len(events) and events[idx][0] == now:
            _, kind, payload = events[idx]
            idx += 1
            if kind == 0:
                n = ports[payload][1]
                upd[n.id] = _not(it.val[n.id])
                res["edges"] += 1
            else:
                for act, name, value in payload:
                    if name not in ports:
                        raise Unsupported("test vector names unknown port " + name)
                    n = ports[name][1]
                    value = value.upper()
                    if act == "CHECK":
                        res["checks"] += 1
                        got = it.val[n.id]
                        if not std_match(got, value):
                            if len(res["failed"]) < 5:
                                res["failed"].append(dict(time_ps=now // 1000, pin=name, expected=value, observed=got))
                    else:
                        res["sets"] += 1
                        if len(value) != n.width:
                            raise Unsupported("SET value width")
                        upd[n.id] = value
        it.apply(upd)
    res["deltas"] = it.deltas
    res["clock_half_periods_ps"] = {c: h // 1000 for c, h in tb["clocks"].items()}
    res["clock_init"] = {c: tb["init"].get(c, "U") for c in tb["clocks"]}
    res["port_regs"] = list(it.port_regs)
    return res


# ---- time base of the recorded test vectors ---------------------------------------------------------
def check_timebase(tbtrace_text, tv_text):
    """The exporter's recorder writes whole-picosecond ADV records.  harness/C02_export.cpp logged, for every SET/CHECK round of
    its simulation process, the exact simulator time `t` of the round and the time `next` of the next simulator event; the
    recorder places the round's records inside (t, next).  So the accumulated ADV time of the k-th CHECK group must lie in
    [t_k - 1 ps, next_k]: otherwise the stimulus process of the exported test bench drifts against the test bench's own clock
    process (which runs from the half-period constant, not from the vector file).
    -> dict(groups=n, worst_early_ps=.., worst_late_ps=.., first_bad=None | dict(...))"""
    from fractions import Fraction
    rounds, timing = [], None
    for line in tbtrace_text.splitlines():
        p = line.split()
        if p and p[0] == "timing":
            timing = {x.split("=")[0]: Fraction(x.split("=")[1]) * 10 ** 12 for x in p[1:]}       # ps
        elif len(p) > 2 and p[0] == "cy" and p[2] == "out" and timing:
            outs = p[3:]
            recordable = sum(1 for o in outs if any(ch in "01" for ch in o))
            t0 = timing["start"] + int(p[1]) * timing["step"]
            rounds.append((int(p[1]), t0, t0 + timing["gap"], recordable))
    groups, t, lines, i, in_group = [], 0, tv_text.split("\n"), 0, False
    while i < len(lines):
        l = lines[i].strip()
        if l == "ADV":
            t += int(lines[i + 1]); i += 2; in_group = False
        elif l == "CHECK":
            if not in_group:
                groups.append(t); in_group = True
            i += 3
        elif l in ("SET", "RST"):
            i += 3
        else:
            i += 1
    want = [r for r in rounds if r[3] > 0]
    res = dict(groups=len(groups), rounds=len(want), worst_early_ps=0.0, worst_late_ps=0.0, first_bad=None)
    if len(groups) != len(want):
        res["first_bad"] = dict(kind="number of CHECK groups differs from the number of rounds that read a defined value", groups=len(groups), rounds=len(want))
        return res
    for tau, (cyc, t0, t1, _) in zip(groups, want):
        early, late = float(t0 - tau), float(tau - t1)
        res["worst_early_ps"] = max(res["worst_early_ps"], early)
        res["worst_late_ps"] = max(res["worst_late_ps"], late)
        if (early > 1 or late > 0) and res["first_bad"] is None:
            res["first_bad"] = dict(kind="accumulated ADV time of a CHECK group lies outside [t - 1 ps, next event]", round=cyc,
                                    simulator_time_ps=float(t0), next_event_ps=float(t1), adv_sum_ps=tau)
    return res
