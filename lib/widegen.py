"""Seeded generator of design programs with WIDE signals (65..200 bits, widths around the 64-bit word seams of the
simulator's bit-vector storage).  The state space is far beyond the verified product certificate, so these designs
are decided by the tie (model vs real traces) and by the differential oracle on the real simulator (constructed vs
post-processed circuit, same stimuli).  Shape-directed: constants whose 64-bit words are all-zero / all-one / mixed
with a partial top word, rewires (cat / slice / extension / bit assignment) crossing the word seams, word-level
operators with one such constant operand, wide registers with wide reset values, shifts by more than 64."""
import random

WIDTHS = [64, 65, 66, 70, 72, 96, 100, 127, 128, 129, 130, 136, 192, 193, 200]


def wide_bits(r, w, xprob=0.0):
    """bit string (msb first) of width w composed per 64-bit word (lsb-aligned words, partial top word)"""
    if r.random() < 0.4:
        # mask shapes: all whole words one kind, the partial top word (or the top word) another kind
        lo, hi = r.choice(["00", "01", "01", "10", "10", "11"])
        top = (w % 64) or 64
        s = hi * top + lo * (w - top)
        if r.random() < 0.25 and w > top:          # one stray bit somewhere in the low words
            i = r.randrange(top, w)
            s = s[:i] + ("1" if s[i] == "0" else "0") + s[i + 1:]
        if xprob and r.random() < xprob:
            i = r.randrange(w)
            s = s[:i] + "X" + s[i + 1:]
        return s
    words = []
    left = w
    while left > 0:
        n = min(64, left)
        k = r.random()
        if k < 0.35: s = "0" * n
        elif k < 0.65: s = "1" * n
        elif k < 0.75: s = "0" * (n - 1) + "1"
        elif k < 0.80: s = "1" + "0" * (n - 1)
        else: s = "".join(r.choice("01") for _ in range(n))
        if xprob and r.random() < xprob:
            i = r.randrange(n)
            s = s[:i] + "X" + s[i + 1:]
        words.append(s)          # words[0] = least significant word
        left -= n
    return "".join(reversed(words))


class WGen:
    def __init__(self, r):
        self.r = r
        self.s = []
        self.vars = {}
        self.n = 0
        self.in_bits = 0
        self.max_in = r.choice([4, 5, 6, 6, 12])     # few input bits: the verified certificate can enumerate all input vectors
        self.feat = set()

    def fresh(self, p="t"):
        self.n += 1
        return f"{p}{self.n}"

    def emit(self, l): self.s.append(l)

    def define(self, n, w, bit=False):
        self.vars[n] = ('b', 1) if bit else ('u', w)
        return n

    def w(self, n): return self.vars[n][1]

    def pin(self, w):
        if self.in_bits + w > self.max_in:
            c = [k for k, v in self.vars.items() if v == ('u', w) and k.startswith("i")]
            if c: return self.r.choice(c)
            c = [k for k, v in self.vars.items() if v[0] == 'u' and k.startswith("i") and v[1] <= 3]
            if c: return self.r.choice(c)
        n = self.fresh("i")
        self.emit(f"in {n} {w}")
        self.in_bits += w
        return self.define(n, w)

    def pinb(self):
        c = [k for k, v in self.vars.items() if v[0] == 'b' and k.startswith("c")]
        if c and (self.in_bits >= self.max_in or self.r.random() < 0.5): return self.r.choice(c)
        n = self.fresh("c")
        self.emit(f"inb {n}")
        self.in_bits += 1
        return self.define(n, 1, True)

    def const(self, w, xprob=0.0):
        n = self.fresh("k")
        self.emit(f"lit {n} u{w} {wide_bits(self.r, w, xprob)}")
        return self.define(n, w)

    def widen(self, w):
        """a NON-constant value of width w: small input extended / concatenated with constants"""
        r = self.r
        i = self.pin(r.choice([1, 2, 3]))
        n = self.fresh("x")
        k = r.random()
        if k < 0.35:
            self.emit(f"{r.choice(['zext', 'oext', 'sext'])} {n} {i} {w}")
        elif k < 0.7:
            c = self.const(w - self.w(i))
            a, b = (c, i) if r.random() < 0.5 else (i, c)
            self.emit(f"bin {n} cat {a} {b}")
            self.feat.add("cat-const-with-input")
        else:
            # input bits dropped into the middle of a constant (bit-vector slice assignment)
            c = self.const(w)
            off = r.choice([0, 1, 62, 63, 64, 65, w - self.w(i)])
            off = max(0, min(off, w - self.w(i)))
            self.emit(f"var {n} {c}")
            self.define(n, w)
            self.emit(f"setslice {n} {off} {self.w(i)} {i}")
            self.feat.add("input-inside-constant")
            return n
        return self.define(n, w)

    def some(self, w):
        c = [k for k, v in self.vars.items() if v == ('u', w) and not k.startswith("k")]
        if c and self.r.random() < 0.6: return self.r.choice(c)
        return self.widen(w)

    def seam_slice(self, v):
        """a slice of v at an offset around a word seam; returns the new variable"""
        r = self.r
        w = self.w(v)
        offs = [o for o in (0, 1, 56, 60, 63, 64, 65, 120, 127, 128, 129, w - 1, w - 4, w - 8, w - 64, w - 65) if 0 <= o < w]
        off = r.choice(offs)
        sw = r.choice([1, 2, 4, 8, 63, 64, 65, w - off])
        sw = max(1, min(sw, w - off))
        n = self.fresh("q")
        self.emit(f"slice {n} {v} {off} {sw}")
        return self.define(n, sw)

    # ---- templates ------------------------------------------------------
    def t_rewire(self):
        w = self.r.choice(WIDTHS)
        cur = self.some(w)
        for _ in range(self.r.choice([1, 2, 3])):
            k = self.r.random()
            w = self.w(cur)
            if k < 0.4 and w > 8:
                cur = self.seam_slice(cur)
            elif k < 0.7 and w < 200:
                ow = self.r.choice([1, 7, 8, 63, 64, 65, 72])
                c = self.const(ow)
                n = self.fresh("q")
                a, b = (cur, c) if self.r.random() < 0.5 else (c, cur)
                self.emit(f"bin {n} cat {a} {b}")
                cur = self.define(n, w + ow)
            elif k < 0.85 and w < 200:
                n = self.fresh("q")
                nw = w + self.r.choice([1, 8, 63, 64, 65])
                self.emit(f"{self.r.choice(['zext', 'oext', 'sext'])} {n} {cur} {nw}")
                cur = self.define(n, nw)
            else:
                n = self.fresh("q")
                self.emit(f"not {n} {cur}")
                cur = self.define(n, w)
        self.feat.add("rewire-chain")
        return cur

    def t_partconst(self):
        w = self.r.choice(WIDTHS)
        x = self.some(w)
        k = self.const(w, xprob=0.1)
        op = self.r.choice(['and', 'or', 'xor', 'nand', 'nor', 'xnor', 'add', 'sub', 'mul', 'eq', 'ne', 'lt', 'gt', 'le', 'ge'])
        a, b = (x, k) if self.r.random() < 0.5 else (k, x)
        n = self.fresh("t")
        self.emit(f"bin {n} {op} {a} {b}")
        self.feat.add("op-with-wide-constant")
        if op in ('eq', 'ne', 'lt', 'gt', 'le', 'ge'):
            return self.define(n, 1, True)
        return self.define(n, w)

    def t_constfold(self):
        w = self.r.choice(WIDTHS)
        a, b = self.const(w, 0.05), self.const(w, 0.05)
        op = self.r.choice(['and', 'or', 'xor', 'add', 'sub', 'mul', 'eq', 'lt', 'cat'])
        n = self.fresh("t")
        self.emit(f"bin {n} {op} {a} {b}")
        self.feat.add("wide-constant-folding")
        if op in ('eq', 'lt'):
            return self.define(n, 1, True)
        self.define(n, 2 * w if op == 'cat' else w)
        # make it meet an input so that the folded constant feeds live logic
        m = self.fresh("t")
        self.emit(f"bin {m} {self.r.choice(['xor', 'and', 'or', 'add'])} {n} {self.some(self.w(n))}")
        return self.define(m, self.w(n))

    def t_mux(self):
        w = self.r.choice(WIDTHS)
        c = self.pinb()
        a = self.const(w) if self.r.random() < 0.6 else self.some(w)
        b = self.const(w) if self.r.random() < 0.6 else self.some(w)
        n = self.fresh("m")
        self.emit(f"mux {n} {c} {a} {b}")
        self.feat.add("wide-mux")
        return self.define(n, w)

    def t_shift(self):
        w = self.r.choice(WIDTHS)
        x = self.some(w) if self.r.random() < 0.6 else self.const(w)
        aw = self.r.choice([2, 3, 7, 8])
        amt = self.pin(aw) if aw <= 3 else None
        if amt is None:
            # amount = small input placed at bit 5/6 of a wider amount: shifts by multiples of 32 / 64 and beyond the width
            i = self.pin(2)
            amt = self.fresh("a")
            lo = self.r.choice([5, 6])
            kk = self.fresh("k")
            self.emit(f"lit {kk} u{lo} {''.join(self.r.choice('01') for _ in range(lo))}")
            self.define(kk, lo)
            self.emit(f"bin {amt} cat {i} {kk}")
            self.define(amt, lo + self.w(i))
        n = self.fresh("s")
        self.emit(f"bin {n} {self.r.choice(['shl', 'shr', 'rotl', 'rotr'])} {x} {amt}")
        self.feat.add("wide-shift")
        return self.define(n, w)

    def t_reg(self):
        w = self.r.choice(WIDTHS)
        x = self.some(w)
        q = self.fresh("r")
        rst = ""
        if self.r.random() < 0.7:
            rst = " rst " + wide_bits(self.r, w, xprob=0.05 if self.r.random() < 0.2 else 0.0)
        self.emit(f"reg {q} {x}{rst}")
        self.feat.add("wide-register")
        return self.define(q, w)

    def t_condassign(self):
        w = self.r.choice(WIDTHS)
        v = self.fresh("y")
        self.emit(f"var {v} {self.const(w)}")
        self.define(v, w)
        c = self.pinb()
        self.emit(f"if {c}")
        i = self.pin(self.r.choice([1, 2, 3]))
        off = max(0, min(self.r.choice([0, 60, 63, 64, w - 3]), w - self.w(i)))
        self.emit(f"setslice {v} {off} {self.w(i)} {i}")
        if self.r.random() < 0.5:
            self.emit("else")
            self.emit(f"set {v} {self.const(w)}")
        self.emit("endif")
        self.feat.add("conditional-slice-assignment-in-wide-constant")
        return v


W_TEMPLATES = ["t_rewire", "t_rewire", "t_rewire", "t_partconst", "t_partconst", "t_constfold", "t_mux", "t_shift", "t_reg", "t_condassign"]


def gen_wide_design(seed, did):
    r = random.Random(seed)
    g = WGen(r)
    outs = []
    for _ in range(r.choice([1, 2, 2, 3])):
        v = getattr(g, r.choice(W_TEMPLATES))()
        outs.append(v)
        # often: observe only slices of the result (the rewire node reading the wide value is what gets optimised)
        if g.vars[v][0] == 'u' and g.w(v) > 8 and r.random() < 0.7:
            for _ in range(r.choice([1, 2])):
                outs.append(g.seam_slice(v))
    k = 0
    for v in outs:
        g.emit(f"out o{k} {v}")
        k += 1
    if r.random() < 0.5:
        g.emit("dropall")
    return [f"design {did}"] + g.s, sorted(g.feat)
