"""Seeded generator of retiming design programs for property C06 (harness/C06_retime.cpp).

Every design is a tiny datapath (<= 5 input bits, a handful of register bits) so that the
verified product-reachability certificate can enumerate it, but the SHAPES vary: re-convergent
fan-out, hints in series, several group inputs with different combinational depth, stalls
(ENIF scopes), feed-forward registers inside the region, autonomous state, movable registers
(forward / backward / holding circuits for partial enables), negative registers.

gen(seed, did) -> dict(lines=[...], template=str, features=[...], expect='ok'|'known:<tag>',
                       warm=bool, claim='every-cycle'|'from-fill')
"""
import random

BIT_OPS = ["and", "or", "xor", "nand", "nor", "xnor"]
U_OPS = ["and", "or", "xor", "add", "sub"]


class RG:
    def __init__(self, rng, did):
        self.r = rng
        self.did = did
        self.s = [f"design {did}"]
        self.n = 0
        self.typ = {}          # var -> 'b' | ('u', w)
        self.depth = {}        # var -> number of register stages (anchored or movable) on the longest path from the region inputs
        self.feat = set()
        self.in_bits = 0
        self.rstof = {}        # register / group output -> reset literal (None: no reset value)

    # ---- basics ----
    def fresh(self, p="t"):
        self.n += 1
        return f"{p}{self.n}"

    def emit(self, l):
        self.s.append(l)

    def w(self, v):
        t = self.typ[v]
        return 1 if t == 'b' else t[1]

    def isb(self, v):
        return self.typ[v] == 'b'

    def define(self, v, t, d=0):
        self.typ[v] = t
        self.depth[v] = d
        return v

    def pin(self, w):
        """w == 0: Bit pin, else UInt pin of width w"""
        if w == 0:
            v = self.fresh("i")
            self.emit(f"inb {v}")
            self.in_bits += 1
            return self.define(v, 'b')
        v = self.fresh("i")
        self.emit(f"in {v} {w}")
        self.in_bits += w
        return self.define(v, ('u', w))

    def stall_pin(self):
        """the stall condition of a pipeline: an input pin, or a condition computed from two pins - among them a NEGATED
        AND held in a named signal (Conjunction::parseOutput must keep it as ONE negated term: ~(a&b) is not ~a & ~b)"""
        k = self.r.random()
        if k < 0.55:
            return self.pin(0)
        a, b = self.pin(0), self.pin(0)
        v = self.fresh("s")
        if k < 0.65:
            self.emit(f"bin {v} and {a} {b}")
        elif k < 0.72:
            self.emit(f"not {v} {a}")
        elif k < 0.78:
            self.emit(f"bin {v} or {a} {b}")
        else:
            m = self.fresh("s")
            self.emit(f"bin {m} {self.r.choice(['and', 'and', 'or'])} {a} {b}")
            if self.r.random() < 0.75:
                self.emit(f"name {m} blocked_{m}")
            self.emit(f"not {v} {m}")
            self.feat.add("stall-is-negated-and-in-named-signal")
        self.feat.add("computed-stall-condition")
        return self.define(v, 'b')

    def lit(self, t, bits=None):
        v = self.fresh("k")
        if t == 'b':
            bits = bits or self.r.choice("01")
            self.emit(f"lit {v} b {bits}")
        else:
            bits = bits or "".join(self.r.choice("01") for _ in range(t[1]))
            self.emit(f"lit {v} u{t[1]} {bits}")
        return self.define(v, t)

    def rstlit(self, v):
        return "".join(self.r.choice("01") for _ in range(self.w(v)))

    # ---- combinational ops on region variables ----
    def op2(self, a, b):
        """random binary operation on two variables of equal type; returns new var"""
        v = self.fresh()
        d = max(self.depth[a], self.depth[b])
        if self.isb(a):
            o = self.r.choice(BIT_OPS + ["eq", "ne"])
            self.emit(f"bin {v} {o} {a} {b}")
            return self.define(v, 'b', d)
        o = self.r.choice(U_OPS + ["eq", "lt"])
        self.emit(f"bin {v} {o} {a} {b}")
        return self.define(v, 'b' if o in ("eq", "lt") else self.typ[a], d)

    def unop(self, a):
        v = self.fresh()
        self.emit(f"not {v} {a}")
        return self.define(v, self.typ[a], self.depth[a])

    def mux(self, sel, a, b):
        v = self.fresh()
        self.emit(f"mux {v} {sel} {a} {b}")
        return self.define(v, self.typ[a], max(self.depth[sel], self.depth[a], self.depth[b]))

    def coerce(self, v, t):
        """variable of type t derived from v"""
        if self.typ[v] == t:
            return v
        n = self.fresh()
        if t == 'b':
            self.emit(f"bit {n} {v} {self.r.randrange(self.w(v))}")
        elif self.isb(v):
            self.emit(f"zext {n} {v} {t[1]}")      # asU(bit) is 1 wide, zext to w
        elif self.w(v) > t[1]:
            self.emit(f"slice {n} {v} 0 {t[1]}")
        else:
            self.emit(f"zext {n} {v} {t[1]}")
        return self.define(n, t, self.depth[v])

    def combine(self, pool):
        """one random operation over the pool; returns the new variable"""
        a = self.r.choice(pool)
        k = self.r.random()
        if k < 0.12:
            return self.unop(a)
        others = [x for x in pool if x != a] or pool
        b = self.coerce(self.r.choice(others), self.typ[a])
        if k < 0.25 and len(pool) >= 2:
            sel = self.coerce(self.r.choice(pool), 'b')
            return self.mux(sel, a, b)
        if k < 0.33:
            b = self.lit(self.typ[a])
            if self.r.random() < 0.3:
                b = self.blocker(b)          # a blocked constant: retiming must not try to pull a register out of it
        return self.op2(a, b)

    def hint(self, v):
        n = self.fresh("h")
        self.emit(f"pipestage {n} {v}")
        self.feat.add("pipestage")
        return self.define(n, self.typ[v], self.depth[v])

    def blocker(self, v):
        n = self.fresh("b")
        self.emit(f"blocker {n} {v}")
        self.feat.add("retiming-blocker")
        return self.define(n, self.typ[v], self.depth[v])

    def reg(self, v, kind="reg", rst=True, rstval=None):
        n = self.fresh("r")
        lit = (rstval or self.rstlit(v)) if rst else None
        self.emit(f"{kind} {n} {v}" + (f" rst {lit}" if lit else ""))
        self.rstof[n] = lit
        return self.define(n, self.typ[v], self.depth[v] + 1)

    def out(self, v, warmD=None, en=None):
        if warmD is not None:
            n = self.fresh("w")
            self.emit(f"warm {n} {v} {warmD} {en or '-'}")
            self.define(n, self.typ[v], self.depth[v])
            v = n
        o = self.fresh("o")
        self.emit(f"out {o} {v}")


def _group_inputs(g, stall, resets, nin=None, widths=None):
    """pins -> [enif] group -> pipein; returns (en, [group outputs])"""
    r = g.r
    nin = nin or r.choice([2, 2, 3])
    widths = widths or r.choice([[0] * nin, [0] * nin, [2] + [0] * (nin - 1)])
    pins = [g.pin(w) for w in widths[:nin]]
    en = None
    if stall:
        en = g.stall_pin()
        g.emit(f"enif {en}")
        g.feat.add("stall")
    g.emit("pipegroup G")
    outs = []
    for p in pins:
        n = g.fresh("g")
        lit = g.rstlit(p) if resets else None
        g.emit(f"pipein {n} G {p}" + (f" rst {lit}" if lit else ""))
        g.rstof[n] = lit
        outs.append(g.define(n, g.typ[p]))
    g.feat.add("group")
    return en, outs


def t_pipeline(g, ff=False):
    """pipelined region fed by one balance group: random DAG with hints (series, re-convergent, unequal depth)"""
    r = g.r
    stall = r.random() < 0.45
    resets = r.random() < 0.75
    en, pool = _group_inputs(g, stall, resets)
    g.feat.add("resets" if resets else "no-resets")
    stages = 0
    maxstages = r.choice([1, 2, 2]) if sum(g.w(v) for v in pool) <= 3 else r.choice([1, 1, 2])
    nanch = 0
    nops = r.randrange(2, 6)
    last = None
    for i in range(nops):
        v = g.combine(pool)
        if r.random() < 0.35 and stages < maxstages:
            v = g.hint(v); stages += 1
            if r.random() < 0.25 and stages < maxstages:
                v = g.hint(v); stages += 1; g.feat.add("hints-in-series")
        if ff and nanch < 1 and r.random() < 0.5:
            v = g.reg(v, "reg", rst=resets); nanch += 1; g.feat.add("feed-forward-reg")
        pool.append(v)
        last = v
    if ff and nanch == 0:
        last = g.reg(last, "reg", rst=resets); nanch += 1; g.feat.add("feed-forward-reg"); pool.append(last)
    # re-convergence: combine the last value with an early group output again
    if r.random() < 0.6:
        a = last
        b = g.coerce(pool[r.randrange(0, 2)], g.typ[a])
        last = g.op2(a, b); pool.append(last); g.feat.add("reconvergent")
    outs = [last]
    if r.random() < 0.35:
        outs.append(r.choice(pool[:-1]))
        g.feat.add("two-outputs")
    final = []
    for o in outs:
        if stages == 0 or (stages < maxstages and r.random() < 0.7):
            o = g.hint(o); stages += 1
        final.append(o)
    if r.random() < 0.15:
        final = [g.blocker(o) for o in final]
    if stall:
        g.emit("endenif")
    D = max(g.depth[o] for o in final)
    for o in final:
        g.out(o, warmD=(D if ff else None), en=en)
    return dict(template="feedforward" if ff else "stateless", expect="ok", warm=ff,
                claim="from-fill" if ff else "every-cycle")


def t_two_groups(g):
    """two independent balance groups with disjoint cones: each reports its own N"""
    r = g.r
    resets = r.random() < 0.8
    stall = r.random() < 0.3
    en = None
    pins = [g.pin(0) for _ in range(r.choice([3, 4]))]
    if stall:
        en = g.stall_pin()
        g.emit(f"enif {en}")
        g.feat.add("stall")
    outs = []
    for gi, gname in enumerate(["G", "H"]):
        mine = pins[:2] if gi == 0 else pins[2:]
        g.emit(f"pipegroup {gname}")
        pool = []
        for p in mine:
            n = g.fresh("g")
            g.emit(f"pipein {n} {gname} {p}" + (f" rst {g.rstlit(p)}" if resets else ""))
            pool.append(g.define(n, g.typ[p]))
        x = g.combine(pool)
        x = g.hint(x)
        if gi == 1 and r.random() < 0.5:
            x = g.hint(g.op2(x, pool[0]))
            g.feat.add("reconvergent")
        outs.append(x)
    if stall:
        g.emit("endenif")
    for o in outs:
        g.out(o)
    g.feat.add("two-groups")
    g.feat.add("group")
    g.feat.add("resets" if resets else "no-resets")
    return dict(template="two_groups", expect="ok", warm=False, claim="every-cycle")


def t_autostate(g, movable):
    """region with autonomous state (free running counter / toggle) that does not depend on the group inputs"""
    r = g.r
    stall = r.random() < 0.4
    en, pool = _group_inputs(g, stall, True, nin=r.choice([1, 2]))
    w = r.choice([1, 2])
    c = g.fresh("c")
    g.emit(f"loopvar {c} {w}")
    g.define(c, ('u', w))
    one = g.lit(('u', w), "1".rjust(w, "0"))
    nx = g.fresh()
    g.emit(f"bin {nx} add {c} {one}")
    g.define(nx, ('u', w))
    cr = g.fresh("r")
    g.emit(f"{'regfwd' if movable else 'reg'} {cr} {nx} rst {g.rstlit(c)}")
    g.define(cr, ('u', w))
    g.emit(f"close {c} {cr}")
    a = pool[0]
    x = g.op2(g.coerce(a, ('u', w)), cr)
    if len(pool) > 1 and r.random() < 0.7:
        x = g.op2(x, g.coerce(pool[1], g.typ[x]))
    x = g.hint(x)
    if stall:
        g.emit("endenif")
    g.out(x)
    g.feat.add("autonomous-state-movable" if movable else "autonomous-state-anchored")
    return dict(template="autostate_movable" if movable else "autostate_anchored",
                expect="ok" if movable else "known:autonomous-anchored-state-in-region", warm=False, claim="every-cycle")


def t_movable_fwd(g):
    """explicitly movable registers (allowRetimingForward) pulled to a pipestage; optional partial enables (holding circuit)"""
    r = g.r
    mode = r.choice(["plain", "plain", "stall", "partial", "api", "group+movable", "mixed", "mixed"])
    resets = r.random() < 0.7
    expect = "ok"
    second = False
    pool = []
    en = None
    if mode == "partial":
        pins = [g.pin(0), g.pin(0)]
        rdy, vld = g.pin(0), g.pin(0)
        both = g.fresh()
        g.emit(f"bin {both} and {rdy} {vld}")
        g.define(both, 'b')
        for i, p in enumerate(pins):
            g.emit(f"enif {both if i == 0 else rdy}")
            pool.append(g.reg(p, "regfwd", rst=resets))
            g.emit("endenif")
        g.feat.add("partial-enable-holding-circuit")
    elif mode == "mixed":
        # fan-in mixing register sources WITH an enable (movable register / balance group inside ENIF)
        # and WITHOUT one (free running): the retimed register must not inherit the enable
        nin = r.choice([2, 2, 3])
        pins = [g.pin(0) for _ in range(nin)]
        e = g.pin(0)
        inside = [True, False] + [r.random() < 0.5 for _ in range(nin - 2)]
        r.shuffle(inside)
        usegroup = r.random() < 0.35
        for k, (p, ins) in enumerate(zip(pins, inside)):
            if ins:
                g.emit(f"enif {e}")
            if usegroup and k == 0:
                gname = g.fresh("G")
                g.emit(f"pipegroup {gname}")
                n = g.fresh("g")
                lit = g.rstlit(p) if resets else None
                g.emit(f"pipein {n} {gname} {p}" + (f" rst {lit}" if lit else ""))
                g.rstof[n] = lit
                pool.append(g.define(n, g.typ[p]))
                g.feat.add("group")
            else:
                pool.append(g.reg(p, "regfwd", rst=resets))
            if ins:
                g.emit("endenif")
        g.feat.add("mixed-enable-fan-in")
    elif mode == "group+movable":
        en, gouts = _group_inputs(g, r.random() < 0.4, resets, nin=2, widths=[0, 0])
        second = r.random() < 0.45
        same = r.random() < 0.6
        rv = g.rstof[gouts[0]]
        if resets and second:
            rv = rv if same else ("1" if rv == "0" else "0")
        pool = [g.reg(gouts[0], "regfwd", rst=resets, rstval=rv if (resets and second) else None), gouts[1]]
        if resets and second and not same:
            expect = "known:hints-in-series-lose-upstream-reset-value"
        g.feat.add("group+movable")
    else:
        nin = r.choice([2, 2, 3])
        pins = [g.pin(r.choice([0, 0, 2]) if i == 0 else 0) for i in range(nin)]
        if mode == "stall":
            en = g.stall_pin()
            g.emit(f"enif {en}")
            g.feat.add("stall")
        for p in pins:
            pool.append(g.reg(p, r.choice(["regfwd", "regfwd", "regfb"]), rst=resets))
    nsrc = len(pool)
    in_area = mode != "api" and r.random() < 0.3
    if in_area:
        g.emit(f"area cone{g.fresh('a')}" + (" entity" if r.random() < 0.4 else ""))
        g.feat.add("cone-in-area")
    for i in range(r.randrange(1, 4)):
        pool.append(g.combine(pool))
    x = pool[-1]
    # decorations inside the cone that is going to be retimed: named intermediates and an intermediate that
    # ALSO leaves the cone (second output pin): every value leaving the cone needs its own register
    extra_out = None
    if mode != "api" and len(pool) - nsrc >= 2 and r.random() < 0.55:
        mid = r.choice(pool[nsrc:-1])
        if r.random() < 0.7:
            g.emit(f"name {mid} n_{mid}")
            g.feat.add("named-signal-in-cone")
        extra_out = mid
        g.feat.add("cone-intermediate-leaves-cone")
    elif r.random() < 0.3 and len(pool) > nsrc:
        mid = r.choice(pool[nsrc:])
        g.emit(f"name {mid} n_{mid}")
        g.feat.add("named-signal-in-cone")
    if in_area:
        g.emit("endarea")
    if mode == "api":
        y = g.unop(x)           # give the target a consumer
        g.emit(f"retfwd {x}")
        g.feat.add("retimeForwardToOutput-api")
        x = y
    else:
        x = g.hint(x)
        if second:
            x = g.hint(g.unop(x))
            g.feat.add("hints-in-series")
    if en is not None:
        g.emit("endenif")
    g.out(x)
    if extra_out is not None:
        g.out(extra_out)
    g.feat.add("movable-forward")
    g.feat.add("resets" if resets else "no-resets")
    return dict(template="movable_fwd:" + mode, expect=expect, warm=False, claim="every-cycle")


def t_movable_series(g):
    """two movable registers in series per input, pulled by two pipestage hints in series"""
    r = g.r
    resets = r.random() < 0.85
    same = r.random() < 0.5
    stall = r.random() < 0.35
    nin = r.choice([1, 2])
    pins = [g.pin(0) for _ in range(nin)]
    en = None
    if stall:
        en = g.stall_pin()
        g.emit(f"enif {en}")
        g.feat.add("stall")
    pool = []
    for p in pins:
        rv = g.rstlit(p)
        a1 = g.reg(p, "regfwd", rst=resets, rstval=rv)
        rv2 = rv if same else ("1" if rv == "0" else "0")
        pool.append(g.reg(a1, "regfwd", rst=resets, rstval=rv2))
    x = g.combine(pool) if nin > 1 else g.unop(pool[0])
    x = g.hint(x)
    x = g.unop(x) if r.random() < 0.5 else g.op2(x, g.lit(g.typ[x]))
    x = g.hint(x)
    if stall:
        g.emit("endenif")
    g.out(x)
    g.feat.add("movable-forward")
    g.feat.add("hints-in-series")
    g.feat.add("movable-registers-in-series")
    g.feat.add("resets" if resets else "no-resets")
    ok = same or not resets
    return dict(template="movable_series:" + ("equal-resets" if ok else "different-resets"),
                expect="ok" if ok else "known:hints-in-series-lose-upstream-reset-value", warm=False, claim="every-cycle")


def t_movable_bwd(g):
    """registers marked allowRetimingBackward at the end of a cone, hlim::retimeBackwardtoOutput towards an upstream signal"""
    r = g.r
    stall = r.random() < 0.4
    resets = r.random() < 0.7
    nin = r.choice([2, 3])
    pins = [g.pin(r.choice([0, 0, 2]) if i == 0 else 0) for i in range(nin)]
    en = None
    if stall:
        en = g.stall_pin()
        g.emit(f"enif {en}")
        g.feat.add("stall")
    pool = list(pins)
    for i in range(r.randrange(1, 3)):
        pool.append(g.combine(pool))
    target = pool[-1]
    # everything downstream of `target` must end in backward-movable registers
    cone = [target]
    for i in range(r.randrange(0, 3)):
        a = r.choice(cone)
        k = r.random()
        if k < 0.3:
            cone.append(g.unop(a))
        elif k < 0.6:
            cone.append(g.op2(a, g.lit(g.typ[a])))
        else:
            cone.append(g.op2(a, g.coerce(r.choice(cone), g.typ[a])))
    ends = [cone[-1]] if r.random() < 0.6 or len(cone) < 2 else [cone[-1], cone[-2]]
    outs = [g.reg(e, r.choice(["regbwd", "regbwd", "regfb"]), rst=resets) for e in ends]
    g.emit(f"retbwd {target}")
    if stall:
        g.emit("endenif")
    for o in outs:
        g.out(o)
    g.feat.add("movable-backward")
    g.feat.add("resets" if resets else "no-resets")
    return dict(template="movable_bwd", expect="ok", warm=False, claim="every-cycle")


def _ev(op, a, b, w):
    x, y = int(a, 2), int(b, 2)
    m = (1 << w) - 1
    v = {"and": x & y, "or": x | y, "xor": x ^ y, "add": (x + y) & m}[op]
    return format(v, f"0{w}b")


def t_negreg(g):
    """negative registers on group outputs, cancelled by a partner register enabled by the negative register's enable output"""
    r = g.r
    stall = r.random() < 0.5
    resets = r.random() < 0.75
    nin = r.choice([2, 2, 3])
    widths = r.choice([[0] * nin, [2] + [0] * (nin - 1)])
    pins = [g.pin(w) for w in widths]
    en = None
    if stall:
        en = g.stall_pin()
        g.emit(f"enif {en}")
        g.feat.add("stall")
    g.emit("pipegroup G")
    gouts, rsts = [], {}
    for p in pins:
        n = g.fresh("g")
        rv = g.rstlit(p)
        g.emit(f"pipein {n} G {p}" + (f" rst {rv}" if resets else ""))
        g.define(n, g.typ[p]); gouts.append(n); rsts[n] = rv
    # mostly close the stall scope here: the partner register is then stalled ONLY through the enable
    # output of the negative register (as an external node's enable pin would be)
    if stall and r.random() < 0.75:
        g.emit("endenif")
        stall = False
        g.feat.add("negreg-partner-enabled-only-by-negreg-enable")
    # negative register on the first output (optionally on two outputs of equal type, combined)
    a = gouts[0]
    an = g.fresh("n")
    g.emit(f"neg {an} {a}")
    g.define(an, g.typ[a])
    val, rv = an, rsts[a]
    same = [x for x in gouts[1:] if g.typ[x] == g.typ[a]]
    if same and r.random() < 0.4:
        b = same[0]
        bn = g.fresh("n")
        g.emit(f"neg {bn} {b}")
        g.define(bn, g.typ[b])
        o = r.choice(["and", "or", "xor"] + ([] if g.isb(a) else ["add"]))
        v = g.fresh()
        g.emit(f"bin {v} {o} {an} {bn}")
        g.define(v, g.typ[a])
        val, rv = v, _ev(o, rsts[a], rsts[b], g.w(a))
        g.feat.add("two-negregs")
    if r.random() < 0.4:
        v = g.fresh()
        g.emit(f"not {v} {val}")
        g.define(v, g.typ[val])
        val, rv = v, "".join("1" if c == "0" else "0" for c in rv)
    ap = g.fresh("p")
    g.emit(f"negpartner {ap} {val} {an}" + (f" rst {rv}" if resets else ""))
    g.define(ap, g.typ[val])
    pool = [ap] + [x for x in gouts[1:]]
    if r.random() < 0.5:
        # the enable output of the negative register consumed by ordinary logic / a pin (an external node's enable input
        # would hang on it): it is the stall condition of the compensated pipeline register, constant '1' without a stall
        ne = g.fresh("e")
        g.emit(f"negen {ne} {an}" + (f" {en}" if en else ""))
        g.define(ne, 'b')
        pool.append(ne)
        g.emit(f"out oe{ne} {ne}")          # observed directly: checks/C06.py demands exact equality on oe* pins
        g.feat.add("negreg-enable-consumed-by-logic" + ("" if en else "-no-stall"))
    for i in range(r.randrange(1, 3)):
        pool.append(g.combine(pool))
    x = pool[-1]
    # the observed value always depends on the partner register
    x = g.op2(x, g.coerce(ap, g.typ[x])) if g.typ[x] != 'b' or r.random() < 0.5 else g.mux(x, ap, g.coerce(gouts[-1], g.typ[ap]))
    if r.random() < 0.35:
        x = g.hint(x)
        g.feat.add("negreg+pipestage")
    if stall:
        g.emit("endenif")
    g.out(x)
    g.feat.add("negative-register")
    g.feat.add("resets" if resets else "no-resets")
    return dict(template="negreg", expect="ok", warm=False, claim="every-cycle")


def t_mem_region(g):
    """a memory inside the pipelined region: write port and two read ports fed by one balance group, a pipeline hint
    behind ONE read port only (forward retiming through a memory read port must take all ports of the memory along)"""
    r = g.r
    resets = True
    stall = r.random() < 0.25
    dbits = r.choice([1, 1, 2])
    depth = 2
    shared_wa = r.random() < 0.4
    widths = [1, 1] + ([] if shared_wa else [1]) + [dbits, 0]
    # the write enable's pipeline registers reset to 0: a write issued from reset values while the pipeline fills would
    # change the (persistent) memory contents of the reference only - state that depends on the grouped inputs is
    # outside the every-cycle claim
    pins = [g.pin(w) for w in widths]
    en = None
    if stall:
        en = g.stall_pin()
        g.emit(f"enif {en}")
        g.feat.add("stall")
    g.emit("pipegroup G")
    outs = []
    for k, p in enumerate(pins):
        n = g.fresh("g")
        lit = ("0" if k == len(pins) - 1 else g.rstlit(p))
        g.emit(f"pipein {n} G {p} rst {lit}")
        g.rstof[n] = lit
        outs.append(g.define(n, g.typ[p]))
    ga1, ga2 = outs[0], outs[1]
    gwa = ga1 if shared_wa else outs[2]
    gwd, gwe = outs[-2], outs[-1]
    m = g.fresh("M")
    g.emit(f"mem {m} {depth} {dbits}" + (" zero" if False else ""))
    order = r.choice(["rrw", "rwr", "wrr"])
    if stall:
        # The memory is state of the region that depends on the grouped inputs, which C06 excludes from its every-cycle
        # claim.  Without a stall (and with the write enable's registers reset to 0) both variants perform the same
        # writes one cycle apart and every output still agrees, so these designs are checked anyway.  With a stall and a
        # read port ordered AFTER the write port (write-first read) they legitimately differ in stalled cycles: the
        # reference drops the write->read bypass while stalled (write enable = we & stall), the retimed design has the
        # bypassed word already in its output register.  Observed (400 seeds: rrw 33/33 equal, rwr 17/39 and wrr 17/31
        # differ, always in a stalled cycle); outside the property, so only read-before-write orders are generated here.
        order = "rrw"
    reads = []
    def wr():
        g.emit(f"if {gwe}"); g.emit(f"memwrite {m} {gwa} {gwd}"); g.emit("endif")
    def rd(a):
        n = g.fresh("q"); g.emit(f"memread {n} {m} {a}"); reads.append(g.define(n, ('u', dbits))); return n
    addrs = [ga1, ga2]
    for ch in order:
        if ch == "w": wr()
        else: rd(addrs[len(reads)])
    x = reads[0]
    if r.random() < 0.6:
        x = g.op2(x, gwd) if g.typ[gwd] == g.typ[x] else g.unop(x)
    x = g.hint(x)
    if stall:
        g.emit("endenif")
    g.out(x)
    y = reads[1]
    if r.random() < 0.4:
        y = g.unop(y)
    g.out(y)
    g.feat.add("memory-in-region"); g.feat.add("two-read-ports"); g.feat.add("group")
    g.feat.add("resets" if resets else "no-resets")
    return dict(template="mem_region:" + order, expect="ok", warm=False, claim="every-cycle")


def t_enabled_state(g):
    """state registers INSIDE the pipelined region whose ENABLE is computed from group inputs (valid-style flag, through
    logic), group without stall condition, one or two hints in series: retiming must also retime the enable's fan-in.
    The flag's pipeline registers reset to 0, so no state update happens from reset values while the pipeline fills
    (state that depends on the grouped inputs is otherwise outside the every-cycle claim)."""
    r = g.r
    w = r.choice([1, 2])
    d = g.pin(w)
    v = g.pin(0)
    extra = g.pin(0) if r.random() < 0.5 else None
    g.emit("pipegroup G")
    outs = []
    for p in [d, v] + ([extra] if extra else []):
        n = g.fresh("g")
        lit = "0" if p == v else g.rstlit(p)
        g.emit(f"pipein {n} G {p} rst {lit}")
        g.rstof[n] = lit
        outs.append(g.define(n, g.typ[p]))
    gd, gv = outs[0], outs[1]
    ge = outs[2] if extra else None
    # enable = valid AND something (through logic, not the spawned register itself)
    k = r.random()
    other = ge if ge is not None and k < 0.5 else g.coerce(gd, 'b')
    if r.random() < 0.5:
        other = g.unop(other)
    en = g.fresh("e")
    g.emit(f"bin {en} and {gv} {other}")
    g.define(en, 'b')
    kind = r.choice(["hold", "acc", "both"])
    pool = [gd]
    g.emit(f"enif {en}")
    if kind in ("hold", "both"):
        h = g.reg(gd, "reg", rst=True)
        pool.append(h)
    if kind in ("acc", "both"):
        c = g.fresh("c")
        g.emit(f"loopvar {c} {g.w(gd)}")
        g.define(c, g.typ[gd])
        c1 = g.op2(c, gd)
        if g.typ[c1] != g.typ[gd]:
            c1 = g.coerce(c1, g.typ[gd])
        cr = g.reg(c1, "reg", rst=True)
        g.emit(f"close {c} {cr}")
        pool.append(cr)
    g.emit("endenif")
    x = g.combine(pool) if len(pool) > 1 else g.unop(pool[0])
    x = g.hint(x)
    if r.random() < 0.5:
        x = g.hint(g.unop(x))
        g.feat.add("hints-in-series")
    g.out(x)
    if r.random() < 0.5 and len(pool) > 1:
        g.out(pool[-1])
    g.feat.add("state-with-enable-from-group-input"); g.feat.add("group"); g.feat.add("resets")
    return dict(template="enabled_state:" + kind, expect="ok", warm=False, claim="every-cycle")


TEMPLATES = [
    ("stateless", 30, lambda g: t_pipeline(g, ff=False)),
    ("feedforward", 16, lambda g: t_pipeline(g, ff=True)),
    ("two_groups", 6, t_two_groups),
    ("autostate_movable", 6, lambda g: t_autostate(g, True)),
    ("autostate_anchored", 4, lambda g: t_autostate(g, False)),
    ("movable_fwd", 18, t_movable_fwd),
    ("movable_series", 7, t_movable_series),
    ("movable_bwd", 12, t_movable_bwd),
    ("negreg", 14, t_negreg),
    ("mem_region", 8, t_mem_region),
    ("enabled_state", 10, t_enabled_state),
]


def gen(seed, did, only=None):
    rng = random.Random(seed)
    g = RG(rng, did)
    names = [t for t in TEMPLATES if only is None or t[0] == only]
    tot = sum(t[1] for t in names)
    k = rng.randrange(tot)
    for nm, wgt, fn in names:
        if k < wgt:
            break
        k -= wgt
    if rng.random() < 0.3 and not nm.startswith("autostate"):
        g.emit("keeprefs")
        g.feat.add("keeprefs")
    meta = fn(g)
    meta["lines"] = g.s
    meta["features"] = sorted(g.feat)
    meta["in_bits"] = g.in_bits
    return meta


def write_programs(path, designs):
    with open(path, "w") as f:
        for lines in designs:
            f.write("\n".join(lines) + "\n")
