"""Shared orchestration for the circuit-level checks (C01, C11, ...): run the design
harness, the extracted-model driver (tie + verified product certificate), and the direct
differential comparison of real simulator traces (independent oracle)."""
import os, subprocess, concurrent.futures, re
import vcommon as V


def run_harness(harness, progfile, outdir, variants="pre,def,min", nstim=2, cycles=8, hookdumps=0, replay_stim=None):
    os.makedirs(outdir, exist_ok=True)
    if replay_stim is not None:
        cmd = [harness, "replay", progfile, replay_stim, "0", outdir, variants, str(hookdumps)]
    else:
        cmd = [harness, "run", progfile, str(nstim), str(cycles), outdir, variants, str(hookdumps)]
    rc, out = V.run(cmd, timeout=3000, env={"VERIF_SEED": str(V.seed())})
    if rc != 0:
        V.infra_error(f"design harness failed rc={rc}: {out[-2000:]}")
    return out


def run_driver(driver, cmds, workdir, nproc=None):
    """cmds: list of command strings for the driver's batch mode; returns list of output lines"""
    nproc = nproc or V.NCPU
    os.makedirs(workdir, exist_ok=True)
    shards = [cmds[i::nproc] for i in range(nproc)]
    files = []
    for i, sh in enumerate(shards):
        if not sh:
            continue
        f = os.path.join(workdir, f"batch{i}.txt")
        open(f, "w").write("\n".join(sh) + "\n")
        files.append(f)
    def one(f):
        p = subprocess.run([driver, "batch", f], capture_output=True, text=True, timeout=6000)
        return p.stdout.splitlines() + [f"ERROR driver-exit {p.returncode} {p.stderr[-300:]}" for _ in [0] if p.returncode != 0]
    lines = []
    with concurrent.futures.ThreadPoolExecutor(max_workers=nproc) as ex:
        for r in ex.map(one, files):
            lines += r
    return lines


def parse_traces(path):
    """-> dict tag -> dict(pins_in=[(name,w)], pins_out=[...], cycles=[(ins, outs, events)]) ; or {'SKIP': reason}"""
    res, cur, ev = {}, None, []
    if not os.path.exists(path):
        return res
    for line in open(path):
        p = line.split()
        if not p:
            continue
        if p[0] == "SKIP":
            res["SKIP"] = " ".join(p[1:])
        elif p[0] == "trace":
            cur = dict(pins_in=[], pins_out=[], cycles=[])
            res[" ".join(p[1:])] = cur
        elif p[0] == "pins" and cur is not None:
            i = p.index("out")
            cur["pins_in"] = [tuple(x.rsplit(":", 1)) for x in p[2:i]]
            cur["pins_out"] = [tuple(x.rsplit(":", 1)) for x in p[i + 1:]]
        elif p[0] == "ev":
            ev = p[1:]
        elif p[0] == "cy" and cur is not None:
            i = p.index("out")
            cur["cycles"].append((p[3:i], p[i + 1:], ev))
    return res


def direct_diff(tr_pre, tr_post):
    """Independent oracle on REAL simulator traces of the same stimuli: returns the first
    violation of C01's observable condition, or None.
      * a bit defined in both runs differs, or
      * the pre run showed only defined pin values under only defined inputs in all cycles so
        far (a necessary condition for 'free of undefined values') and the post run differs."""
    if [n for n, _ in tr_pre["pins_out"]] != [n for n, _ in tr_post["pins_out"]]:
        return dict(kind="pin-set differs", pre=tr_pre["pins_out"], post=tr_post["pins_out"])
    for c, ((ia, oa, _), (ib, ob, _)) in enumerate(zip(tr_pre["cycles"], tr_post["cycles"])):
        for k, (a, b) in enumerate(zip(oa, ob)):
            if len(a) != len(b):
                return dict(kind="width differs", cycle=c, pin=tr_pre["pins_out"][k][0], pre=a, post=b)
            for x, y in zip(a, b):
                if x in "01" and y in "01" and x != y:
                    return dict(kind="defined bits differ", cycle=c, pin=tr_pre["pins_out"][k][0], pre=a, post=b)
    return None


def stim_of(tr):
    return ";".join(",".join(i) for i, _, _ in tr["cycles"])
