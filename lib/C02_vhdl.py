"""C02 - VHDL front end, part 1: lexer, parser and elaborator for exactly the VHDL subset that
gatery's exporter emits (export/vhdl/{Entity,BasicBlock,Block,Process,BaseGrouping}.cpp).

TRUSTED: this file is *our reading* of IEEE 1076-2008 syntax and elaboration (hierarchy
flattening, port association = net aliasing, scoping of BLOCK / PROCESS declarations).  There
is no VHDL simulator on this machine to validate it against.  Anything outside the subset
raises `Unsupported` (fail closed): the design is then counted as unsupported, never as passed.

Supported subset
  design units    LIBRARY / USE clauses (skipped), PACKAGE and PACKAGE BODY (skipped as text, but
                  the body of GateryHelperPackage.bool2stdlogic is compared with the expected text),
                  ENTITY name IS [PORT(...);] END name;  ARCHITECTURE a OF name IS decls BEGIN ... END a;
  declarations    SIGNAL / CONSTANT / VARIABLE  name : type [:= literal];  ATTRIBUTE ... (ignored);
                  COMPONENT ... END COMPONENT (ignored; instantiation binds to the entity of that name)
  types           STD_LOGIC, BOOLEAN, STD_LOGIC_VECTOR(h downto 0), UNSIGNED(h downto 0)
  concurrent      label : PROCESS(all | names) decls BEGIN seq END PROCESS;
                  label : BLOCK decls BEGIN concurrent END BLOCK;
                  label : [entity work.]name port map (formal => actual, ...);  with an optional type
                  conversion on either side; plain  a <= b;  (conditional 'Z' assignments = tristate -> Unsupported)
  sequential      sig <= expr;  var := expr;  IF / ELSIF / ELSE / END IF;  CASE e IS WHEN lit => ... WHEN OTHERS => ... END CASE;
                  ASSERT ... ; (parsed, ignored)   NULL;
  expressions     and or xor nand nor xnor not, = /= < <= > >=, + - * &, names, name(i), name(h downto l),
                  calls / conversions f(args), character / bit-string / integer / boolean literals,
                  aggregates (others => 'c') and (0 => e), s'event, qualified expressions UNSIGNED'(e),
                  memory(to_integer(a)) on the array signal of a GenericMemoryEntity (interpreter only)
"""
import re


class Unsupported(Exception):
    pass


class LiftError(Exception):
    """the VHDL text is inside the subset but violates an invariant the exporter must keep
    (e.g. a variable is read before it is assigned): a candidate violation, not 'unsupported'"""
    pass


# ----------------------------------------------------------------------------------------------
# lexer
# ----------------------------------------------------------------------------------------------
_TOK = re.compile(r"""
    (?P<ws>\s+|--[^\n]*)
  | (?P<str>"(?:[^"]|"")*")
  | (?P<chr>'[^']')
  | (?P<id>[A-Za-z][A-Za-z0-9_]*)
  | (?P<num>[0-9][0-9_]*(?:\.[0-9]+)?)
  | (?P<sym><=|:=|=>|/=|>=|\*\*|<>|[()\[\];:,&+\-*/=<>.'|])
""", re.X)


def lex(text):
    toks = []
    pos, n = 0, len(text)
    while pos < n:
        m = _TOK.match(text, pos)
        if not m:
            raise Unsupported(f"lexer: unexpected character {text[pos]!r} at {pos}")
        kind = m.lastgroup
        s = m.group(kind)
        if kind == "chr":
            # `'` is also the attribute tick (clk'event): a character literal never follows an identifier or ')'
            if toks and (toks[-1][0] == "id" or toks[-1][1] == ")") and not (toks[-1][0] == "id" and toks[-1][1].lower() in KEYWORDS):
                kind, s = "sym", "'"
                toks.append((kind, s))
                pos += 1
                continue
        pos = m.end()
        if kind == "ws":
            continue
        toks.append((kind, s))
    toks.append(("eof", ""))
    return toks


KEYWORDS = {"then", "is", "when", "else", "elsif", "and", "or", "xor", "nand", "nor", "xnor", "not", "if", "case",
            "return", "downto", "to", "others", "begin", "end", "process", "block", "signal", "variable", "constant",
            "port", "map", "entity", "architecture", "of", "in", "out", "inout", "assert", "severity", "null",
            "component", "attribute", "library", "use", "package", "body", "function", "generic", "report", "loop",
            "for", "while", "wait", "mod", "rem", "abs", "sll", "srl", "sla", "sra", "rol", "ror", "open", "all", "work",
            "type", "subtype", "array"}

FUNCS = {"unsigned", "std_logic_vector", "resize", "shift_left", "shift_right", "rotate_left", "rotate_right",
         "to_integer", "bool2stdlogic", "stdlogic2bool", "rising_edge", "falling_edge", "to_unsigned", "signed",
         "std_ulogic_vector", "to_x01", "to_01"}


# ----------------------------------------------------------------------------------------------
# parser
# ----------------------------------------------------------------------------------------------
class Parser:
    def __init__(self, text):
        self.t = lex(text)
        self.i = 0

    # -- token helpers
    def peek(self, k=0):
        return self.t[min(self.i + k, len(self.t) - 1)]

    def kw(self, k=0):
        kind, s = self.peek(k)
        return s.lower() if kind == "id" else None

    def is_sym(self, s, k=0):
        return self.peek(k) == ("sym", s)

    def next(self):
        tok = self.t[self.i]
        self.i += 1
        return tok

    def expect_sym(self, s):
        tok = self.next()
        if tok != ("sym", s):
            raise Unsupported(f"parser: expected {s!r}, got {tok[1]!r} (token {self.i})")

    def expect_kw(self, *ws):
        tok = self.next()
        if tok[0] != "id" or tok[1].lower() not in ws:
            raise Unsupported(f"parser: expected {'/'.join(ws)}, got {tok[1]!r} (token {self.i})")
        return tok[1].lower()

    def ident(self):
        tok = self.next()
        if tok[0] != "id" or tok[1].lower() in KEYWORDS:
            raise Unsupported(f"parser: expected identifier, got {tok[1]!r} (token {self.i})")
        return tok[1]

    def skip_to_semicolon(self):
        while self.peek()[0] != "eof" and not self.is_sym(";"):
            self.next()
        self.expect_sym(";")

    # -- design file
    def design_file(self):
        entities, archs, packages = {}, {}, {}
        while self.peek()[0] != "eof":
            k = self.kw()
            if k in ("library", "use"):
                self.skip_to_semicolon()
            elif k == "package":
                name, body_text = self.package()
                packages[name] = body_text
            elif k == "entity":
                e = self.entity()
                if e["name"].lower() in entities:
                    raise Unsupported("duplicate entity " + e["name"])
                entities[e["name"].lower()] = e
            elif k == "architecture":
                a = self.architecture()
                if a["of"].lower() in archs:
                    raise Unsupported("several architectures for " + a["of"])
                archs[a["of"].lower()] = a
            else:
                raise Unsupported(f"design unit starting with {self.peek()[1]!r}")
        return dict(entities=entities, archs=archs, packages=packages)

    def package(self):
        """skipped as a token stream; returns (name, normalised token text)"""
        start = self.i
        self.expect_kw("package")
        is_body = self.kw() == "body"
        if is_body:
            self.next()
        name = self.ident()
        # scan to  END PACKAGE [BODY] name ;
        while self.peek()[0] != "eof":
            if self.kw() == "end" and self.kw(1) == "package":
                self.skip_to_semicolon()
                break
            self.next()
        text = " ".join(s.lower() for _, s in self.t[start:self.i])
        return (name.lower() + (".body" if is_body else "")), text

    def entity(self):
        self.types, self.ints = {}, {}
        self.expect_kw("entity")
        name = self.ident()
        self.expect_kw("is")
        ports = []
        if self.kw() == "generic":
            raise Unsupported("generic clause")
        if self.kw() == "port":
            self.next()
            self.expect_sym("(")
            while True:
                pname = self.ident()
                self.expect_sym(":")
                d = self.expect_kw("in", "out", "inout")
                ty = self.type_()
                ports.append((pname, d, ty))
                if self.is_sym(";"):
                    self.next()
                    continue
                break
            self.expect_sym(")")
            self.expect_sym(";")
        self.expect_kw("end")
        if self.kw() == "entity":
            self.next()
        if not self.is_sym(";"):
            self.ident()
        self.expect_sym(";")
        return dict(name=name, ports=ports)

    def type_(self):
        name = self.ident().lower()
        if name in getattr(self, "types", {}):
            return self.types[name]
        if name == "integer":
            return ("int",)
        if name in ("std_logic", "std_ulogic"):
            return ("sl",)
        if name == "boolean":
            return ("bool",)
        if name in ("std_logic_vector", "unsigned"):
            self.expect_sym("(")
            hi = self.int_expr()
            self.expect_kw("downto")
            lo = self.int_expr()
            self.expect_sym(")")
            if lo != 0:
                raise Unsupported("vector range not ending at 0")
            return ("slv" if name == "std_logic_vector" else "uns", hi, lo)
        raise Unsupported("type " + name)

    def int_expr(self):
        """static integer expression: [-] term { (+|-) term },  term = literal | integer constant"""
        def term():
            tok = self.next()
            if tok[0] == "num":
                return int(tok[1].replace("_", ""))
            if tok[0] == "id" and tok[1].lower() in getattr(self, "ints", {}):
                return self.ints[tok[1].lower()]
            raise Unsupported("integer literal expected, got " + tok[1])
        neg = False
        if self.is_sym("-"):
            self.next()
            neg = True
        v = term()
        v = -v if neg else v
        while self.is_sym("+") or self.is_sym("-"):
            op = self.next()[1]
            t = term()
            v = v + t if op == "+" else v - t
        return v

    def decls(self, allow):
        """declarative part up to BEGIN"""
        out = []
        while self.kw() != "begin":
            k = self.kw()
            if k in ("signal", "constant", "variable"):
                if k not in allow:
                    raise Unsupported(f"{k} declaration not allowed here")
                self.next()
                name = self.ident()
                self.expect_sym(":")
                ty = self.type_()
                init = None
                if ty[0] == "int":
                    if k != "constant":
                        raise Unsupported("integer signal/variable")
                    self.expect_sym(":=")
                    self.ints[name.lower()] = self.int_expr()
                    self.expect_sym(";")
                    continue
                if self.is_sym(":="):
                    self.next()
                    init = self.array_init(ty) if ty[0] == "array" else self.expr()
                self.expect_sym(";")
                out.append((k, name, ty, init))
            elif k == "subtype":
                self.next()
                name = self.ident()
                self.expect_kw("is")
                self.types[name.lower()] = self.type_()
                self.expect_sym(";")
            elif k == "type":
                self.next()
                name = self.ident()
                self.expect_kw("is")
                tok = self.next()
                if tok[0] != "id" or tok[1].lower() != "array":
                    raise Unsupported("type declaration that is not an array")
                self.expect_sym("(")
                hi = self.int_expr()
                self.expect_kw("downto")
                lo = self.int_expr()
                self.expect_sym(")")
                self.expect_kw("of")
                el = self.type_()
                if lo != 0 or el[0] != "uns":
                    raise Unsupported("array type that is not (N-1 downto 0) of UNSIGNED")
                self.types[name.lower()] = ("array", hi + 1, el)
                self.expect_sym(";")
            elif k == "attribute":
                self.skip_to_semicolon()
            elif k == "component":
                while not (self.kw() == "end" and self.kw(1) == "component"):
                    if self.peek()[0] == "eof":
                        raise Unsupported("unterminated component")
                    self.next()
                self.skip_to_semicolon()
            else:
                raise Unsupported(f"declaration starting with {self.peek()[1]!r}")
        return out

    def array_init(self, ty):
        """( i => "bits", ..., others => (others => 'c') )  ->  ('arrayinit', {i: bits}, default char)"""
        self.expect_sym("(")
        words, default = {}, None
        while True:
            if self.kw() == "others":
                self.next()
                self.expect_sym("=>")
                e = strip_paren(self.expr())
                if e[0] != "agg" or e[1][0][0] != "others" or strip_paren(e[1][0][1])[0] != "chr":
                    raise Unsupported("array initialiser default")
                default = strip_paren(e[1][0][1])[1].upper()
            else:
                i = self.int_expr()
                self.expect_sym("=>")
                e = strip_paren(self.expr())
                if e[0] != "str" or len(e[1]) != type_width(ty[2]):
                    raise Unsupported("array initialiser element")
                words[i] = e[1].upper()
            if self.is_sym(","):
                self.next()
                continue
            break
        self.expect_sym(")")
        return ("arrayinit", words, default)

    def architecture(self):
        self.types, self.ints = {}, {}
        self.expect_kw("architecture")
        aname = self.ident()
        self.expect_kw("of")
        of = self.ident()
        self.expect_kw("is")
        d = self.decls(("signal", "constant"))
        self.expect_kw("begin")
        stmts = self.concurrent_stmts()
        self.expect_kw("end")
        if self.kw() == "architecture":
            self.next()
        if not self.is_sym(";"):
            self.ident()
        self.expect_sym(";")
        return dict(name=aname, of=of, decls=d, stmts=stmts)

    def concurrent_stmts(self):
        out = []
        while self.kw() != "end":
            if self.peek()[0] == "eof":
                raise Unsupported("unterminated statement part")
            out.append(self.concurrent())
        return out

    def concurrent(self):
        # label : ...
        if self.peek()[0] == "id" and self.is_sym(":", 1):
            label = self.ident()
            self.expect_sym(":")
            k = self.kw()
            if k == "process":
                return self.process(label)
            if k == "block":
                self.next()
                d = self.decls(("signal", "constant"))
                self.expect_kw("begin")
                st = self.concurrent_stmts()
                self.expect_kw("end")
                self.expect_kw("block")
                if not self.is_sym(";"):
                    self.ident()
                self.expect_sym(";")
                return ("block", label, d, st)
            # instantiation
            if k == "entity":
                self.next()
                lib = self.expect_kw("work")
                self.expect_sym(".")
            ename = self.ident()
            if self.is_sym("("):
                raise Unsupported("architecture name in instantiation")
            if self.kw() == "generic":
                raise Unsupported("generic map (external node)")
            self.expect_kw("port")
            self.expect_kw("map")
            self.expect_sym("(")
            assoc = []
            while True:
                formal = self.expr()
                self.expect_sym("=>")
                if self.kw() == "open":
                    raise Unsupported("open port association")
                actual = self.expr()
                assoc.append((formal, actual))
                if self.is_sym(","):
                    self.next()
                    continue
                break
            self.expect_sym(")")
            self.expect_sym(";")
            return ("inst", label, ename, assoc)
        if self.kw() == "process":
            self.anon = getattr(self, "anon", 0) + 1
            return self.process("anonymous_process_%d" % self.anon)
        # unlabeled concurrent signal assignment
        tgt = self.ident()
        self.expect_sym("<=")
        e = self.expr()
        if self.kw() == "when":
            raise Unsupported("conditional concurrent assignment (tristate driver)")
        self.expect_sym(";")
        return ("cassign", tgt, e)

    def process(self, label):
        self.expect_kw("process")
        sens = None
        if self.is_sym("("):
            self.next()
            if self.kw() == "all":
                self.next()
                sens = "all"
            else:
                sens = [self.ident()]
                while self.is_sym(","):
                    self.next()
                    sens.append(self.ident())
            self.expect_sym(")")
        else:
            raise Unsupported("process without sensitivity list")
        if self.kw() == "is":
            self.next()
        d = self.decls(("variable", "constant"))
        self.expect_kw("begin")
        body = self.seq_stmts(("end",))
        self.expect_kw("end")
        self.expect_kw("process")
        if not self.is_sym(";"):
            self.ident()
        self.expect_sym(";")
        return ("process", label, sens, d, body)

    def seq_stmts(self, stop):
        out = []
        while self.kw() not in stop:
            if self.peek()[0] == "eof":
                raise Unsupported("unterminated sequential statements")
            out.append(self.seq())
        return out

    def seq(self):
        k = self.kw()
        if k == "if":
            self.next()
            arms = []
            c = self.expr()
            self.expect_kw("then")
            arms.append((c, self.seq_stmts(("elsif", "else", "end"))))
            els = None
            while True:
                k = self.expect_kw("elsif", "else", "end")
                if k == "elsif":
                    c = self.expr()
                    self.expect_kw("then")
                    arms.append((c, self.seq_stmts(("elsif", "else", "end"))))
                elif k == "else":
                    els = self.seq_stmts(("end",))
                else:
                    self.expect_kw("if")
                    self.expect_sym(";")
                    break
            return ("if", arms, els)
        if k == "case":
            self.next()
            sel = self.expr()
            self.expect_kw("is")
            arms = []
            while self.kw() == "when":
                self.next()
                if self.kw() == "others":
                    self.next()
                    choice = "others"
                else:
                    choice = self.expr()
                    if self.is_sym("|"):
                        raise Unsupported("multiple choices in CASE")
                self.expect_sym("=>")
                arms.append((choice, self.seq_stmts(("when", "end"))))
            self.expect_kw("end")
            self.expect_kw("case")
            self.expect_sym(";")
            return ("case", sel, arms)
        if k == "assert":
            self.next()
            c = self.expr()
            if self.kw() == "report":
                self.next()
                self.expr()
            if self.kw() == "severity":
                self.next()
                self.ident()
            self.expect_sym(";")
            return ("assert", c)
        if k == "null":
            self.next()
            self.expect_sym(";")
            return ("null",)
        if k in KEYWORDS:
            raise Unsupported(f"sequential statement {k}")
        tgt = self.ident()
        if self.is_sym("("):
            # element of an array signal (memory write port):  memory(to_integer(addr)) <= data;
            self.next()
            idx = self.expr()
            if self.kw() in ("downto", "to"):
                raise Unsupported("assignment to a slice")
            self.expect_sym(")")
            self.expect_sym("<=")
            e = self.expr()
            self.expect_sym(";")
            return ("sassign_idx", tgt, idx, e)
        tok = self.next()
        if tok == ("sym", "<="):
            kind = "sassign"
        elif tok == ("sym", ":="):
            kind = "vassign"
        else:
            raise Unsupported(f"statement: unexpected {tok[1]!r} after {tgt}")
        e = self.expr()
        self.expect_sym(";")
        return (kind, tgt, e)

    # -- expressions (IEEE 1076 precedence: logical < relational < shift < adding < sign < multiplying < misc)
    def expr(self):
        a = self.relation()
        k = self.kw()
        if k in ("and", "or", "xor", "nand", "nor", "xnor"):
            first, count = k, 0
            while self.kw() in ("and", "or", "xor", "nand", "nor", "xnor"):
                k = self.next()[1].lower()
                count += 1
                if k != first:
                    raise Unsupported("mixed logical operators without parentheses")
                if k in ("nand", "nor") and count > 1:
                    raise Unsupported("chained nand/nor")
                a = ("binop", k, a, self.relation())
        return a

    def relation(self):
        a = self.shift_expr()
        if self.peek()[0] == "sym" and self.peek()[1] in ("=", "/=", "<", "<=", ">", ">="):
            op = self.next()[1]
            b = self.shift_expr()
            a = ("binop", op, a, b)
        return a

    def shift_expr(self):
        a = self.simple()
        if self.kw() in ("sll", "srl", "sla", "sra", "rol", "ror"):
            raise Unsupported("shift operator " + self.kw())
        return a

    def simple(self):
        if self.peek()[0] == "sym" and self.peek()[1] in ("+", "-"):
            raise Unsupported("unary sign")
        a = self.term()
        while self.peek()[0] == "sym" and self.peek()[1] in ("+", "-", "&"):
            op = self.next()[1]
            b = self.term()
            a = ("binop", op, a, b)
        return a

    def term(self):
        a = self.factor()
        while (self.peek()[0] == "sym" and self.peek()[1] in ("*", "/")) or self.kw() in ("mod", "rem"):
            op = self.next()[1].lower()
            if op != "*":
                raise Unsupported("operator " + op)
            b = self.factor()
            a = ("binop", op, a, b)
        return a

    def factor(self):
        if self.kw() == "not":
            self.next()
            return ("unop", "not", self.primary())
        if self.kw() == "abs" or self.is_sym("**"):
            raise Unsupported("abs / **")
        a = self.primary()
        if self.is_sym("**"):
            raise Unsupported("**")
        return a

    def primary(self):
        kind, s = self.peek()
        if kind == "str":
            self.next()
            a = ("str", s[1:-1])
        elif kind == "chr":
            self.next()
            a = ("chr", s[1])
        elif kind == "num":
            self.next()
            if "." in s:
                raise Unsupported("real literal")
            a = ("int", int(s.replace("_", "")))
        elif kind == "id":
            low = s.lower()
            if low in ("true", "false"):
                self.next()
                a = ("bool", low == "true")
            elif low in KEYWORDS:
                raise Unsupported(f"expression: unexpected keyword {s}")
            else:
                self.next()
                a = ("name", s)
        elif (kind, s) == ("sym", "("):
            self.next()
            # aggregate or parenthesised expression
            if self.kw() == "others":
                self.next()
                self.expect_sym("=>")
                v = self.expr()
                self.expect_sym(")")
                a = ("agg", [("others", v)])
            else:
                e = self.expr()
                if self.is_sym("=>"):
                    self.next()
                    if e[0] != "int":
                        raise Unsupported("aggregate with a non-literal choice")
                    v = self.expr()
                    if self.is_sym(","):
                        raise Unsupported("aggregate with several associations")
                    self.expect_sym(")")
                    a = ("agg", [(e[1], v)])
                else:
                    if self.is_sym(","):
                        raise Unsupported("positional aggregate")
                    self.expect_sym(")")
                    a = ("paren", e)
        else:
            raise Unsupported(f"expression: unexpected {s!r}")
        # postfix: call / index / slice / attribute
        while True:
            if self.is_sym("("):
                self.next()
                first = self.expr()
                if self.kw() == "downto":
                    self.next()
                    lo = self.expr()
                    self.expect_sym(")")
                    if first[0] != "int" or lo[0] != "int":
                        raise Unsupported("slice with non-literal bounds")
                    a = ("slice", a, first[1], lo[1])
                elif self.kw() == "to":
                    raise Unsupported("ascending slice")
                else:
                    args = [first]
                    while self.is_sym(","):
                        self.next()
                        args.append(self.expr())
                    self.expect_sym(")")
                    if a[0] == "name" and a[1].lower() in FUNCS:
                        a = ("call", a[1].lower(), args)
                    elif len(args) == 1 and args[0][0] == "int":
                        a = ("index", a, args[0][1])
                    elif a[0] == "name" and len(args) == 1:
                        a = ("dynindex", a, args[0])      # element of an array signal; resolved at elaboration
                    else:
                        raise Unsupported("call of unknown function")
            elif self.is_sym("'") and self.is_sym("(", 1):
                # qualified expression  UNSIGNED'(expr)
                if a[0] != "name" or a[1].lower() not in ("unsigned", "std_logic_vector"):
                    raise Unsupported("qualified expression of an unsupported type")
                self.next(); self.next()
                inner = self.expr()
                self.expect_sym(")")
                a = ("qual", "uns" if a[1].lower() == "unsigned" else "slv", inner)
            elif self.is_sym("'"):
                self.next()
                attr = self.ident().lower()
                if attr != "event":
                    raise Unsupported("attribute '" + attr)
                a = ("attr", a, attr)
            else:
                break
        return a


def strip_paren(e):
    while e[0] == "paren":
        e = e[1]
    return e


EXPECTED_BOOL2STDLOGIC = ("function bool2stdlogic ( v : boolean ) return std_logic is begin if v then return '1' ; "
                          "else return '0' ; end if ; end bool2stdlogic ;")


def parse_files(texts):
    """texts: list of VHDL source strings -> merged design dict"""
    design = dict(entities={}, archs={}, packages={})
    for t in texts:
        d = Parser(t).design_file()
        for k in design:
            for n, v in d[k].items():
                if n in design[k] and k != "packages":
                    raise Unsupported(f"duplicate {k[:-1]} {n}")
                design[k][n] = v
    body = design["packages"].get("gateryhelperpackage.body")
    if body is not None and EXPECTED_BOOL2STDLOGIC not in body:
        raise Unsupported("GateryHelperPackage.bool2stdlogic is not the expected function")
    design["has_helper"] = body is not None
    return design


# ----------------------------------------------------------------------------------------------
# elaboration: flatten the hierarchy into nets and processes
# ----------------------------------------------------------------------------------------------
def type_width(ty):
    if ty[0] == "array":
        return ty[1]            # number of words (the value of an array net is a tuple of word strings)
    return 1 if ty[0] in ("sl", "bool") else ty[1] - ty[2] + 1


class Net:
    __slots__ = ("id", "name", "ty", "init", "kind", "drivers", "port")

    def __init__(self, nid, name, ty, init=None, kind="signal"):
        self.id, self.name, self.ty, self.init, self.kind = nid, name, ty, init, kind
        self.drivers = []   # process indices
        self.port = None    # (name, dir) for ports of the top entity

    @property
    def width(self):
        return type_width(self.ty)


class Proc:
    __slots__ = ("idx", "label", "sens", "vars", "consts", "body", "scope", "reads", "writes")


class Scope:
    def __init__(self, parent=None):
        self.parent, self.names = parent, {}

    def lookup(self, name):
        s = self
        low = name.lower()
        while s is not None:
            if low in s.names:
                return s.names[low]
            s = s.parent
        return None

    def declare(self, name, obj):
        if name.lower() in self.names:
            raise Unsupported("duplicate declaration of " + name)
        self.names[name.lower()] = obj


def literal_bits(e, ty):
    """static value of an initialiser: MSB-first string over 0 1 X U Z W L H -  (std_logic: 1 char)"""
    if e[0] == "arrayinit":
        ww = type_width(ty[2])
        dflt = (e[2] if e[2] is not None else "U") * ww
        if any(not (0 <= i < ty[1]) for i in e[1]):
            raise Unsupported("array initialiser index out of range")
        return tuple(e[1].get(i, dflt) for i in range(ty[1]))
    e = strip_paren(e)
    w = type_width(ty)
    if e[0] == "str":
        if ty[0] not in ("slv", "uns") or len(e[1]) != w:
            raise Unsupported("initialiser length/type mismatch")
        return e[1].upper()
    if e[0] == "chr":
        if ty[0] != "sl":
            raise Unsupported("character initialiser for a non-std_logic object")
        return e[1].upper()
    if e[0] == "agg" and e[1][0][0] == "others" and strip_paren(e[1][0][1])[0] == "chr":
        return strip_paren(e[1][0][1])[1].upper() * w
    if e[0] == "bool" and ty[0] == "bool":
        return "1" if e[1] else "0"
    raise Unsupported("initialiser is not a literal")


def names_read(e, acc):
    k = e[0]
    if k == "name":
        acc.add(e[1].lower())
    elif k in ("paren",):
        names_read(e[1], acc)
    elif k == "unop":
        names_read(e[2], acc)
    elif k == "binop":
        names_read(e[2], acc); names_read(e[3], acc)
    elif k in ("slice", "index", "attr"):
        names_read(e[1], acc)
    elif k == "dynindex":
        names_read(e[1], acc); names_read(e[2], acc)
    elif k == "qual":
        names_read(e[2], acc)
    elif k == "call":
        for a in e[2]:
            names_read(a, acc)
    elif k == "agg":
        for _, v in e[1]:
            names_read(v, acc)


def stmt_names(stmts, reads, writes):
    for s in stmts:
        if s[0] in ("sassign", "vassign"):
            writes.add(s[1].lower())
            names_read(s[2], reads)
        elif s[0] == "sassign_idx":
            writes.add(s[1].lower())
            names_read(s[2], reads); names_read(s[3], reads)
        elif s[0] == "if":
            for c, b in s[1]:
                names_read(c, reads)
                stmt_names(b, reads, writes)
            if s[2] is not None:
                stmt_names(s[2], reads, writes)
        elif s[0] == "case":
            names_read(s[1], reads)
            for ch, b in s[2]:
                stmt_names(b, reads, writes)
        elif s[0] == "assert":
            names_read(s[1], reads)


class Elab:
    """flattened design: nets (signals, constants, top-level ports) and processes with their scopes"""

    def __init__(self, design, top="top"):
        self.design = design
        self.nets = []
        self.procs = []
        self.top_ports = []   # (name, dir, net)
        self.n_entities = 0
        self.n_instances = 0
        self.n_blocks = 0
        top = top.lower()
        if top not in design["entities"]:
            # the root entity is the one nobody instantiates
            inst = set()

            def walk(stmts):
                for s in stmts:
                    if s[0] == "inst":
                        inst.add(s[2].lower())
                    elif s[0] == "block":
                        walk(s[3])
            for a in design["archs"].values():
                walk(a["stmts"])
            roots = [n for n in design["entities"] if n not in inst]
            if len(roots) != 1:
                raise Unsupported("cannot determine the root entity")
            top = roots[0]
        self.top = top
        ent = design["entities"][top]
        sc = Scope()
        for pname, d, ty in ent["ports"]:
            if d == "inout":
                raise Unsupported("inout port (tristate / bidirectional pin)")
            n = self.new_net(pname, ty)
            n.port = (pname, d)
            n.kind = "in" if d == "in" else "signal"
            sc.declare(pname, n)
            self.top_ports.append((pname, d, n))
        self.instantiate(top, sc, top, [top])

    def new_net(self, name, ty, init=None, kind="signal"):
        n = Net(len(self.nets), name, ty, init, kind)
        self.nets.append(n)
        return n

    def declare(self, decls, scope, path, allow_signal=True):
        for k, name, ty, init in decls:
            if k == "signal":
                n = self.new_net(path + "." + name, ty, literal_bits(init, ty) if init is not None else None)
                scope.declare(name, n)
            elif k == "constant":
                if init is None:
                    raise Unsupported("constant without value")
                n = self.new_net(path + "." + name, ty, literal_bits(init, ty), kind="const")
                scope.declare(name, n)

    def instantiate(self, ename, port_scope, path, stack):
        """port_scope: Scope whose names are the entity's ports bound to nets"""
        self.n_instances += 1
        arch = self.design["archs"].get(ename)
        if arch is None:
            raise Unsupported("no architecture for entity " + ename + " (memory / external entity?)")
        sc = Scope(port_scope)
        self.declare(arch["decls"], sc, path)
        self.statements(arch["stmts"], sc, path, stack)

    def statements(self, stmts, sc, path, stack):
        for s in stmts:
            if s[0] == "process":
                self.add_process(s, sc, path)
            elif s[0] == "block":
                self.n_blocks += 1
                bs = Scope(sc)
                self.declare(s[2], bs, path + "." + s[1])
                self.statements(s[3], bs, path + "." + s[1], stack)
            elif s[0] == "cassign":
                p = ("process", "cassign_" + s[1], "all", [], [("sassign", s[1], s[2])])
                self.add_process(p, sc, path)
            elif s[0] == "inst":
                self.instance(s, sc, path, stack)
            else:
                raise Unsupported("concurrent statement " + s[0])

    def instance(self, s, sc, path, stack):
        _, label, ename, assoc = s
        ename = ename.lower()
        ent = self.design["entities"].get(ename)
        if ent is None:
            raise Unsupported("instantiation of unknown entity " + ename + " (memory / external entity?)")
        if ename in stack:
            raise Unsupported("recursive instantiation")
        ports = {p[0].lower(): p for p in ent["ports"]}
        ps = Scope()
        bound = set()
        for formal, actual in assoc:
            f, a = strip_paren(formal), strip_paren(actual)
            fconv = aconv = None
            if f[0] == "call" and f[1] in ("unsigned", "std_logic_vector") and len(f[2]) == 1:
                fconv, f = f[1], strip_paren(f[2][0])
            if a[0] == "call" and a[1] in ("unsigned", "std_logic_vector") and len(a[2]) == 1:
                aconv, a = a[1], strip_paren(a[2][0])
            if f[0] != "name" or a[0] != "name":
                raise Unsupported("port association that is not name => name (with optional type conversion)")
            p = ports.get(f[1].lower())
            if p is None:
                raise Unsupported(f"port map: {ename} has no port {f[1]}")
            if p[1] == "inout":
                raise Unsupported("inout port (tristate / bidirectional)")
            if (p[1] == "in" and fconv) or (p[1] == "out" and aconv):
                raise Unsupported("type conversion on the wrong side of a port association")
            net = sc.lookup(a[1])
            if net is None:
                raise Unsupported("port map: unknown actual " + a[1])
            if type_width(p[2]) != net.width:
                raise LiftError(f"port map {path}.{label}: width of {f[1]} ({type_width(p[2])}) differs from actual {a[1]} ({net.width})")
            # representation of STD_LOGIC_VECTOR and UNSIGNED is identical; the kinds must be consistent with the conversion used
            fk, ak = p[2][0], net.ty[0]
            conv = fconv or aconv
            if conv is None and fk != ak:
                raise LiftError(f"port map {path}.{label}: {f[1]} is {fk} but actual {a[1]} is {ak} and there is no conversion")
            if f[1].lower() in bound:
                raise Unsupported("port associated twice")
            bound.add(f[1].lower())
            # port = alias of the actual's net, seen with the formal's type inside the entity
            ps.declare(f[1], AliasNet(net, p[2], p[1]))
        for pn, p in ports.items():
            if pn not in bound:
                raise Unsupported(f"port {pn} of {ename} left unconnected")
        self.instantiate(ename, ps, path + "." + label, stack + [ename])

    def add_process(self, s, sc, path):
        _, label, sens, decls, body = s
        p = Proc()
        p.idx = len(self.procs)
        p.label = path + "." + label
        p.scope = Scope(sc)
        p.vars = []
        for k, name, ty, init in decls:
            if k == "variable":
                v = Var(path + "." + label + "." + name, ty, literal_bits(init, ty) if init is not None else None)
                p.scope.declare(name, v)
                p.vars.append(v)
            elif k == "constant":
                n = self.new_net(path + "." + label + "." + name, ty, literal_bits(init, ty), kind="const")
                p.scope.declare(name, n)
        p.body = body
        reads, writes = set(), set()
        stmt_names(body, reads, writes)
        p.reads, p.writes = set(), set()
        for r in reads:
            o = p.scope.lookup(r)
            if o is None:
                if r in FUNCS:
                    continue
                raise Unsupported(f"process {p.label}: unknown name {r}")
            if isinstance(o, (Net, AliasNet)):
                p.reads.add(base_net(o).id)
        for w in writes:
            o = p.scope.lookup(w)
            if o is None:
                raise Unsupported(f"process {p.label}: assignment to unknown name {w}")
            if isinstance(o, (Net, AliasNet)):
                n = base_net(o)
                if n.kind in ("const", "in") or (isinstance(o, AliasNet) and o.dir == "in"):
                    raise LiftError(f"process {p.label}: assignment to input/constant {w}")
                p.writes.add(n.id)
                n.drivers.append(p.idx)
        if sens == "all":
            p.sens = None
        else:
            p.sens = []
            for nme in sens:
                o = p.scope.lookup(nme)
                if not isinstance(o, (Net, AliasNet)):
                    raise Unsupported("sensitivity list entry " + nme)
                p.sens.append(base_net(o).id)
        self.procs.append(p)


class AliasNet:
    """a port of a sub-entity: the parent's net seen through the formal's type"""
    __slots__ = ("net", "ty", "dir")

    def __init__(self, net, ty, d):
        self.net, self.ty, self.dir = base_net(net), ty, d

    @property
    def width(self):
        return type_width(self.ty)


class Var:
    __slots__ = ("name", "ty", "init")

    def __init__(self, name, ty, init):
        self.name, self.ty, self.init = name, ty, init

    @property
    def width(self):
        return type_width(self.ty)


def base_net(o):
    return o.net if isinstance(o, AliasNet) else o


def load(paths, top="top"):
    texts = [open(p, errors="replace").read() for p in paths]
    return Elab(parse_files(texts), top)
