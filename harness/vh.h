// Common helpers for all harness binaries. First include must be <gatery/pch.h>.
#pragma once
#include <gatery/pch.h>
#include <gatery/frontend.h>
#include <gatery/simulation/BitVectorState.h>
#include <gatery/simulation/ReferenceSimulator.h>
#include <gatery/hlim/Circuit.h>
#include <gatery/hlim/coreNodes/Node_Logic.h>
#include <gatery/hlim/coreNodes/Node_Signal.h>
#include <gatery/hlim/coreNodes/Node_Constant.h>
#include <cstdint>
#include <cstdio>
#include <cstdlib>
#include <string>
#include <vector>
#include <iostream>
#include <sstream>
#include <fstream>

namespace vh {

// One PRNG for every random choice; seeded from VERIF_SEED (or argv) so runs replay exactly.
struct Rng {
	uint64_t s;
	explicit Rng(uint64_t seed) : s(seed * 0x9E3779B97F4A7C15ull + 0x1234567ull) {}
	uint64_t next() { uint64_t z = (s += 0x9E3779B97F4A7C15ull); z = (z ^ (z >> 30)) * 0xBF58476D1CE4E5B9ull; z = (z ^ (z >> 27)) * 0x94D049BB133111EBull; return z ^ (z >> 31); }
	uint64_t below(uint64_t n) { return n ? next() % n : 0; }
	bool coin() { return next() & 1; }
	template<class T> const T &pick(const std::vector<T> &v) { return v[below(v.size())]; }
};

inline uint64_t envSeed() { const char *e = getenv("VERIF_SEED"); return e ? strtoull(e, nullptr, 10) : 1; }

// MSB-first 0/1/X string of a range of a DefaultBitVectorState
inline std::string bits(const gtry::sim::DefaultBitVectorState &s, size_t off, size_t n) {
	std::string r(n, '0');
	for (size_t i = 0; i < n; i++) {
		bool d = s.get(gtry::sim::DefaultConfig::DEFINED, off + i);
		bool v = s.get(gtry::sim::DefaultConfig::VALUE, off + i);
		r[n - 1 - i] = d ? (v ? '1' : '0') : 'X';
	}
	return r;
}
inline std::string bits(const gtry::sim::DefaultBitVectorState &s) { return bits(s, 0, s.size()); }

// parse MSB-first 0/1/X string
inline gtry::sim::DefaultBitVectorState fromBits(const std::string &str) {
	gtry::sim::DefaultBitVectorState s; s.resize(str.size());
	for (size_t i = 0; i < str.size(); i++) {
		char c = str[str.size() - 1 - i];
		s.set(gtry::sim::DefaultConfig::DEFINED, i, c != 'X' && c != 'x');
		s.set(gtry::sim::DefaultConfig::VALUE, i, c == '1');
	}
	return s;
}

}
