// C15 harness: drives the REAL gtry::scl::Fifo (and, differentially, TransactionalFifo / FifoArray /
// strm::fifo) in the reference simulator and logs one canonical line per time instant that has a
// push- and/or pop-clock edge.
//
//   C15_fifo tie <seed> <quick|thorough|search> <out>   generated cases (every choice from <seed>)
//   C15_fifo rel <seed> <quick|thorough|search> <out>   clock-relation family (same pin / other trigger, multiplier, roots) x generate() scope
//   C15_fifo replay <out> <C-line tokens...>            one case from its parameter line
//   C15_fifo gray <out>                                 grayEncode / grayDecode, widths 1..10, all values
//   C15_fifo other <seed> <quick|thorough> <out>        TransactionalFifo, FifoArray, strm::fifo traces
//   C15_fifo strm <seed> <quick|thorough|search> <out>  strm::fifo for every FifoLatency option (0 = fall-through) x depth
//   C15_fifo sreplay <out> <S-line tokens...>           one strm::fifo case from its parameter line
//   C15_fifo lat <out>                                  table of the latencies / depth FifoCapabilities::select reports
//
// Line formats (see ocaml/C15_driver.ml, checks/C15.py):
//   C <id> k= L= dual= lvlF= lvlE= | generator parameters (minDepth lat fp fo trP trO pp seed ph plen w)
//   E <P|O|B> <pushReq> <data> <popReq> | <full> <af> <empty> <ae> <peek|X> <acc> <del>
//      outputs are the pre-edge values (WaitClock::DURING), i.e. what the registers clocked at this
//      instant see; acc = pushReq & !full, del = popReq & !empty (the interface contract).
//   G <w> <x> | <grayEncode(x)> <grayDecode_w(x)>
//   S <id> k= L= ft= | depth= minDepth= lat= pp= seed= script= n= w=      strm::fifo case; k, L = what the FifoMeta of the
//                                                                         instance built inside strm::fifo reports
//   s <valid_in> <data_in> <ready_out> | <ready_in> <valid_out> <data_out|X>
//   Q dev= dual= lat= minDepth= | depth= we= rf= wae= raf= single=        selected FifoCapabilities::Choice
#include "vh.h"
#include <gatery/scl/Fifo.h>
#include <gatery/scl/TransactionalFifo.h>
#include <gatery/scl/FifoArray.h>
#include <gatery/scl/stream/strm.h>
#include <gatery/scl/stream/streamFifo.h>
#include <gatery/scl/cdc.h>
#include <gatery/hlim/NodeGroup.h>
#include <gatery/hlim/supportNodes/Node_CDC.h>
#include <gatery/scl/arch/intel/IntelDevice.h>
#include <gatery/scl/arch/xilinx/XilinxDevice.h>
#include <gatery/scl/arch/xilinx/FifoPattern.h>
#include <map>
#include <deque>

using namespace gtry;
using gtry::scl::strm::valid; using gtry::scl::strm::ready;

namespace {

struct XFifo : scl::Fifo<UInt> {
	using scl::Fifo<UInt>::Fifo;
	const FifoCapabilities::Choice &choice() { return dynamic_cast<scl::FifoMeta*>(m_area.metaInfo())->fifoChoice; }
};

struct XTxFifo : scl::TransactionalFifo<UInt> {
	using scl::TransactionalFifo<UInt>::TransactionalFifo;
	const FifoCapabilities::Choice &choice() { return dynamic_cast<scl::FifoMeta*>(m_area.metaInfo())->fifoChoice; }
};

struct Params {
	std::string id = "c";
	size_t minDepth = 4;
	char latKind = 'D';      // S specific, D dontcare, L atLeast, M atMost
	size_t latVal = 0;
	bool dual = false;
	uint64_t fp = 1, fo = 1; // push / pop clock frequency (MHz)
	char trP = 'R', trO = 'R';
	bool pp = true;          // design.postprocess()
	size_t lvlF = 0, lvlE = 0;
	uint64_t seed = 1;
	std::vector<std::pair<int, int>> phases; // push / pop request probability in eighths
	size_t plen = 0;         // phase length in periods of the slower clock (0: derive from depth)
	size_t w = 8;
	// relation of the pop clock to the push clock: indep (two root clocks, fp/fo/trP/trO), fall / both (pop = push.deriveClock with
	// FALLING / RISING_AND_FALLING trigger: same pin), mul2 / div2 (derived with frequency multiplier: own pin), swapfall (push is the
	// falling-edge derivative of the pop clock)
	std::string rel = "indep";
	char genScope = 'P';     // clock scope active when generate() is called: P push, O pop, T a third clock
	bool mid = false;        // the pop request additionally changes in the middle of the pop clock's cycle (at the push clock's edge)
};

scl::FifoLatency mkLatency(const Params &p)
{
	switch (p.latKind) {
	case 'S': return scl::FifoLatency(p.latVal);
	case 'L': return scl::FifoLatency::AtLeast(p.latVal);
	case 'M': return scl::FifoLatency::AtMost(p.latVal);
	default: return scl::FifoLatency::DontCare();
	}
}

std::string phaseStr(const Params &p)
{
	std::string s;
	for (auto &ph : p.phases) { if (!s.empty()) s += ","; s += std::to_string(ph.first) + ":" + std::to_string(ph.second); }
	return s.empty() ? "-" : s;
}

template<class S> std::string bitStr(const S &v) { return v.allDefined() ? ((bool)v ? "1" : "0") : "X"; }
template<class S> std::string numStr(const S &v) { return v.allDefined() ? std::to_string((uint64_t)v.value()) : "X"; }

struct Entry {
	hlim::ClockRational t; char kind; bool pr; uint64_t data; bool po;
	std::string full, af, empty, ae, peek;
};

std::string outStr(const Entry &e, bool pushEdge, bool popEdge)
{
	std::string acc = (pushEdge && e.pr) ? (e.full == "0" ? "1" : (e.full == "1" ? "0" : "X")) : "0";
	std::string del = (popEdge && e.po) ? (e.empty == "0" ? "1" : (e.empty == "1" ? "0" : "X")) : "0";
	return e.full + " " + e.af + " " + e.empty + " " + e.ae + " " + e.peek + " " + acc + " " + del;
}

// runs one case against the real scl::Fifo and appends its lines to `out`
void runCase(const Params &p, std::ostream &out)
{
	DesignScope design;
	ClockConfig cfgP{ .absoluteFrequency = hlim::ClockRational(p.fp * 1'000'000, 1), .name = "wr" };
	if (p.trP == 'F') cfgP.triggerEvent = ClockConfig::TriggerEvent::FALLING;
	Clock wr(cfgP);
	std::optional<Clock> rdo;
	if (p.dual) {
		ClockConfig cfgO{ .absoluteFrequency = hlim::ClockRational(p.fo * 1'000'000, 1), .name = "rd" };
		if (p.trO == 'F') cfgO.triggerEvent = ClockConfig::TriggerEvent::FALLING;
		rdo.emplace(cfgO);
	}
	if (p.rel == "fall") rdo.emplace(wr.deriveClock({ .triggerEvent = ClockConfig::TriggerEvent::FALLING }));
	else if (p.rel == "both") rdo.emplace(wr.deriveClock({ .triggerEvent = ClockConfig::TriggerEvent::RISING_AND_FALLING }));
	else if (p.rel == "mul2") rdo.emplace(wr.deriveClock({ .frequencyMultiplier = hlim::ClockRational(2, 1), .name = "rd2" }));
	else if (p.rel == "div2") rdo.emplace(wr.deriveClock({ .frequencyMultiplier = hlim::ClockRational(1, 2), .name = "rdh" }));
	Clock rd0 = p.dual ? *rdo : wr;
	// swapfall: the push port runs on the falling-edge derivative, the pop port on the root clock
	std::optional<Clock> sw;
	if (p.rel == "swapfall") sw.emplace(wr.deriveClock({ .triggerEvent = ClockConfig::TriggerEvent::FALLING }));
	Clock rd = p.rel == "swapfall" ? wr : rd0;
	if (p.rel == "swapfall") wr = *sw;
	Clock third({ .absoluteFrequency = hlim::ClockRational(77'000'000, 1), .name = "third" });
	BitWidth w{ p.w };

	XFifo fifo{ p.minDepth, UInt{ w }, mkLatency(p) };
	size_t depth = fifo.depth();
	Bit push, pop, full, empty, af, ae;
	UInt pushData = w, popData;
	{
		ClockScope cs(wr);
		IF(push) fifo.push(pushData);
		push = pinIn().setName("push_valid");
		pushData = pinIn(w).setName("push_data");
		full = fifo.full(); pinOut(full).setName("full");
		af = fifo.almostFull(p.lvlF); pinOut(af).setName("almost_full");
	}
	{
		ClockScope cs(rd);
		popData = fifo.peek();
		IF(pop) fifo.pop();
		pop = pinIn().setName("pop_ready");
		pinOut(popData).setName("pop_data");
		empty = fifo.empty(); pinOut(empty).setName("empty");
		ae = fifo.almostEmpty(p.lvlE); pinOut(ae).setName("almost_empty");
	}
	{
		// single clock: generate() builds its pointer delay registers in the ambient clock scope
		ClockScope cs(p.genScope == 'O' ? rd : p.genScope == 'T' ? third : wr);
		fifo.generate();
	}
	size_t nCdc = 0;
	for (auto &n : design.getCircuit().getNodes()) if (dynamic_cast<hlim::Node_CDC*>(n.get())) nCdc++;
	size_t L = fifo.choice().latency_writeToEmpty;
	size_t L2 = fifo.choice().latency_readToFull;
	bool single = fifo.choice().singleClock;
	size_t k = 0; while ((size_t(1) << k) < depth) k++;
	if (p.pp) design.postprocess();

	size_t plen = p.plen ? p.plen : 2 * depth + 2 * L + 6;
	hlim::ClockRational fslow = std::min(wr.absoluteFrequency(), rd.absoluteFrequency());
	hlim::ClockRational phaseDur = hlim::ClockRational(plen, 1) / fslow;
	hlim::ClockRational total = phaseDur * hlim::ClockRational(p.phases.size(), 1) + hlim::ClockRational(2 * L + 8, 1) / fslow;

	out << "C " << p.id << " k=" << k << " L=" << L << " dual=" << (single ? 0 : 1) << " lvlF=" << p.lvlF << " lvlE=" << p.lvlE
		<< " | depth=" << depth << " L2=" << L2 << " minDepth=" << p.minDepth << " lat=" << p.latKind << p.latVal << " reqDual=" << (p.dual ? 1 : 0)
		<< " fp=" << p.fp << " fo=" << (p.dual ? p.fo : p.fp) << " trP=" << p.trP << " trO=" << (p.dual ? p.trO : p.trP)
		<< " pp=" << (p.pp ? 1 : 0) << " seed=" << p.seed << " ph=" << phaseStr(p) << " plen=" << plen << " w=" << p.w
		<< " rel=" << p.rel << " gen=" << p.genScope << " mid=" << (p.mid ? 1 : 0) << " cdc=" << nCdc << "\n";

	sim::ReferenceSimulator s(false);
	std::vector<Entry> log;
	bool popDriven = false;   // value currently on the pop request pin
	bool pushStarted = false, popStarted = false;
	auto phaseOf = [&]() -> int {
		auto t = s.getCurrentSimulationTime();
		auto q = t / phaseDur;
		size_t idx = size_t(q.numerator() / q.denominator());
		return idx < p.phases.size() ? int(idx) : -1;
	};
	auto sample = [&](char kind, bool pr, uint64_t data, bool po) {
		Entry e{ s.getCurrentSimulationTime(), kind, pr, data, po,
			bitStr(simu(full)), bitStr(simu(af)), bitStr(simu(empty)), bitStr(simu(ae)), numStr(simu(popData)) };
		log.push_back(e);
	};
	uint64_t mask = p.w >= 64 ? ~0ull : ((1ull << p.w) - 1);
	s.addSimulationProcess([&]()->SimProcess {
		vh::Rng rng(p.seed * 2 + 1);
		bool req = false; uint64_t dat = 0;
		simu(push) = '0'; simu(pushData) = 0;
		while (true) {
			co_await OnClk(wr);
			sample('P', req, dat, false);
			pushStarted = true;
			int ph = phaseOf();
			// requests stay idle until both clock domains have left reset and ticked once
			if (ph >= 0 && pushStarted && popStarted) { req = int(rng.below(8)) < p.phases[ph].first; dat = rng.next() & mask; }
			else { req = false; dat = 0; }
			simu(push) = req ? '1' : '0'; simu(pushData) = dat;
			if (p.mid && ph >= 0 && pushStarted && popStarted) {
				// mid-cycle change of the pop request (legal: it is stable around the pop clock's own edge)
				popDriven = int(rng.below(8)) < p.phases[ph].second;
				simu(pop) = popDriven ? '1' : '0';
			}
		}
	});
	s.addSimulationProcess([&]()->SimProcess {
		vh::Rng rng(p.seed * 2 + 2);
		simu(pop) = '0';
		while (true) {
			co_await OnClk(rd);
			sample('O', false, 0, popDriven);
			popStarted = true;
			int ph = phaseOf();
			if (ph >= 0 && pushStarted && popStarted) popDriven = int(rng.below(8)) < p.phases[ph].second;
			else popDriven = false;
			simu(pop) = popDriven ? '1' : '0';
		}
	});
	s.compileProgram(design.getCircuit());
	s.powerOn();
	s.advance(total);

	std::stable_sort(log.begin(), log.end(), [](const Entry &a, const Entry &b) { return a.t < b.t; });
	for (size_t i = 0; i < log.size();) {
		Entry e = log[i];
		bool pe = e.kind == 'P', oe = e.kind == 'O';
		size_t j = i + 1;
		while (j < log.size() && log[j].t == e.t) {
			const Entry &f = log[j];
			if (f.kind == 'P') { pe = true; e.pr = f.pr; e.data = f.data; }
			if (f.kind == 'O') { oe = true; e.po = f.po; }
			// both processes run in the DURING phase of the same instant and must see the same pre-edge outputs
			if (f.full != e.full || f.af != e.af || f.empty != e.empty || f.ae != e.ae || f.peek != e.peek) e.peek += "!incoherent";
			j++;
		}
		out << "E " << (pe && oe ? 'B' : (pe ? 'P' : 'O')) << " " << (e.pr ? 1 : 0) << " " << e.data << " " << (e.po ? 1 : 0)
			<< " | " << outStr(e, pe, oe) << "\n";
		i = j;
	}
}

// ---------------------------------------------------------------- case generation
const std::vector<std::pair<uint64_t, uint64_t>> kRatiosQuick = { {1,1}, {2,1}, {1,2}, {3,2}, {2,3}, {7,3}, {3,7}, {5,4}, {100,133} };
const std::vector<std::pair<uint64_t, uint64_t>> kRatiosMore = { {4,5}, {9,8}, {8,9}, {1,5}, {5,1}, {11,13}, {13,11}, {1,9}, {9,1}, {133,100}, {17,16}, {16,17}, {31,7}, {7,31} };

std::vector<std::pair<int,int>> mkPhases(vh::Rng &rng, int archetype)
{
	static const int lv[] = { 0, 1, 4, 7, 8 };
	std::vector<std::pair<int,int>> ph;
	switch (archetype) {
	case 0: // fill to full, drain to empty, repeatedly (pointer wrap-around)
		for (int i = 0; i < 4; i++) { ph.push_back({ 8, 0 }); ph.push_back({ 0, 8 }); }
		break;
	case 1: // both sides always requesting, starting at the empty boundary; then full boundary
		ph = { {8,8}, {8,8}, {8,0}, {8,8}, {8,8}, {0,8}, {8,7}, {7,8} };
		break;
	case 2: // hug full: fill, then push always / pop rarely ; hug empty: pop always / push rarely
		ph = { {8,0}, {8,1}, {8,4}, {8,8}, {0,8}, {1,8}, {4,8}, {8,8} };
		break;
	default:
		for (int i = 0; i < 8; i++) ph.push_back({ lv[rng.below(5)], lv[rng.below(5)] });
	}
	return ph;
}

std::vector<Params> genCases(uint64_t seed, const std::string &tier)
{
	std::vector<Params> cs;
	vh::Rng rng(seed * 1000003 + (tier == "quick" ? 1 : tier == "thorough" ? 2 : 3));
	bool quick = tier == "quick";
	size_t nSingle = quick ? 150 : 900, nDual = quick ? 250 : 1800;
	if (tier == "search") { nSingle = 600; nDual = 900; }
	std::vector<size_t> depths = { 1, 2, 3, 4, 5, 7, 8, 9, 15, 16, 17, 31, 32, 33, 63, 64 };
	size_t idx = 0;
	auto common = [&](Params &p) {
		p.id = "c" + std::to_string(idx++);
		// small depths more often: boundaries are reached more often per simulated cycle
		p.minDepth = rng.below(3) ? depths[rng.below(9)] : depths[rng.below(depths.size())];
		if (!quick && rng.below(8) == 0) p.minDepth = 1 + rng.below(64);
		// beyond 64 (block-RAM sized): rarer, they are long
		if (rng.below(quick ? 16 : 12) == 0) { static const size_t big[] = { 65, 100, 128, 129, 256, 512 }; p.minDepth = big[rng.below(quick ? 4 : 6)]; }
		p.pp = rng.below(4) != 0;
		p.seed = rng.next() % 1000000007ull;
		p.w = rng.below(5) == 0 ? 1 + rng.below(16) : 8;
		size_t depth = 1; while (depth < p.minDepth) depth <<= 1;
		// almost-levels at the boundaries 0, 1, depth/2, depth-1 and random; lvlF < depth (see report)
		size_t cand[] = { 0, 1 % depth, depth / 2, depth - 1, (size_t)rng.below(depth), (size_t)rng.below(depth) };
		p.lvlF = cand[rng.below(6)];
		size_t candE[] = { 0, 1, depth / 2, depth - 1, depth, (size_t)rng.below(depth + 1) };
		p.lvlE = candE[rng.below(6)];
		p.phases = mkPhases(rng, int(rng.below(4)));
	};
	for (size_t i = 0; i < nSingle; i++) {
		Params p; common(p);
		p.dual = false;
		p.fp = p.fo = 1 + rng.below(3);
		p.trP = p.trO = rng.below(4) == 0 ? 'F' : 'R';
		switch (rng.below(8)) {
		case 0: p.latKind = 'D'; break;
		case 1: p.latKind = 'L'; p.latVal = rng.below(7); break;
		case 2: p.latKind = 'M'; p.latVal = 1 + rng.below(3); break;
		default: p.latKind = 'S'; p.latVal = 1 + rng.below(quick ? 5 : 7); break;
		}
		cs.push_back(p);
	}
	for (size_t i = 0; i < nDual; i++) {
		Params p; common(p);
		p.dual = true;
		auto r = (quick || rng.below(2)) ? kRatiosQuick[rng.below(kRatiosQuick.size())] : kRatiosMore[rng.below(kRatiosMore.size())];
		p.fp = r.first; p.fo = r.second;
		p.trP = rng.below(3) == 0 ? 'F' : 'R';
		p.trO = rng.below(3) == 0 ? 'F' : 'R';
		switch (rng.below(8)) {
		case 0: p.latKind = 'D'; break;
		case 1: p.latKind = 'L'; p.latVal = rng.below(8); break;
		case 2: p.latKind = 'M'; p.latVal = 4 + rng.below(3); break;
		default: p.latKind = 'S'; p.latVal = 4 + rng.below(quick ? 3 : 5); break;
		}
		cs.push_back(p);
	}
	return cs;
}

// clock-relation family: every way the Clock API relates the pop clock to the push clock x the clock scope of generate()
// x pop requests that change mid-cycle.  Everything but "same" must come out as a dual-clock FIFO with synchronisers.
std::vector<Params> genRel(uint64_t seed, const std::string &tier)
{
	std::vector<Params> cs;
	vh::Rng rng(seed * 15485863 + (tier == "quick" ? 21 : tier == "thorough" ? 22 : 23));
	size_t rounds = tier == "quick" ? 1 : tier == "thorough" ? 6 : 3;
	size_t idx = 0;
	std::vector<size_t> depths = { 2, 4, 8, 16 };
	for (size_t rd = 0; rd < rounds; rd++)
		for (std::string rel : { "same", "fall", "both", "mul2", "div2", "swapfall", "indep" })
			for (char gs : { 'P', 'O', 'T' })
				for (int mid = 0; mid < 2; mid++) {
					if (rel == "same" && (gs != 'P' || mid)) continue;       // one clock: generate() has to run in its scope
					if (mid && rel != "fall") continue;                        // mid-cycle changes need edges that never coincide
					for (int rep = 0; rep < (rel == "fall" || rel == "both" ? 2 : 1); rep++) {
						Params p;
						p.id = "r" + std::to_string(idx++);
						p.rel = rel; p.genScope = gs; p.mid = mid != 0;
						p.dual = rel != "same";
						p.fp = 1 + rng.below(2); p.fo = rel == "indep" ? p.fp : p.fp;   // indep: two root clocks of the SAME frequency
						p.minDepth = depths[rng.below(depths.size())];
						p.pp = rng.below(4) != 0;
						p.seed = rng.next() % 1000000007ull;
						size_t depth = 1; while (depth < p.minDepth) depth <<= 1;
						p.lvlF = rng.below(2) ? 2 % depth : rng.below(depth);
						p.lvlE = rng.below(2) ? 2 % (depth + 1) : rng.below(depth + 1);
						if (rel == "same") { p.latKind = rng.below(2) ? 'D' : 'S'; p.latVal = 1 + rng.below(3); }
						else switch (rng.below(4)) { case 0: p.latKind = 'S'; p.latVal = 4 + rng.below(2); break; case 1: p.latKind = 'L'; p.latVal = rng.below(6); break; default: p.latKind = 'D'; }
						p.phases = mkPhases(rng, int(rng.below(4)));
						cs.push_back(p);
					}
				}
	return cs;
}

Params parseParams(const std::vector<std::string> &toks)
{
	Params p;
	size_t i = 0;
	if (i < toks.size() && toks[i] == "C") i++;
	if (i < toks.size() && toks[i].find('=') == std::string::npos) p.id = toks[i++];
	for (; i < toks.size(); i++) {
		auto eq = toks[i].find('=');
		if (eq == std::string::npos) continue;
		std::string key = toks[i].substr(0, eq), v = toks[i].substr(eq + 1);
		if (key == "minDepth") p.minDepth = std::stoull(v);
		else if (key == "lat") { p.latKind = v[0]; p.latVal = std::stoull(v.substr(1)); }
		else if (key == "reqDual") p.dual = v != "0";
		else if (key == "fp") p.fp = std::stoull(v);
		else if (key == "fo") p.fo = std::stoull(v);
		else if (key == "trP") p.trP = v[0];
		else if (key == "trO") p.trO = v[0];
		else if (key == "pp") p.pp = v != "0";
		else if (key == "lvlF") p.lvlF = std::stoull(v);
		else if (key == "lvlE") p.lvlE = std::stoull(v);
		else if (key == "seed") p.seed = std::stoull(v);
		else if (key == "plen") p.plen = std::stoull(v);
		else if (key == "w") p.w = std::stoull(v);
		else if (key == "rel") p.rel = v;
		else if (key == "gen") p.genScope = v[0];
		else if (key == "mid") p.mid = v != "0";
		else if (key == "ph" && v != "-") {
			std::stringstream ss(v); std::string item;
			while (std::getline(ss, item, ',')) {
				auto c = item.find(':');
				p.phases.push_back({ std::stoi(item.substr(0, c)), std::stoi(item.substr(c + 1)) });
			}
		}
	}
	return p;
}

// ---------------------------------------------------------------- gray code
void runGray(std::ostream &out)
{
	for (size_t wv = 1; wv <= 10; wv++) {
		DesignScope design;
		Clock clock({ .absoluteFrequency = 100'000'000 });
		ClockScope cs(clock);
		BitWidth w{ wv };
		UInt in = pinIn(w).setName("in");
		BVec e = scl::grayEncode(in); pinOut(e).setName("enc");
		UInt d = scl::grayDecode((BVec)in); pinOut(d).setName("dec");
		design.postprocess();
		sim::ReferenceSimulator s(false);
		s.addSimulationProcess([&]()->SimProcess {
			for (uint64_t x = 0; x < (1ull << wv); x++) {
				simu(in) = x;
				co_await WaitFor({ 1, 1'000'000'000 });
				out << "G " << wv << " " << x << " | " << numStr(simu(e)) << " " << numStr(simu(d)) << "\n";
			}
		});
		s.compileProgram(design.getCircuit());
		s.powerOn();
		s.advance(hlim::ClockRational((1ull << wv) + 4, 1'000'000'000));
	}
}

// ---------------------------------------------------------------- other FIFO flavours (differential only)
// One line per clock edge:   T <what> ... | observed values ; python checks them against a plain queue.
void runTransactional(const Params &p, std::ostream &out, bool useCutoff)
{
	DesignScope design;
	Clock clk({ .absoluteFrequency = 100'000'000 });
	ClockScope cs(clk);
	BitWidth w{ p.w };
	XTxFifo fifo{ p.minDepth, UInt{ w }, mkLatency(p) };
	size_t depth = fifo.depth();
	size_t k = 0; while ((size_t(1) << k) < depth) k++;
	Bit push, pop; UInt pushData = w;
	IF(push) fifo.push(pushData);
	push = pinIn().setName("push_valid"); pushData = pinIn(w).setName("push_data");
	Bit full = fifo.full(); pinOut(full).setName("full");
	UInt popData = fifo.peek();
	IF(pop) fifo.pop();
	pop = pinIn().setName("pop_ready"); pinOut(popData).setName("pop_data");
	Bit empty = fifo.empty(); pinOut(empty).setName("empty");
	UInt cutoff = pinIn(BitWidth{ k + 1 }).setName("cutoff");
	Bit pushCommit = pinIn().setName("pushCommit");
	IF(pushCommit) { if (useCutoff) fifo.commitPush(cutoff); else fifo.commitPush(); }
	Bit pushRollback = pinIn().setName("pushRollback");
	IF(pushRollback) fifo.rollbackPush();
	Bit popCommit = pinIn().setName("popCommit");
	IF(popCommit) fifo.commitPop();
	Bit popRollback = pinIn().setName("popRollback");
	IF(popRollback) fifo.rollbackPop();
	fifo.generate();
	if (p.pp) design.postprocess();
	out << "T " << p.id << " kind=" << (useCutoff ? "transactional_cutoff" : "transactional") << " k=" << k << " L=" << fifo.choice().latency_writeToEmpty
		<< " depth=" << depth << " lat=" << p.latKind << p.latVal
		<< " pp=" << (p.pp ? 1 : 0) << " seed=" << p.seed << " minDepth=" << p.minDepth << " w=" << p.w << "\n";
	sim::ReferenceSimulator s(false);
	uint64_t mask = (1ull << p.w) - 1;
	size_t nEdges = 12 * depth + 200;
	s.addSimulationProcess([&]()->SimProcess {
		vh::Rng rng(p.seed * 2 + 1);
		bool pr = false, po = false, pc = false, prb = false, oc = false, orb = false; uint64_t dat = 0, cut = 0;
		simu(push) = '0'; simu(pop) = '0'; simu(pushData) = 0; simu(cutoff) = 0;
		simu(pushCommit) = '0'; simu(pushRollback) = '0'; simu(popCommit) = '0'; simu(popRollback) = '0';
		size_t staged = 0; // accepted pushes since the last push commit / rollback (to keep cutoff legal)
		for (size_t i = 0; i < nEdges; i++) {
			co_await OnClk(clk);
			std::string f = bitStr(simu(full)), e = bitStr(simu(empty));
			out << "t " << (pr ? 1 : 0) << " " << dat << " " << (po ? 1 : 0) << " " << (pc ? 1 : 0) << " " << cut << " " << (prb ? 1 : 0) << " "
				<< (oc ? 1 : 0) << " " << (orb ? 1 : 0) << " | " << f << " " << e << " " << numStr(simu(popData)) << "\n";
			// bookkeeping of staged pushes as the interface contract defines them
			if (pr && f == "0") staged++;
			if (prb && !pc) staged = 0;
			if (pc) staged = 0;
			int mode = int((i / (2 * depth + 8)) % 4);
			int pPush = mode == 0 ? 7 : mode == 1 ? 2 : 5, pPop = mode == 0 ? 2 : mode == 1 ? 7 : 5;
			pr = int(rng.below(8)) < pPush; dat = rng.next() & mask; po = int(rng.below(8)) < pPop;
			pc = rng.below(6) == 0; prb = !pc && rng.below(12) == 0;
			oc = rng.below(6) == 0; orb = !oc && rng.below(12) == 0;
			// a cutoff may only remove pushes staged in this transaction (incl. the one of this cycle if accepted:
			// unknown here, so stay below the already staged count)
			cut = (useCutoff && pc && staged > 0) ? rng.below(std::min<size_t>(staged, 3) + 1) : 0;
			simu(push) = pr ? '1' : '0'; simu(pushData) = dat; simu(pop) = po ? '1' : '0';
			simu(pushCommit) = pc ? '1' : '0'; simu(cutoff) = cut; simu(pushRollback) = prb ? '1' : '0';
			simu(popCommit) = oc ? '1' : '0'; simu(popRollback) = orb ? '1' : '0';
		}
	});
	s.compileProgram(design.getCircuit());
	s.powerOn();
	s.advance(hlim::ClockRational(nEdges + 4, 1) / clk.absoluteFrequency());
}

void runStreamFifo(const Params &p, std::ostream &out, bool fallThrough)
{
	DesignScope design;
	Clock clk({ .absoluteFrequency = 100'000'000 });
	ClockScope cs(clk);
	BitWidth w{ p.w };
	scl::RvStream<UInt> in{ .data = w };
	pinIn(in, "in");
	scl::FifoLatency lat = fallThrough ? scl::FifoLatency(0) : mkLatency(p);
	scl::RvStream<UInt> o = scl::strm::fifo(move(in), p.minDepth, lat);
	pinOut(o, "out");
	if (p.pp) design.postprocess();
	out << "T " << p.id << " kind=" << (fallThrough ? "strm_fifo_fallthrough" : "strm_fifo") << " minDepth=" << p.minDepth << " lat=" << p.latKind << p.latVal
		<< " pp=" << (p.pp ? 1 : 0) << " seed=" << p.seed << " w=" << p.w << "\n";
	sim::ReferenceSimulator s(false);
	uint64_t mask = (1ull << p.w) - 1;
	size_t depth = 1; while (depth < p.minDepth) depth <<= 1;
	size_t nEdges = 12 * depth + 200;
	s.addSimulationProcess([&]()->SimProcess {
		vh::Rng rng(p.seed * 2 + 1);
		bool v = false, r = false; uint64_t dat = 0;
		simu(valid(in)) = '0'; simu(*in) = 0; simu(ready(o)) = '0';
		for (size_t i = 0; i < nEdges; i++) {
			co_await OnClk(clk);
			out << "s " << (v ? 1 : 0) << " " << dat << " " << (r ? 1 : 0) << " | " << bitStr(simu(ready(in))) << " " << bitStr(simu(valid(o))) << " " << numStr(simu(*o)) << "\n";
			bool fired = v && simu(ready(in)).allDefined() && (bool)simu(ready(in));
			int mode = int((i / (2 * depth + 8)) % 4);
			int pPush = mode == 0 ? 8 : mode == 1 ? 2 : mode == 2 ? 8 : 5, pPop = mode == 0 ? 1 : mode == 1 ? 8 : mode == 2 ? 8 : 5;
			// a valid beat that was not taken must be held (stream protocol)
			if (!v || fired) { v = int(rng.below(8)) < pPush; dat = rng.next() & mask; }
			r = int(rng.below(8)) < pPop;
			simu(valid(in)) = v ? '1' : '0'; simu(*in) = dat; simu(ready(o)) = r ? '1' : '0';
		}
	});
	s.compileProgram(design.getCircuit());
	s.powerOn();
	s.advance(hlim::ClockRational(nEdges + 4, 1) / clk.absoluteFrequency());
}

void runFifoArray(const Params &p, std::ostream &out)
{
	DesignScope design;
	Clock clk({ .absoluteFrequency = 100'000'000 });
	ClockScope cs(clk);
	size_t nFifos = (p.seed % 3 == 0) ? 4 : 2;
	size_t per = 2; while (per < p.minDepth) per <<= 1;
	BitWidth w{ p.w };
	scl::FifoArray<UInt> fifo(nFifos, per, UInt{ w });
	Bit pushEnable; pinIn(pushEnable, "pushEnable");
	UInt pushSel = BitWidth::count(nFifos); pinIn(pushSel, "pushSelector");
	UInt pushData = dontCare(UInt{ w }); pinIn(pushData, "pushData");
	fifo.selectPush(pushSel);
	Bit full = fifo.full(); pinOut(full, "pushFull");
	IF(pushEnable) fifo.push(pushData);
	Bit popEnable; pinIn(popEnable, "popEnable");
	UInt popSel = BitWidth::count(nFifos); pinIn(popSel, "popSelector");
	UInt popData = reg(fifo.peek(), RegisterSettings{ .allowRetimingBackward = true });
	pinOut(popData, "popData");
	fifo.selectPop(popSel);
	Bit empty = fifo.empty(); pinOut(empty, "popEmpty");
	IF(popEnable) fifo.pop();
	fifo.generate();
	if (p.pp) design.postprocess();
	out << "T " << p.id << " kind=fifo_array n=" << nFifos << " per=" << per << " pp=" << (p.pp ? 1 : 0) << " seed=" << p.seed << " w=" << p.w << "\n";
	sim::ReferenceSimulator s(false);
	uint64_t mask = (1ull << p.w) - 1;
	size_t nEdges = 10 * per * nFifos + 200;
	s.addSimulationProcess([&]()->SimProcess {
		vh::Rng rng(p.seed * 2 + 1);
		bool pe = false, oe = false; uint64_t dat = 0, ps = 0, os = 0;
		simu(pushEnable) = '0'; simu(popEnable) = '0'; simu(pushSel) = 0; simu(popSel) = 0; simu(pushData) = 0;
		for (size_t i = 0; i < nEdges; i++) {
			co_await OnClk(clk);
			// full / empty are combinational in the selectors; popData is the peek of the PREVIOUS cycle's selection (user register)
			out << "a " << (pe ? 1 : 0) << " " << ps << " " << dat << " " << (oe ? 1 : 0) << " " << os << " | " << bitStr(simu(full)) << " " << bitStr(simu(empty)) << " " << numStr(simu(popData)) << "\n";
			int mode = int((i / (2 * per + 8)) % 4);
			int pPush = mode == 0 ? 8 : mode == 1 ? 2 : mode == 2 ? 8 : 5, pPop = mode == 0 ? 1 : mode == 1 ? 8 : mode == 2 ? 8 : 5;
			pe = int(rng.below(8)) < pPush; dat = rng.next() & mask; ps = rng.below(nFifos);
			oe = int(rng.below(8)) < pPop; os = rng.below(nFifos);
			simu(pushEnable) = pe ? '1' : '0'; simu(pushData) = dat; simu(pushSel) = ps;
			simu(popEnable) = oe ? '1' : '0'; simu(popSel) = os;
		}
	});
	s.compileProgram(design.getCircuit());
	s.powerOn();
	s.advance(hlim::ClockRational(nEdges + 4, 1) / clk.absoluteFrequency());
}

void runOther(uint64_t seed, const std::string &tier, std::ostream &out)
{
	vh::Rng rng(seed * 7919 + 5);
	size_t n = tier == "quick" ? 30 : 240;
	std::vector<size_t> depths = { 2, 3, 4, 8, 16, 32 };
	for (size_t i = 0; i < n; i++) {
		Params p;
		p.minDepth = depths[rng.below(depths.size())];
		p.pp = rng.below(4) != 0;
		p.seed = rng.next() % 1000000007ull;
		p.w = 8;
		switch (rng.below(4)) {
		case 0: p.latKind = 'D'; break;
		default: p.latKind = 'S'; p.latVal = 1 + rng.below(3); break;
		}
		auto guarded = [&](const char *what, auto &&fn) {
			std::ostringstream tmp;
			try { fn(tmp); out << tmp.str(); }
			catch (const std::exception &e) {
				std::string msg = e.what(); for (auto &c : msg) if (c == '\n') c = ' ';
				out << "T " << p.id << " kind=" << what << " minDepth=" << p.minDepth << " lat=" << p.latKind << p.latVal << " error=" << msg.substr(0, 200) << "\n";
			}
		};
		p.id = "t" + std::to_string(i) + "a"; guarded("transactional", [&](std::ostream &o) { runTransactional(p, o, false); });
		p.id = "t" + std::to_string(i) + "b"; guarded("transactional_cutoff", [&](std::ostream &o) { runTransactional(p, o, true); });
		p.id = "t" + std::to_string(i) + "c"; guarded("strm_fifo", [&](std::ostream &o) { runStreamFifo(p, o, false); });
		p.id = "t" + std::to_string(i) + "d"; guarded("strm_fifo_fallthrough", [&](std::ostream &o) { runStreamFifo(p, o, true); });
		p.id = "t" + std::to_string(i) + "e"; guarded("fifo_array", [&](std::ostream &o) { runFifoArray(p, o); });
	}
}


// ---------------------------------------------------------------- strm::fifo, every latency option incl. fall-through
struct SParams {
	std::string id = "s";
	size_t minDepth = 16;
	char latKind = 'S'; size_t latVal = 0;   // S0 = fall-through
	bool pp = true;
	uint64_t seed = 1;
	std::string script = "-";   // explicit prefix, one char per cycle: - idle, v valid only, r ready only, b both
	size_t n = 0;               // cycles (0: derive)
	size_t w = 8;
	int profile = 0;            // request profile of the seeded part
};

scl::FifoMeta *findFifoMeta(hlim::NodeGroup *g)
{
	if (auto *m = dynamic_cast<scl::FifoMeta*>(g->getMetaInfo())) return m;
	for (auto &c : g->getChildren()) if (auto *m = findFifoMeta(c.get())) return m;
	return nullptr;
}

void runStrm(const SParams &p, std::ostream &out)
{
	DesignScope design;
	Clock clk({ .absoluteFrequency = 100'000'000 });
	ClockScope cs(clk);
	BitWidth w{ p.w };
	scl::RvStream<UInt> in{ .data = w };
	pinIn(in, "in");
	scl::FifoLatency lat = p.latKind == 'S' ? scl::FifoLatency(p.latVal) : p.latKind == 'L' ? scl::FifoLatency::AtLeast(p.latVal)
		: p.latKind == 'M' ? scl::FifoLatency::AtMost(p.latVal) : scl::FifoLatency::DontCare();
	// the real entry point: builds its own scl::Fifo (latency 0 -> FifoLatency(1) + bypass)
	scl::RvStream<UInt> o = scl::strm::fifo(move(in), p.minDepth, lat);
	pinOut(o, "out");
	scl::FifoMeta *meta = findFifoMeta(design.getCircuit().getRootNodeGroup());
	if (!meta) throw std::runtime_error("no scl_fifo meta info found below strm::fifo");
	size_t depth = meta->fifoChoice.readDepth, L = meta->fifoChoice.latency_writeToEmpty, L2 = meta->fifoChoice.latency_readToFull;
	bool single = meta->fifoChoice.singleClock;
	size_t k = 0; while ((size_t(1) << k) < depth) k++;
	if (p.pp) design.postprocess();
	bool ft = p.latKind == 'S' && p.latVal == 0;
	size_t n = p.n ? p.n : std::min<size_t>(8 * depth + 160, 2600);
	out << "S " << p.id << " k=" << k << " L=" << L << " ft=" << (ft ? 1 : 0) << " | depth=" << depth << " L2=" << L2 << " single=" << (single ? 1 : 0)
		<< " minDepth=" << p.minDepth << " lat=" << p.latKind << p.latVal << " pp=" << (p.pp ? 1 : 0) << " seed=" << p.seed
		<< " script=" << p.script << " n=" << n << " w=" << p.w << " profile=" << p.profile << "\n";
	sim::ReferenceSimulator s(false);
	uint64_t mask = p.w >= 64 ? ~0ull : ((1ull << p.w) - 1);
	s.addSimulationProcess([&]()->SimProcess {
		vh::Rng rng(p.seed * 2 + 1);
		bool v = false, r = false; uint64_t dat = 0; uint64_t serial = 0;
		simu(valid(in)) = '0'; simu(*in) = 0; simu(ready(o)) = '0';
		size_t seg = 2 * std::min<size_t>(depth, 160) + 24;
		for (size_t i = 0; i < n; i++) {
			co_await OnClk(clk);
			auto rdy = simu(ready(in));
			out << "s " << (v ? 1 : 0) << " " << dat << " " << (r ? 1 : 0) << " | " << bitStr(rdy) << " " << bitStr(simu(valid(o))) << " " << numStr(simu(*o)) << "\n";
			bool fired = v && rdy.allDefined() && (bool)rdy;
			bool wantV, wantR;
			// first cycle stays idle (reset); then the scripted prefix, then the seeded profile
			if (i < 1) { wantV = false; wantR = false; }
			else if (p.script != "-" && i - 1 < p.script.size()) { char c = p.script[i - 1]; wantV = c == 'v' || c == 'b'; wantR = c == 'r' || c == 'b'; }
			else {
				int mode = (p.profile + int(i / seg)) % 6;
				// 0: trickle around empty (the fall-through window); 1: fill; 2: drain; 3: both always; 4: random; 5: single beats into a stalled consumer
				int pv = mode == 0 ? 3 : mode == 1 ? 8 : mode == 2 ? 1 : mode == 3 ? 8 : mode == 4 ? 4 : 2;
				int pr = mode == 0 ? 5 : mode == 1 ? 1 : mode == 2 ? 8 : mode == 3 ? 8 : mode == 4 ? 4 : 3;
				wantV = int(rng.below(8)) < pv; wantR = int(rng.below(8)) < pr;
			}
			// a valid beat that was not taken must be held unchanged (stream protocol)
			if (!v || fired) { v = wantV; if (v) dat = (++serial * 37 + (rng.next() & 1)) & mask; }
			r = wantR;
			simu(valid(in)) = v ? '1' : '0'; simu(*in) = dat; simu(ready(o)) = r ? '1' : '0';
		}
	});
	s.compileProgram(design.getCircuit());
	s.powerOn();
	s.advance(hlim::ClockRational(n + 4, 1) / clk.absoluteFrequency());
}

std::vector<SParams> genStrm(uint64_t seed, const std::string &tier)
{
	std::vector<SParams> cs;
	vh::Rng rng(seed * 104729 + (tier == "quick" ? 11 : tier == "thorough" ? 12 : 13));
	std::vector<size_t> depths = { 1, 2, 4, 5, 16, 17, 64, 65, 128, 129, 512 };
	struct Lat { char k; size_t v; };
	std::vector<Lat> lats = { {'S',0}, {'S',1}, {'S',2}, {'S',3}, {'D',0}, {'L',1}, {'M',1}, {'M',3} };
	size_t rounds = tier == "quick" ? 1 : tier == "thorough" ? 8 : 3;
	size_t idx = 0;
	for (size_t rd = 0; rd < rounds; rd++)
		for (auto d : depths) for (auto l : lats) {
			// the whole grid once per round; fall-through gets three schedules per grid point
			size_t reps = (l.k == 'S' && l.v == 0) ? 3 : 1;
			if (tier == "quick" && d == 512 && !(l.k == 'S' && l.v <= 1)) continue;
			for (size_t rep = 0; rep < reps; rep++) {
				SParams p;
				p.id = "s" + std::to_string(idx++);
				p.minDepth = d; p.latKind = l.k; p.latVal = l.v;
				if (rd > 0 && rng.below(4) == 0) p.minDepth = 1 + rng.below(600);
				p.pp = rng.below(4) != 0;
				p.seed = rng.next() % 1000000007ull;
				p.w = rng.below(4) == 0 ? 3 + rng.below(12) : 8;
				p.profile = int(rng.below(6));
				// aimed prefix: beat A into the empty FIFO with a stalled consumer, beat B with a ready consumer, in
				// several spacings; then let it drain and repeat
				static const char *scripts[] = { "vb-rrrr", "vbbrrr-vb", "v-b-rrr", "-", "vvbrr-vrb-rr", "bvbvbrrrr", "vrvrbb-rr", "-" };
				p.script = rep == 0 ? scripts[rng.below(3)] : scripts[rng.below(8)];
				cs.push_back(p);
			}
		}
	return cs;
}

SParams parseSParams(const std::vector<std::string> &toks)
{
	SParams p;
	size_t i = 0;
	if (i < toks.size() && toks[i] == "S") i++;
	if (i < toks.size() && toks[i].find('=') == std::string::npos) p.id = toks[i++];
	for (; i < toks.size(); i++) {
		auto eq = toks[i].find('=');
		if (eq == std::string::npos) continue;
		std::string key = toks[i].substr(0, eq), v = toks[i].substr(eq + 1);
		if (key == "minDepth") p.minDepth = std::stoull(v);
		else if (key == "lat") { p.latKind = v[0]; p.latVal = std::stoull(v.substr(1)); }
		else if (key == "pp") p.pp = v != "0";
		else if (key == "seed") p.seed = std::stoull(v);
		else if (key == "script") p.script = v;
		else if (key == "n") p.n = std::stoull(v);
		else if (key == "w") p.w = std::stoull(v);
		else if (key == "profile") p.profile = std::stoi(v);
	}
	return p;
}

// ---------------------------------------------------------------- table of selected latencies
void latRow(std::ostream &out, const std::string &dev, bool dual, char lk, size_t lv, size_t minDepth)
{
	Params p; p.latKind = lk; p.latVal = lv; p.minDepth = minDepth; p.dual = dual;
	out << "Q dev=" << dev << " dual=" << (dual ? 1 : 0) << " lat=" << lk << lv << " minDepth=" << minDepth << " | ";
	try {
		DesignScope design;
		if (dev == "intel_max10") { auto d = std::make_unique<scl::IntelDevice>(); d->setupMAX10(); design.setTargetTechnology(std::move(d)); }
		if (dev == "xilinx_zynq7") { auto d = std::make_unique<scl::XilinxDevice>(); d->setupZynq7(); design.setTargetTechnology(std::move(d)); }
		if (dev == "direct_default" || dev == "direct_xilinx7") {
			// the capability object itself, asked the way Fifo<T>::finalFifoSelection asks
			FifoCapabilities::Request rq;
			rq.readDepth.atLeast(minDepth); rq.readWidth = 8; rq.writeWidth = 8;
			auto lat = mkLatency(p);
			if (dual) { auto m = scl::FifoLatency::AtLeast(4).mergeWith(lat); if (!m) throw std::runtime_error("merge failed"); lat = *m; }
			rq.latency_writeToEmpty = lat; rq.latency_readToFull = lat; rq.latency_writeToAlmostEmpty = lat; rq.latency_readToAlmostFull = lat;
			rq.singleClock = !dual;
			FifoCapabilities base; scl::arch::xilinx::Xilinx7SeriesFifoCapabilities x7;
			FifoCapabilities::Choice c = dev == "direct_default" ? base.select(nullptr, rq) : x7.select(nullptr, rq);
			out << "depth=" << c.readDepth << " we=" << c.latency_writeToEmpty << " rf=" << c.latency_readToFull << " wae=" << c.latency_writeToAlmostEmpty
				<< " raf=" << c.latency_readToAlmostFull << " single=" << (c.singleClock ? 1 : 0) << "\n";
			return;
		}
		Clock wr({ .absoluteFrequency = 100'000'000, .name = "wr" });
		std::optional<Clock> rdo; if (dual) rdo.emplace(ClockConfig{ .absoluteFrequency = 133'000'000, .name = "rd" });
		Clock rd = dual ? *rdo : wr;
		XFifo fifo{ minDepth, UInt{ 8_b }, mkLatency(p) };
		Bit push, pop; UInt pushData = 8_b;
		{ ClockScope cs(wr); IF(push) fifo.push(pushData); push = pinIn().setName("push"); pushData = pinIn(8_b).setName("data"); pinOut(fifo.full()).setName("full"); }
		{ ClockScope cs(rd); UInt pk = fifo.peek(); IF(pop) fifo.pop(); pop = pinIn().setName("pop"); pinOut(pk).setName("peek"); pinOut(fifo.empty()).setName("empty"); }
		{ ClockScope cs(wr); fifo.generate(); }
		auto &c = fifo.choice();
		out << "depth=" << c.readDepth << " we=" << c.latency_writeToEmpty << " rf=" << c.latency_readToFull << " wae=" << c.latency_writeToAlmostEmpty
			<< " raf=" << c.latency_readToAlmostFull << " single=" << (c.singleClock ? 1 : 0) << "\n";
	} catch (const std::exception &e) {
		std::string msg = e.what(); for (auto &ch : msg) if (ch == '\n') ch = ' ';
		out << "error=" << msg.substr(0, 160) << "\n";
	}
}

void runLatTable(std::ostream &out)
{
	std::vector<size_t> depths = { 1, 4, 16, 64, 65, 128, 512, 4096 };
	for (std::string dev : { "none", "intel_max10", "xilinx_zynq7", "direct_default", "direct_xilinx7" })
		for (int dual = 0; dual < 2; dual++) {
			if (dual && dev == "direct_xilinx7") continue; // asserts "Dual clock not yet implemented"
			for (auto d : depths) {
				for (size_t v = dual ? 4 : 1; v <= 7; v++) latRow(out, dev, dual, 'S', v, d);
				latRow(out, dev, dual, 'D', 0, d);
				for (size_t v = 0; v <= 7; v++) latRow(out, dev, dual, 'L', v, d);
				for (size_t v = dual ? 4 : 1; v <= 6; v++) latRow(out, dev, dual, 'M', v, d);
			}
		}
}

} // namespace

int main(int argc, char **argv)
{
	if (argc < 3) { fprintf(stderr, "usage: see header comment\n"); return 2; }
	std::string mode = argv[1];
	try {
		if (mode == "tie" || mode == "rel") {
			uint64_t seed = strtoull(argv[2], nullptr, 10);
			std::string tier = argv[3];
			std::ofstream out(argv[4]);
			for (auto &p : (mode == "tie" ? genCases(seed, tier) : genRel(seed, tier))) {
				std::ostringstream tmp;
				try { runCase(p, tmp); out << tmp.str(); }
				catch (const std::exception &e) {
					std::string msg = e.what(); for (auto &c : msg) if (c == '\n') c = ' ';
					out << "X " << p.id << " minDepth=" << p.minDepth << " lat=" << p.latKind << p.latVal << " reqDual=" << p.dual << " error=" << msg.substr(0, 300) << "\n";
				}
			}
		} else if (mode == "replay") {
			std::ofstream out(argv[2]);
			std::vector<std::string> toks;
			for (int i = 3; i < argc; i++) { std::stringstream ss(argv[i]); std::string t; while (ss >> t) if (t != "|") toks.push_back(t); }
			runCase(parseParams(toks), out);
		} else if (mode == "gray") {
			std::ofstream out(argv[2]);
			runGray(out);
		} else if (mode == "other") {
			uint64_t seed = strtoull(argv[2], nullptr, 10);
			std::ofstream out(argv[4]);
			runOther(seed, argv[3], out);
		} else if (mode == "strm") {
			uint64_t seed = strtoull(argv[2], nullptr, 10);
			std::ofstream out(argv[4]);
			for (auto &p : genStrm(seed, argv[3])) {
				std::ostringstream tmp;
				try { runStrm(p, tmp); out << tmp.str(); }
				catch (const std::exception &e) {
					std::string msg = e.what(); for (auto &c : msg) if (c == '\n') c = ' ';
					out << "X " << p.id << " strm minDepth=" << p.minDepth << " lat=" << p.latKind << p.latVal << " error=" << msg.substr(0, 300) << "\n";
				}
			}
		} else if (mode == "sreplay") {
			std::ofstream out(argv[2]);
			std::vector<std::string> toks;
			for (int i = 3; i < argc; i++) { std::stringstream ss(argv[i]); std::string t; while (ss >> t) if (t != "|") toks.push_back(t); }
			runStrm(parseSParams(toks), out);
		} else if (mode == "lat") {
			std::ofstream out(argv[2]);
			runLatTable(out);
		} else { fprintf(stderr, "unknown mode\n"); return 2; }
	} catch (const std::exception &e) {
		fprintf(stderr, "C15_fifo: exception: %s\n", e.what());
		return 3;
	}
	return 0;
}
