// C14 harness: builds condition networks through the hlim API, runs the real
// hlim::Conjunction on them and prints canonical result lines; additionally
// checks every positive claim of the real predicates against the truth table of
// the real network (independent oracle, lines starting with SEMFAIL).
//
// case file format (written by checks/C14.py):
//   case <id>
//   <kind> [d1] [d2]        one line per port, topological order; kinds: A C0 C1 CX N & S O ; driver = index or '-'
//                           M k   = output port 0 of a fresh opaque node with k Bit outputs; P m p = output port p of the M node at index m
//   roots r1 r2 ...
//   end
#include "vh.h"
#include <gatery/hlim/CNF.h>
#include <gatery/hlim/coreNodes/Node_Pin.h>
#include <gatery/hlim/NodeGroup.h>
#include <gatery/hlim/supportNodes/Node_External.h>

using namespace gtry;
using namespace gtry::hlim;

struct PNode { std::string kind; int d1 = -1, d2 = -1; };

// an opaque node with several Bit outputs (as Node_RegSpawner, Node_NegativeRegister or an external module have)
class MultiOut : public Node_External {
	public:
		MultiOut(size_t k) { m_name = "multi_out"; resizeIOPorts(0, k); for (size_t i = 0; i < k; i++) declOutputBit(i, "o" + std::to_string(i)); }
		virtual std::unique_ptr<BaseNode> cloneUnconnected() const override { std::unique_ptr<BaseNode> r(new MultiOut(getNumOutputPorts())); copyBaseToClone(r.get()); return r; }
};

struct Case {
	std::string id;
	std::vector<PNode> nodes;
	std::vector<int> roots;
};

static int parseDrv(const std::string &s) { return s == "-" ? -1 : atoi(s.c_str()); }

// evaluator over the *real* graph: value of an output port under an assignment of the opaque ports
struct Eval {
	std::map<NodePort, int> opaqueIdx;  // atoms (per output port) and undefined constants
	uint64_t assign = 0;
	bool unconn = false;
	bool val(NodePort np) {
		if (np.node == nullptr) return unconn;
		if (auto *c = dynamic_cast<Node_Constant*>(np.node)) {
			if (c->getValue().get(sim::DefaultConfig::DEFINED, 0)) return c->getValue().get(sim::DefaultConfig::VALUE, 0);
			return (assign >> opaqueIdx.at(NodePort{.node = np.node, .port = 0ull})) & 1;
		}
		if (auto *l = dynamic_cast<Node_Logic*>(np.node)) {
			switch (l->getOp()) {
				case Node_Logic::NOT: return !val(l->getDriver(0));
				case Node_Logic::AND: return val(l->getDriver(0)) && val(l->getDriver(1));
				default: break;
			}
		}
		if (dynamic_cast<Node_Signal*>(np.node)) return val(np.node->getDriver(0));
		return (assign >> opaqueIdx.at(np)) & 1;
	}
};

static std::string termsStr(const Conjunction &c, std::map<NodePort, int> &idx) {
	std::vector<std::tuple<int,int,int>> ts;
	for (const auto &p : c.getTerms().anyOrder()) {
		int drv = p.second.driver.node ? idx.at(p.second.driver) : -1;
		int cd = p.second.conjunctionDriver.node ? idx.at(p.second.conjunctionDriver) : -1;
		ts.push_back({drv, p.second.negated ? 1 : 0, cd});
	}
	std::sort(ts.begin(), ts.end());
	std::stringstream s;
	for (auto &t : ts) s << std::get<0>(t) << ":" << std::get<1>(t) << ":" << std::get<2>(t) << ",";
	return s.str();
}

static void runCase(const Case &cs, std::ostream &out) {
	Circuit circuit;
	std::vector<NodePort> ports;
	std::map<NodePort, int> idx;
	Eval ev;
	auto drv = [&](int d) -> NodePort { return d < 0 ? NodePort{} : ports[d]; };
	try {
		for (size_t i = 0; i < cs.nodes.size(); i++) {
			const auto &n = cs.nodes[i];
			BaseNode *node = nullptr;
			size_t port = 0;
			if (n.kind == "A") { auto *p = circuit.createNode<Node_Pin>(true, false, false); p->setBool(); node = p; ev.opaqueIdx[{.node = node, .port = 0ull}] = (int)ev.opaqueIdx.size(); }
			else if (n.kind == "M") { node = circuit.createNode<MultiOut>((size_t)std::max(1, n.d1)); ev.opaqueIdx[{.node = node, .port = 0ull}] = (int)ev.opaqueIdx.size(); }
			else if (n.kind == "P") {
				if (n.d1 < 0 || n.d1 >= (int)i || cs.nodes[n.d1].kind != "M" || n.d2 < 1 || n.d2 >= cs.nodes[n.d1].d1) { out << "SKIP " << cs.id << " bad-port\n"; return; }
				NodePort np{.node = ports[n.d1].node, .port = (size_t)n.d2};
				if (idx.count(np)) { out << "SKIP " << cs.id << " duplicate-port\n"; return; }
				ev.opaqueIdx[np] = (int)ev.opaqueIdx.size();
				ports.push_back(np); idx[np] = (int)i;
				continue;
			}
			else if (n.kind == "C0" || n.kind == "C1" || n.kind == "CX") {
				node = circuit.createNode<Node_Constant>(sim::parseBit(n.kind == "C0" ? '0' : n.kind == "C1" ? '1' : 'x'), ConnectionType::BOOL);
				if (n.kind == "CX") ev.opaqueIdx[{.node = node, .port = 0ull}] = (int)ev.opaqueIdx.size();
			}
			else if (n.kind == "N") { auto *l = circuit.createNode<Node_Logic>(Node_Logic::NOT); if (n.d1 >= 0) l->connectInput(0, drv(n.d1)); node = l; }
			else if (n.kind == "&") { auto *l = circuit.createNode<Node_Logic>(Node_Logic::AND); if (n.d1 >= 0) l->connectInput(0, drv(n.d1)); if (n.d2 >= 0) l->connectInput(1, drv(n.d2)); node = l; }
			else if (n.kind == "S") { auto *s = circuit.createNode<Node_Signal>(); s->setConnectionType({.type = ConnectionType::BOOL, .width = 1}); if (n.d1 >= 0) s->connectInput(drv(n.d1)); node = s; }
			else if (n.kind == "O") { auto *l = circuit.createNode<Node_Logic>(Node_Logic::OR); if (n.d1 >= 0) l->connectInput(0, drv(n.d1)); if (n.d2 >= 0) l->connectInput(1, drv(n.d2)); node = l; ev.opaqueIdx[{.node = node, .port = 0ull}] = (int)ev.opaqueIdx.size(); }
			else { out << "SKIP " << cs.id << " unknown-kind\n"; return; }
			node->moveToGroup(circuit.getRootNodeGroup());
			ports.push_back({.node = node, .port = port});
			idx[{.node = node, .port = port}] = (int)i;
		}
	} catch (const std::exception &e) {
		out << "SKIP " << cs.id << " construction\n";
		return;
	}

	std::vector<Conjunction> conj;
	for (int r : cs.roots) {
		Conjunction c; c.parseOutput(drv(r));
		conj.push_back(c);
		out << "P " << cs.id << " " << r << " " << c.isUndefined() << " " << c.isContradicting() << " " << termsStr(c, idx) << "\n";
	}
	size_t nOpaque = ev.opaqueIdx.size();
	bool doSem = nOpaque <= 12;
	auto forAll = [&](auto f) { // f(assign) returns false to report
		for (int un = 0; un < 2; un++) for (uint64_t a = 0; a < (1ull << nOpaque); a++) { ev.unconn = un; ev.assign = a; if (!f()) return std::make_pair(false, std::make_pair(a, un)); }
		return std::make_pair(true, std::make_pair((uint64_t)0, 0));
	};
	for (size_t i = 0; i < cs.roots.size(); i++)
		for (size_t j = 0; j < cs.roots.size(); j++) {
			const auto &a = conj[i], &b = conj[j];
			bool eq = a.isEqualTo(b), ng = a.isNegationOf(b), sb = a.isSubsetOf(b), cb = a.cannotBothBeTrue(b), cb2 = a.cannotBothBeTrue(b, true);
			// equality as a std::map key: the defaulted operator== and the equivalence induced by operator<=> (Retiming.cpp cache)
			bool opeq = (a == b), keyeq = !(a < b) && !(b < a);
			out << "Q " << cs.id << " " << cs.roots[i] << " " << cs.roots[j] << " " << eq << ng << sb << cb << cb2 << opeq << keyeq << "\n";
			if (!doSem) continue;
			NodePort ra = drv(cs.roots[i]), rb = drv(cs.roots[j]);
			auto rep = [&](const char *what, std::pair<bool, std::pair<uint64_t,int>> r) {
				if (!r.first) out << "SEMFAIL " << cs.id << " " << what << " roots " << cs.roots[i] << " " << cs.roots[j] << " assign " << r.second.first << " unconnected " << r.second.second << "\n";
			};
			if (eq) rep("isEqualTo", forAll([&]{ return ev.val(ra) == ev.val(rb); }));
			if ((opeq || keyeq) && !a.isUndefined()) rep("operator==", forAll([&]{ return ev.val(ra) == ev.val(rb); }));
			if (ng) rep("isNegationOf", forAll([&]{ return ev.val(ra) != ev.val(rb); }));
			if (sb) rep("isSubsetOf", forAll([&]{ return !ev.val(rb) || ev.val(ra); }));
			if (cb || cb2) rep("cannotBothBeTrue", forAll([&]{ return !(ev.val(ra) && ev.val(rb)); }));
		}
	// term-set operations used by retiming (suggestForwardRetimingEnableCondition, hazard logic): tie + truth table
	auto litsTrue = [&](const Conjunction &c) { bool v = true; for (const auto &p : c.getTerms().anyOrder()) v = v && (ev.val(p.second.driver) != p.second.negated); return v; };
	for (size_t i = 0; i < cs.roots.size(); i++)
		for (size_t j = 0; j < cs.roots.size(); j++) {
			const auto &a = conj[i], &b = conj[j];
			Conjunction x = a; x.intersectTermsWith(b);
			out << "I " << cs.id << " " << cs.roots[i] << " " << cs.roots[j] << " " << termsStr(x, idx) << "\n";
			// the common terms are implied by a's terms and by b's terms
			if (doSem) {
				auto r1 = forAll([&]{ return !litsTrue(a) || litsTrue(x); });
				if (!r1.first) out << "SEMFAIL " << cs.id << " intersectTermsWith(a) roots " << cs.roots[i] << " " << cs.roots[j] << " assign " << r1.second.first << " unconnected " << r1.second.second << "\n";
				auto r2 = forAll([&]{ return !litsTrue(b) || litsTrue(x); });
				if (!r2.first) out << "SEMFAIL " << cs.id << " intersectTermsWith(b) roots " << cs.roots[i] << " " << cs.roots[j] << " assign " << r2.second.first << " unconnected " << r2.second.second << "\n";
			}
			// removeTerms requires b's terms to be a subset of a's (same polarity): asserted by the implementation
			bool pre = true;
			for (const auto &p : b.getTerms().anyOrder()) { auto it = a.getTerms().find(p.second.driver); if (it == a.getTerms().end() || it->second.negated != p.second.negated) pre = false; }
			if (pre) {
				Conjunction y = a; y.removeTerms(b);
				out << "R " << cs.id << " " << cs.roots[i] << " " << cs.roots[j] << " " << termsStr(y, idx) << "\n";
				if (doSem) {
					auto r3 = forAll([&]{ return litsTrue(a) == (litsTrue(y) && litsTrue(b)); });
					if (!r3.first) out << "SEMFAIL " << cs.id << " removeTerms roots " << cs.roots[i] << " " << cs.roots[j] << " assign " << r3.second.first << " unconnected " << r3.second.second << "\n";
				}
			} else out << "R " << cs.id << " " << cs.roots[i] << " " << cs.roots[j] << " pre0\n";
		}
	// parse itself against the truth table: value(root) == !contra && AND(literals)
	if (doSem)
		for (size_t i = 0; i < cs.roots.size(); i++) {
			const auto &c = conj[i];
			if (c.isUndefined()) continue;
			NodePort r = drv(cs.roots[i]);
			auto res = forAll([&]{
				bool v = !c.isContradicting();
				for (const auto &p : c.getTerms().anyOrder()) v = v && (ev.val(p.second.driver) != p.second.negated);
				return v == ev.val(r);
			});
			if (!res.first) out << "SEMFAIL " << cs.id << " parse root " << cs.roots[i] << " assign " << res.second.first << " unconnected " << res.second.second << "\n";
		}
	// build: rebuild each defined, non-contradicting conjunction and re-analyse it
	for (size_t i = 0; i < cs.roots.size(); i++) {
		const auto &c = conj[i];
		if (c.isUndefined() || c.isContradicting()) continue;
		size_t before = circuit.getNodes().size();
		NodePort o = c.build(*circuit.getRootNodeGroup(), nullptr, false);
		// newly created nodes get the next indices in creation (= id) order
		std::vector<BaseNode*> fresh;
		for (auto &n : circuit.getNodes()) if (!idx.count({.node = n.get(), .port = 0ull})) fresh.push_back(n.get());
		std::sort(fresh.begin(), fresh.end(), [](BaseNode *a, BaseNode *b){ return a->getId() < b->getId(); });
		for (auto *n : fresh) { int k = (int)idx.size(); idx[{.node = n, .port = 0ull}] = k; }
		(void)before;
		Conjunction c2; c2.parseOutput(o);
		out << "B " << cs.id << " " << cs.roots[i] << " " << (o.node ? idx.at(o) : -1) << " " << c2.isUndefined() << " " << c2.isContradicting() << " " << termsStr(c2, idx) << "\n";
		if (doSem) {
			NodePort r = drv(cs.roots[i]);
			auto res = forAll([&]{ return ev.val(o) == ev.val(r); });
			if (!res.first) out << "SEMFAIL " << cs.id << " build root " << cs.roots[i] << " assign " << res.second.first << " unconnected " << res.second.second << "\n";
		}
	}
}

int main(int argc, char **argv) {
	if (argc < 3) { std::cerr << "usage: C14_cnf <cases> <out>\n"; return 2; }
	std::ifstream in(argv[1]);
	std::ofstream out(argv[2]);
	std::string line;
	Case cur;
	size_t n = 0;
	while (std::getline(in, line)) {
		std::istringstream ls(line);
		std::string w; ls >> w;
		if (w == "case") { cur = Case(); ls >> cur.id; }
		else if (w == "roots") { int r; while (ls >> r) cur.roots.push_back(r); }
		else if (w == "end") { runCase(cur, out); n++; }
		else if (!w.empty()) { PNode p; p.kind = w; std::string a, b; if (ls >> a) p.d1 = parseDrv(a); if (ls >> b) p.d2 = parseDrv(b); cur.nodes.push_back(p); }
	}
	std::cerr << "cases " << n << "\n";
	return 0;
}
