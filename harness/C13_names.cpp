// C13 harness: (1) drives the REAL vhdl::NamespaceScope with operation sequences (T1 for the
// allocator model), (2) builds designs through the real frontend whose objects carry the
// requested names, exports them with vhdl::VHDLExport and leaves the files for the checker (T2).
//
//   C13_names alloc  <opsfile>              one result line per op
//   C13_names design <casefile> <outroot>   one status line per case, files in <outroot>/<id>/
#include "vh.h"
#include <gatery/export/vhdl/VHDLExport.h>
#include <gatery/export/vhdl/AST.h>
#include <gatery/export/vhdl/NamespaceScope.h>
#include <gatery/export/vhdl/CodeFormatting.h>
#include <gatery/frontend/SynthesisTool.h>
#include <gatery/hlim/coreNodes/Node_Pin.h>
#include <gatery/hlim/Clock.h>
#include <filesystem>
#include <map>

using namespace gtry;

// ---------------------------------------------------------------------------------------------
// alloc mode.  File format (one op per line, names never contain blanks):
//   N <parent|-1>
//   A <scope> <kind> <desired>        desired "@" stands for the empty string
// kinds: si so ci co ri ro sa sl sv sc | clk rst pin pkg ent blk pc pr ins
// Output: "N <index>"  |  "A <name>"  |  "A !" when the call threw (HCL_ASSERT)
// ---------------------------------------------------------------------------------------------
static int runAlloc(const char *opsfile)
{
	std::ifstream in(opsfile);
	if (!in) { std::cerr << "cannot open " << opsfile << "\n"; return 2; }

	hlim::Circuit circuit;
	vhdl::AST ast(new vhdl::DefaultCodeFormatting(), new DefaultSynthesisTool());
	std::vector<std::unique_ptr<vhdl::NamespaceScope>> scopes;

	static const std::map<std::string, vhdl::CodeFormatting::SignalType> sigKinds = {
		{"si", vhdl::CodeFormatting::SIG_ENTITY_INPUT}, {"so", vhdl::CodeFormatting::SIG_ENTITY_OUTPUT},
		{"ci", vhdl::CodeFormatting::SIG_CHILD_ENTITY_INPUT}, {"co", vhdl::CodeFormatting::SIG_CHILD_ENTITY_OUTPUT},
		{"ri", vhdl::CodeFormatting::SIG_REGISTER_INPUT}, {"ro", vhdl::CodeFormatting::SIG_REGISTER_OUTPUT},
		{"sa", vhdl::CodeFormatting::SIG_ATTRIBUTED_SIGNAL}, {"sl", vhdl::CodeFormatting::SIG_LOCAL_SIGNAL},
		{"sv", vhdl::CodeFormatting::SIG_LOCAL_VARIABLE}, {"sc", vhdl::CodeFormatting::SIG_CONSTANT},
	};

	std::string line;
	while (std::getline(in, line)) {
		if (line.empty()) continue;
		std::istringstream ls(line);
		std::string cmd; ls >> cmd;
		if (cmd == "N") {
			long p; ls >> p;
			if (p >= (long)scopes.size()) { std::cout << "N -\n"; continue; }   // invalid parent: ignored (model: no-op)
			scopes.push_back(std::make_unique<vhdl::NamespaceScope>(ast, p < 0 ? nullptr : scopes[p].get()));
			std::cout << "N " << scopes.size() - 1 << "\n";
		} else if (cmd == "A") {
			size_t s; std::string kind, desired; ls >> s >> kind >> desired;
			if (desired == "@") desired.clear();
			if (s >= scopes.size()) { std::cout << "A !\n"; continue; }
			auto &sc = *scopes[s];
			std::string res;
			try {
				auto it = sigKinds.find(kind);
				if (it != sigKinds.end()) {
					auto *n = circuit.createNode<hlim::Node_Signal>();
					res = sc.allocateName(hlim::NodePort{.node = n, .port = 0ull}, desired, vhdl::VHDLDataType::STD_LOGIC_VECTOR, it->second);
				} else if (kind == "clk") {
					auto *c = circuit.createClock<hlim::RootClock>("c", hlim::ClockRational(1, 1));
					res = sc.allocateName(c, desired);
				} else if (kind == "rst") {
					auto *c = circuit.createClock<hlim::RootClock>("c", hlim::ClockRational(1, 1));
					res = sc.allocateResetName(c, desired);
				} else if (kind == "pin") {
					auto *p = circuit.createNode<hlim::Node_Pin>(true, false, false);
					res = sc.allocateName(p, desired, vhdl::VHDLDataType::STD_LOGIC);
				} else if (kind == "pkg") res = sc.allocatePackageName(desired);
				else if (kind == "ent") res = sc.allocateEntityName(desired);
				else if (kind == "blk") res = sc.allocateBlockName(desired);
				else if (kind == "pc") res = sc.allocateProcessName(desired, false);
				else if (kind == "pr") res = sc.allocateProcessName(desired, true);
				else if (kind == "ins") res = sc.allocateInstanceName(desired);
				else { std::cerr << "bad kind " << kind << "\n"; return 2; }
				std::cout << "A " << res << "\n";
			} catch (const std::exception &) {
				std::cout << "A !\n";
			}
		} else { std::cerr << "bad op line: " << line << "\n"; return 2; }
	}
	return 0;
}

// ---------------------------------------------------------------------------------------------
// design mode.  One case per line:
//   D <id> <mode:S|E|P> key=value ...
// keys (all optional, defaults in brackets):
//   top[top] clk[clk] rst[reset] pi0 pi1 po0 po1 sg0..sg7 rg0 ent0 inst0[-] ar0 blk0 ent1 mem0
//   clk2[-]   second clock (registers of ent1 run on it) ; "-" = not present
//   ipc=<name>,<name>,...   interface package natural constants (only when given)
//   shape=<full|mem|tiny|late>   full: everything; mem: clock+memory only; tiny: two pins;
//                           hier: entity/area nesting shapes (hv=0..4);
//                           clksig: clocks/resets used as logic signals (ck= use= sub= gt=);
//                           clkrst: logic-driven clock / reset lines (cl= rl= dv= sub=);
//                           late: forward-declared signals read before assigned (lv=0..9, nm=0|1)
// Output: "D <id> ok <nfiles>" | "D <id> exception <what>"
// ---------------------------------------------------------------------------------------------
struct Case {
	std::string id, mode = "S";
	std::map<std::string, std::string> kv;
	std::string get(const std::string &k, const std::string &d) const { auto it = kv.find(k); return it == kv.end() ? d : it->second; }
};

static void buildFull(const Case &c)
{
	Clock clock({.absoluteFrequency = 100'000'000, .name = c.get("clk", "clk"), .resetName = c.get("rst", "reset")});
	ClockScope cs(clock);
	std::optional<Clock> clock2;
	if (c.get("clk2", "-") != "-")
		clock2.emplace(ClockConfig{.absoluteFrequency = 100'000'000, .name = c.get("clk2", "clk2"), .resetName = c.get("rst2", "reset2")});

	UInt a = pinIn(4_b).setName(c.get("pi0", "pi0"));
	UInt b = pinIn(4_b).setName(c.get("pi1", "pi1"));
	UInt s0 = a + b; s0.setName(c.get("sg0", "sg0"));
	UInt s1 = a ^ b; s1.setName(c.get("sg1", "sg1"));
	UInt x;
	{
		Area e0(c.get("ent0", "ent0"), true);
		if (c.get("inst0", "-") != "-") e0.instanceName(c.get("inst0", "-"));
		UInt t = s0 + 1; t.setName(c.get("sg2", "sg2"));
		UInt r = reg(t, 0); r.setName(c.get("rg0", "rg0"));
		{
			GroupScope ar(GroupScope::GroupType::AREA, c.get("ar0", "ar0"));
			UInt u = r ^ s1; u.setName(c.get("sg3", "sg3"));
			UInt w = u;
			IF (u == 3) w = u + 1;
			w.setName(c.get("sg4", "sg4"));
			x = reg(w);
		}
	}
	UInt y;
	{
		GroupScope blk(GroupScope::GroupType::AREA, c.get("blk0", "blk0"));
		{
			Area e1(c.get("ent1", "ent1"), true);
			y = s1 & x; y.setName(c.get("sg5", "sg5"));
			if (clock2) {
				y = reg(y);          // crossing into clock2 below would need CDC marks; keep both on clock
			} else
				y = reg(y);
		}
		UInt z = y + 1; z.setName(c.get("sg6", "sg6"));
		y = z;
	}
	Memory<UInt> mem(16, 4_b);
	mem.setName(c.get("mem0", "mem0"));
	IF (a == 1) mem[b] = a;
	UInt rd = mem[a]; rd.setName(c.get("sg7", "sg7"));
	pinOut(x).setName(c.get("po0", "po0"));
	pinOut(y ^ reg(rd)).setName(c.get("po1", "po1"));
}

static void buildMem(const Case &c)
{
	Clock clock({.absoluteFrequency = 100'000'000, .name = c.get("clk", "clk"), .resetName = c.get("rst", "reset")});
	ClockScope cs(clock);
	UInt a = pinIn(4_b).setName(c.get("pi0", "pi0"));
	UInt b = pinIn(4_b).setName(c.get("pi1", "pi1"));
	Memory<UInt> mem(16, 4_b);
	mem.setName(c.get("mem0", "mem0"));
	IF (a == 1) mem[b] = a;
	UInt rd = mem[a]; rd.setName(c.get("sg7", "sg7"));
	pinOut(reg(rd, 0)).setName(c.get("po0", "po0"));
}


// "late" family: forward-declared signals that are READ (as IF/ELSIF condition, mux selector, data)
// before they are ASSIGNED, so that consumers have lower node ids than producers and the exporter's
// readiness-ordered statement emission (Process.cpp writeVHDL) is what puts the statements into a
// legal order.  lv selects the variant; nm=1 additionally names the late objects (named signals).
static void buildLate(const Case &c)
{
	int lv = atoi(c.get("lv", "0").c_str());
	bool nm = c.get("nm", "0") == "1";
	Clock clock({.absoluteFrequency = 100'000'000, .name = c.get("clk", "clk"), .resetName = c.get("rst", "reset")});
	ClockScope cs(clock);
	Bit x = pinIn().setName(c.get("pi0", "x"));
	Bit y = pinIn().setName(c.get("pi1", "y"));
	Bit z = pinIn().setName(c.get("pi2", "z"));
	UInt a = pinIn(4_b).setName(c.get("pi3", "a"));
	UInt b = pinIn(4_b).setName(c.get("pi4", "b"));
	UInt d = pinIn(4_b).setName(c.get("pi5", "d"));
	UInt res = a;
	auto nameIt = [&](auto &sig, const char *role) { if (nm) sig.setName(c.get(role, role)); };

	switch (lv) {
	case 0: { // late IF condition (demo lateCondition)
		Bit sel;
		IF (sel) res = b;
		Bit t = x; IF (y) t = z;
		nameIt(t, "sg1");
		sel = t;
	} break;
	case 1: { // late data
		UInt late = 4_b;
		IF (y) res = late + 1;
		UInt t = b; IF (!y) t = d;
		nameIt(t, "sg1");
		late = t;
	} break;
	case 2: { // late mux selector
		UInt sel = 2_b;
		res = mux(sel, {a, b, d, a ^ b});
		UInt t = cat(x, y); IF (z) t = cat(y, x);
		nameIt(t, "sg1");
		sel = t;
	} break;
	case 3: { // late conditions in an ELSE-IF chain
		Bit s1, s2;
		IF (s1) res = b;
		ELSE { IF (s2) res = d; ELSE res = a + 1; }
		Bit t1 = x; IF (y) t1 = z;
		Bit t2 = y; IF (z) t2 = x;
		nameIt(t1, "sg1"); nameIt(t2, "sg2");
		s1 = t1; s2 = t2;
	} break;
	case 4: { // late condition nested inside another IF, both late
		Bit s1, s2;
		IF (s1) { res = b; IF (s2) res = d; }
		Bit t2 = y; IF (x) t2 = z;
		Bit t1 = x; IF (t2) t1 = y;       // t1 depends on t2
		nameIt(t1, "sg1"); nameIt(t2, "sg2");
		s1 = t1; s2 = t2;
	} break;
	case 5: { // consumer and producer in different sub-areas (processes) of one entity
		Bit sel;
		{
			GroupScope g(GroupScope::GroupType::AREA, c.get("ar0", "consumer"));
			IF (sel) res = b;
		}
		{
			GroupScope g(GroupScope::GroupType::AREA, c.get("ar1", "producer"));
			Bit t = x; IF (y) t = z;
			nameIt(t, "sg1");
			sel = t;
		}
	} break;
	case 6: { // everything inside a sub-entity
		Area e(c.get("ent0", "ent0"), true);
		Bit sel;
		UInt r2 = a;
		IF (sel) r2 = b;
		Bit t = x; IF (y) t = z;
		nameIt(t, "sg1");
		sel = t;
		res = r2;
	} break;
	case 7: { // chain of late conditions: sel1 <- f(sel2), both used before being assigned
		Bit sel1, sel2;
		UInt r1 = a; IF (sel1) r1 = b;
		UInt r2 = d; IF (sel2) r2 = r1;
		Bit t2 = z; IF (x) t2 = y;
		sel2 = t2;
		Bit t1 = y; IF (sel2) t1 = x;
		sel1 = t1;
		nameIt(t1, "sg1"); nameIt(t2, "sg2");
		res = r2;
	} break;
	case 8: { // late condition used by a register enable and as data at once
		Bit sel;
		UInt r = a;
		IF (sel) r = reg(b, 0);
		UInt q = r; IF (sel & x) q = d;
		Bit t = z; IF (y) t = x;
		nameIt(t, "sg1");
		sel = t;
		res = q;
	} break;
	default: { // late Bit used as condition AND as data (cat), plus a late vector used in a compare condition
		Bit sel; UInt late = 4_b;
		IF (sel) res = b;
		IF (late == 3) res = zext(cat(sel, x), 4_b);
		Bit t = x; IF (y) t = z;
		UInt u = b; IF (z) u = d;
		nameIt(t, "sg1"); nameIt(u, "sg2");
		sel = t; late = u;
	} break;
	}
	pinOut(res).setName(c.get("po0", "res"));
}


// "clkrst" family: clocks whose clock line and/or reset line is driven by LOGIC
// (Clock::overrideClkWith / overrideRstWith / reset(Bit)) in all pin/logic combinations, a derived
// clock of such a clock, registers in the root entity and in a sub-entity.
//   cl=<pin|logic>  rl=<pin|logic|logic2>  (logic2: Clock::reset(Bit))   dv=<0|1> derived clock   sub=<0|1>
static void buildClkRst(const Case &c)
{
	std::string cl = c.get("cl", "pin"), rl = c.get("rl", "pin");
	bool dv = c.get("dv", "0") == "1", sub = c.get("sub", "1") == "1";
	Clock clock({.absoluteFrequency = 100'000'000, .name = c.get("clk", "clk"), .resetName = c.get("rst", "reset")});
	Bit clkSrc = pinIn().setName(c.get("pi0", "clk_src"));
	Bit rstSrc = pinIn().setName(c.get("pi1", "rst_src"));
	Bit gate = pinIn().setName(c.get("pi2", "gate"));
	if (cl == "logic") {
		Bit gated = clkSrc & gate;
		if (c.get("nm", "0") == "1") gated.setName(c.get("sg0", "gated_clk"));
		clock.overrideClkWith(gated);
	}
	if (rl == "logic") {
		Bit r = rstSrc | gate;
		if (c.get("nm", "0") == "1") r.setName(c.get("sg1", "logic_rst"));
		clock.overrideRstWith(r);
	} else if (rl == "logic2")
		clock.reset(rstSrc);

	std::optional<Clock> derived;
	if (dv) derived.emplace(clock.deriveClock(ClockConfig{.name = c.get("clk2", "clk_derived"), .resetName = c.get("rst2", "rst_derived")}));

	UInt x, y, a, b;
	{
		ClockScope cs(clock);
		a = pinIn(4_b).setName(c.get("pi3", "a"));
		b = pinIn(4_b).setName(c.get("pi4", "b"));
		UInt s = a + b; s.setName(c.get("sg2", "sum"));
		x = reg(s, 0);
		x.setName(c.get("rg0", "x_reg"));
		if (sub) {
			Area e(c.get("ent0", "sub"), true);
			UInt t = x ^ a; t.setName(c.get("sg3", "t"));
			y = reg(t, 1);
		} else
			y = x;
		pinOut(x).setName(c.get("po0", "ox"));
		pinOut(y).setName(c.get("po1", "oy"));
	}
	if (derived) {
		// separate data path in the derived clock's domain (no crossing), root entity and sub-entity
		ClockScope cs2(*derived);
		UInt d = pinIn(4_b).setName(c.get("pi5", "d"));
		UInt z = reg(d + 1, 3);
		z.setName(c.get("sg4", "z"));
		if (sub) {
			Area e2(c.get("ent1", "sub_derived"), true);
			z = reg(z ^ d, 2);
		}
		pinOut(z).setName(c.get("po2", "oz"));
	}
}


// "clksig" family: clocks and resets used as LOGIC SIGNALS (Clock::clkSignal / rstSignal / reset)
//   ck=<root|fall|rattr|own|logic>  whose signal is taken: the root clock, a derived clock sharing the
//        parent's pin (falling edge / other register attributes), a derived clock with its own name and
//        multiplier (own pin), a clock whose clock line is driven by logic
//   use=<clk|rst|both|rstn>   sub=<0|1> (logic placed in a sub-entity)   gt=<0|1> gated result drives another clock
static void buildClkSig(const Case &c)
{
	std::string ck = c.get("ck", "root"), use = c.get("use", "clk");
	bool sub = c.get("sub", "0") == "1", gt = c.get("gt", "0") == "1", nm = c.get("nm", "0") == "1";
	Clock clock({.absoluteFrequency = 100'000'000, .name = c.get("clk", "clk"), .resetName = c.get("rst", "reset")});
	std::optional<Clock> other;
	if (ck == "fall") other.emplace(clock.deriveClock(ClockConfig{.triggerEvent = ClockConfig::TriggerEvent::FALLING}));
	else if (ck == "rattr") other.emplace(clock.deriveClock(ClockConfig{.resetType = ClockConfig::ResetType::ASYNCHRONOUS, .initializeRegs = false}));
	else if (ck == "own") other.emplace(clock.deriveClock(ClockConfig{.frequencyMultiplier = 2, .name = c.get("clk2", "clk_fast"), .resetName = c.get("rst2", "rst_fast")}));
	else if (ck == "logic") {
		other.emplace(Clock({.absoluteFrequency = 50'000'000, .name = c.get("clk2", "clk_logic"), .resetName = c.get("rst2", "rst_logic")}));
		Bit src = pinIn().setName(c.get("pi5", "clk_src"));
		other->overrideClkWith(src);
	}
	const Clock &used = other ? *other : clock;

	ClockScope cs(used);
	Bit en = pinIn().setName(c.get("pi0", "en"));
	UInt a = pinIn(4_b).setName(c.get("pi1", "a"));
	std::optional<Area> area;
	if (sub) area.emplace(c.get("ent0", "sub"), true);

	Bit res = en;
	if (use == "clk" || use == "both") {
		Bit cks = used.clkSignal();
		Bit g = cks & en;
		if (nm) g.setName(c.get("sg0", "clk_gated"));
		res = g;
		if (gt) {
			Clock gclk = used.deriveClock(ClockConfig{.name = c.get("clk3", "clk_g"), .resetName = c.get("rst3", "rst_g")});
			gclk.overrideClkWith(g);
			ClockScope cg(gclk);
			UInt d = pinIn(4_b).setName(c.get("pi2", "d"));
			UInt q = reg(d + 1, 0);
			q.setName(c.get("rg0", "q"));
			pinOut(q).setName(c.get("po2", "oq"));
		}
	}
	if (use == "rst" || use == "both") {
		Bit rs = used.rstSignal();
		Bit r2 = rs | en;
		if (nm) r2.setName(c.get("sg1", "rst_or_en"));
		res = (use == "both") ? (res ^ r2) : r2;
	}
	if (use == "rstn") {
		Bit rs = used.reset(Clock::ResetActive::LOW);
		res = rs & en;
	}
	UInt r = reg(a, 1);
	IF (res) r = a + 1;
	if (area) area.reset();
	pinOut(res).setName(c.get("po0", "o_sig"));
	pinOut(r).setName(c.get("po1", "o_reg"));
}


// "hier" family: hierarchy shapes that decide the design-unit order of the export
//   hv=0  top -> AREA blk -> ENTITY inner -> ENTITY leaf
//   hv=1  top -> AREA a1 -> AREA a2 -> ENTITY inner          (area in area in entity)
//   hv=2  top -> AREA b1 -> ENTITY leaf ; top -> AREA b2 -> ENTITY leaf (same name, two blocks) ; top -> ENTITY leaf
//   hv=3  top -> ENTITY mid -> AREA blk -> ENTITY inner -> AREA blk2 -> ENTITY leaf   (blocks on two levels)
//   hv=4  plain top -> ENTITY mid -> ENTITY leaf               (no area: reference shape)
static void buildHier(const Case &c)
{
	int hv = atoi(c.get("hv", "0").c_str());
	Clock clock({.absoluteFrequency = 100'000'000, .name = c.get("clk", "clk"), .resetName = c.get("rst", "reset")});
	ClockScope cs(clock);
	UInt a = pinIn(4_b).setName(c.get("pi0", "a"));
	UInt b = pinIn(4_b).setName(c.get("pi1", "b"));
	std::string eInner = c.get("ent0", "inner"), eLeaf = c.get("ent1", "leaf"), eMid = c.get("ent2", "mid");
	std::string bA = c.get("blk0", "blk"), bB = c.get("blk1", "blk2");
	auto leafLogic = [&](UInt v, unsigned k) { UInt r = reg(v + k, 0); r.setName(c.get("sg0", "leaf_sig")); return r; };
	UInt res;
	switch (hv) {
	case 0: {
		GroupScope g(GroupScope::GroupType::AREA, bA);
		Area inner(eInner, true);
		UInt t = a ^ b; t.setName(c.get("sg1", "t"));
		{ Area leaf(eLeaf, true); t = leafLogic(t, 1); }
		res = t + 1;
	} break;
	case 1: {
		GroupScope g1(GroupScope::GroupType::AREA, bA);
		UInt u = a & b; u.setName(c.get("sg1", "t"));
		{
			GroupScope g2(GroupScope::GroupType::AREA, bB);
			{ Area inner(eInner, true); u = leafLogic(u, 2); }
			u = u + 1;
		}
		res = u ^ a;
	} break;
	case 2: {
		UInt p, q, r;
		{ GroupScope g(GroupScope::GroupType::AREA, bA); { Area l(eLeaf, true); p = leafLogic(a, 1); } p = p + 1; }
		{ GroupScope g(GroupScope::GroupType::AREA, bB); { Area l(eLeaf, true); q = leafLogic(b, 2); } q = q ^ a; }
		{ Area l(eLeaf, true); r = leafLogic(a | b, 3); }
		res = p + q + r;
	} break;
	case 3: {
		Area mid(eMid, true);
		UInt m = a + b; m.setName(c.get("sg1", "t"));
		{
			GroupScope g(GroupScope::GroupType::AREA, bA);
			Area inner(eInner, true);
			UInt t = m ^ b;
			{
				GroupScope g2(GroupScope::GroupType::AREA, bB);
				{ Area leaf(eLeaf, true); t = leafLogic(t, 1); }
				t = t + 3;
			}
			m = t & a;
		}
		res = m;
	} break;
	default: {
		Area mid(eMid, true);
		UInt m = a + b;
		{ Area leaf(eLeaf, true); m = leafLogic(m, 1); }
		res = m ^ a;
	} break;
	}
	pinOut(res).setName(c.get("po0", "res"));
}

static void buildTiny(const Case &c)
{
	UInt a = pinIn(4_b).setName(c.get("pi0", "pi0"));
	UInt b = pinIn(4_b).setName(c.get("pi1", "pi1"));
	UInt s0 = a + b; s0.setName(c.get("sg0", "sg0"));
	pinOut(s0).setName(c.get("po0", "po0"));
	pinOut(a & b).setName(c.get("po1", "po1"));
}

static int runDesign(const char *casefile, const char *outroot)
{
	std::ifstream in(casefile);
	if (!in) { std::cerr << "cannot open " << casefile << "\n"; return 2; }
	std::string line;
	while (std::getline(in, line)) {
		if (line.empty() || line[0] == '#') continue;
		std::istringstream ls(line);
		std::string cmd; Case c;
		ls >> cmd >> c.id >> c.mode;
		if (cmd != "D") { std::cerr << "bad case line: " << line << "\n"; return 2; }
		std::string tok;
		while (ls >> tok) {
			auto eq = tok.find('=');
			if (eq == std::string::npos) { std::cerr << "bad token " << tok << "\n"; return 2; }
			c.kv[tok.substr(0, eq)] = tok.substr(eq + 1);
		}
		std::filesystem::path out = std::filesystem::path(outroot) / c.id;
		std::error_code ec;
		std::filesystem::remove_all(out, ec);
		std::filesystem::create_directories(out);
		try {
			DesignScope design(c.get("top", "top"));
			std::string shape = c.get("shape", "full");
			if (shape == "full") buildFull(c);
			else if (shape == "mem") buildMem(c);
			else if (shape == "late") buildLate(c);
			else if (shape == "clkrst") buildClkRst(c);
			else if (shape == "clksig") buildClkSig(c);
			else if (shape == "hier") buildHier(c);
			else buildTiny(c);
			design.postprocess();

			std::unique_ptr<vhdl::VHDLExport> v;
			if (c.mode == "S") v = std::make_unique<vhdl::VHDLExport>(out / "design.vhd");
			else v = std::make_unique<vhdl::VHDLExport>(out);
			if (c.mode == "E") v->outputMode(vhdl::OutputMode::FILE_PER_ENTITY);
			if (c.mode == "P") v->outputMode(vhdl::OutputMode::FILE_PER_PARTITION);
			v->writeProjectFile("project.txt");   // the generated compile-order list is part of what is checked
			std::string ipc = c.get("ipc", "");
			if (!ipc.empty()) {
				size_t pos = 0, k = 0;
				while (pos <= ipc.size()) {
					size_t e = ipc.find(',', pos);
					if (e == std::string::npos) e = ipc.size();
					if (e > pos) v->getInterfacePackage().addNatural(ipc.substr(pos, e - pos), ++k);
					pos = e + 1;
				}
			}
			(*v)(design.getCircuit());
			size_t n = 0;
			for (auto &e : std::filesystem::directory_iterator(out)) if (e.path().extension() == ".vhd") n++;
			std::cout << "D " << c.id << " ok " << n << "\n";
		} catch (const std::exception &e) {
			std::string w = e.what();
			for (auto &ch : w) if (ch == '\n' || ch == '\r') ch = ' ';
			std::cout << "D " << c.id << " exception " << w.substr(0, 300) << "\n";
		}
		std::cout.flush();
	}
	return 0;
}

int main(int argc, char **argv)
{
	if (argc >= 3 && std::string(argv[1]) == "alloc") return runAlloc(argv[2]);
	if (argc >= 4 && std::string(argv[1]) == "design") return runDesign(argv[2], argv[3]);
	std::cerr << "usage: C13_names alloc <ops> | design <cases> <outroot>\n";
	return 2;
}
