// C13 harness: (1) drives the REAL vhdl::NamespaceScope with operation sequences (T1 for the
// allocator model), (2) builds designs through the real frontend whose objects carry the
// requested names, exports them with vhdl::VHDLExport and leaves the files for the checker (T2).
//
//   C13_names alloc  <opsfile>              one result line per op
//   C13_names design <casefile> <outroot>   one status line per case, files in <outroot>/<id>/
#include "vh.h"
#include <gatery/export/vhdl/VHDLExport.h>
#include <gatery/export/vhdl/AST.h>
#include <gatery/export/vhdl/NamespaceScope.h>
#include <gatery/export/vhdl/CodeFormatting.h>
#include <gatery/frontend/SynthesisTool.h>
#include <gatery/hlim/coreNodes/Node_Pin.h>
#include <gatery/hlim/Clock.h>
#include <filesystem>
#include <map>

using namespace gtry;

// ---------------------------------------------------------------------------------------------
// alloc mode.  File format (one op per line, names never contain blanks):
//   N <parent|-1>
//   A <scope> <kind> <desired>        desired "@" stands for the empty string
// kinds: si so ci co ri ro sa sl sv sc | clk rst pin pkg ent blk pc pr ins
// Output: "N <index>"  |  "A <name>"  |  "A !" when the call threw (HCL_ASSERT)
// ---------------------------------------------------------------------------------------------
static int runAlloc(const char *opsfile)
{
	std::ifstream in(opsfile);
	if (!in) { std::cerr << "cannot open " << opsfile << "\n"; return 2; }

	hlim::Circuit circuit;
	vhdl::AST ast(new vhdl::DefaultCodeFormatting(), new DefaultSynthesisTool());
	std::vector<std::unique_ptr<vhdl::NamespaceScope>> scopes;

	static const std::map<std::string, vhdl::CodeFormatting::SignalType> sigKinds = {
		{"si", vhdl::CodeFormatting::SIG_ENTITY_INPUT}, {"so", vhdl::CodeFormatting::SIG_ENTITY_OUTPUT},
		{"ci", vhdl::CodeFormatting::SIG_CHILD_ENTITY_INPUT}, {"co", vhdl::CodeFormatting::SIG_CHILD_ENTITY_OUTPUT},
		{"ri", vhdl::CodeFormatting::SIG_REGISTER_INPUT}, {"ro", vhdl::CodeFormatting::SIG_REGISTER_OUTPUT},
		{"sa", vhdl::CodeFormatting::SIG_ATTRIBUTED_SIGNAL}, {"sl", vhdl::CodeFormatting::SIG_LOCAL_SIGNAL},
		{"sv", vhdl::CodeFormatting::SIG_LOCAL_VARIABLE}, {"sc", vhdl::CodeFormatting::SIG_CONSTANT},
	};

	std::string line;
	while (std::getline(in, line)) {
		if (line.empty()) continue;
		std::istringstream ls(line);
		std::string cmd; ls >> cmd;
		if (cmd == "N") {
			long p; ls >> p;
			if (p >= (long)scopes.size()) { std::cout << "N -\n"; continue; }   // invalid parent: ignored (model: no-op)
			scopes.push_back(std::make_unique<vhdl::NamespaceScope>(ast, p < 0 ? nullptr : scopes[p].get()));
			std::cout << "N " << scopes.size() - 1 << "\n";
		} else if (cmd == "A") {
			size_t s; std::string kind, desired; ls >> s >> kind >> desired;
			if (desired == "@") desired.clear();
			if (s >= scopes.size()) { std::cout << "A !\n"; continue; }
			auto &sc = *scopes[s];
			std::string res;
			try {
				auto it = sigKinds.find(kind);
				if (it != sigKinds.end()) {
					auto *n = circuit.createNode<hlim::Node_Signal>();
					res = sc.allocateName(hlim::NodePort{.node = n, .port = 0ull}, desired, vhdl::VHDLDataType::STD_LOGIC_VECTOR, it->second);
				} else if (kind == "clk") {
					auto *c = circuit.createClock<hlim::RootClock>("c", hlim::ClockRational(1, 1));
					res = sc.allocateName(c, desired);
				} else if (kind == "rst") {
					auto *c = circuit.createClock<hlim::RootClock>("c", hlim::ClockRational(1, 1));
					res = sc.allocateResetName(c, desired);
				} else if (kind == "pin") {
					auto *p = circuit.createNode<hlim::Node_Pin>(true, false, false);
					res = sc.allocateName(p, desired, vhdl::VHDLDataType::STD_LOGIC);
				} else if (kind == "pkg") res = sc.allocatePackageName(desired);
				else if (kind == "ent") res = sc.allocateEntityName(desired);
				else if (kind == "blk") res = sc.allocateBlockName(desired);
				else if (kind == "pc") res = sc.allocateProcessName(desired, false);
				else if (kind == "pr") res = sc.allocateProcessName(desired, true);
				else if (kind == "ins") res = sc.allocateInstanceName(desired);
				else { std::cerr << "bad kind " << kind << "\n"; return 2; }
				std::cout << "A " << res << "\n";
			} catch (const std::exception &) {
				std::cout << "A !\n";
			}
		} else { std::cerr << "bad op line: " << line << "\n"; return 2; }
	}
	return 0;
}

// ---------------------------------------------------------------------------------------------
// design mode.  One case per line:
//   D <id> <mode:S|E|P> key=value ...
// keys (all optional, defaults in brackets):
//   top[top] clk[clk] rst[reset] pi0 pi1 po0 po1 sg0..sg7 rg0 ent0 inst0[-] ar0 blk0 ent1 mem0
//   clk2[-]   second clock (registers of ent1 run on it) ; "-" = not present
//   ipc=<name>,<name>,...   interface package natural constants (only when given)
//   shape=<full|mem|tiny>   full: everything; mem: clock+memory only; tiny: two pins
// Output: "D <id> ok <nfiles>" | "D <id> exception <what>"
// ---------------------------------------------------------------------------------------------
struct Case {
	std::string id, mode = "S";
	std::map<std::string, std::string> kv;
	std::string get(const std::string &k, const std::string &d) const { auto it = kv.find(k); return it == kv.end() ? d : it->second; }
};

static void buildFull(const Case &c)
{
	Clock clock({.absoluteFrequency = 100'000'000, .name = c.get("clk", "clk"), .resetName = c.get("rst", "reset")});
	ClockScope cs(clock);
	std::optional<Clock> clock2;
	if (c.get("clk2", "-") != "-")
		clock2.emplace(ClockConfig{.absoluteFrequency = 100'000'000, .name = c.get("clk2", "clk2"), .resetName = c.get("rst2", "reset2")});

	UInt a = pinIn(4_b).setName(c.get("pi0", "pi0"));
	UInt b = pinIn(4_b).setName(c.get("pi1", "pi1"));
	UInt s0 = a + b; s0.setName(c.get("sg0", "sg0"));
	UInt s1 = a ^ b; s1.setName(c.get("sg1", "sg1"));
	UInt x;
	{
		Area e0(c.get("ent0", "ent0"), true);
		if (c.get("inst0", "-") != "-") e0.instanceName(c.get("inst0", "-"));
		UInt t = s0 + 1; t.setName(c.get("sg2", "sg2"));
		UInt r = reg(t, 0); r.setName(c.get("rg0", "rg0"));
		{
			GroupScope ar(GroupScope::GroupType::AREA, c.get("ar0", "ar0"));
			UInt u = r ^ s1; u.setName(c.get("sg3", "sg3"));
			UInt w = u;
			IF (u == 3) w = u + 1;
			w.setName(c.get("sg4", "sg4"));
			x = reg(w);
		}
	}
	UInt y;
	{
		GroupScope blk(GroupScope::GroupType::AREA, c.get("blk0", "blk0"));
		{
			Area e1(c.get("ent1", "ent1"), true);
			y = s1 & x; y.setName(c.get("sg5", "sg5"));
			if (clock2) {
				y = reg(y);          // crossing into clock2 below would need CDC marks; keep both on clock
			} else
				y = reg(y);
		}
		UInt z = y + 1; z.setName(c.get("sg6", "sg6"));
		y = z;
	}
	Memory<UInt> mem(16, 4_b);
	mem.setName(c.get("mem0", "mem0"));
	IF (a == 1) mem[b] = a;
	UInt rd = mem[a]; rd.setName(c.get("sg7", "sg7"));
	pinOut(x).setName(c.get("po0", "po0"));
	pinOut(y ^ reg(rd)).setName(c.get("po1", "po1"));
}

static void buildMem(const Case &c)
{
	Clock clock({.absoluteFrequency = 100'000'000, .name = c.get("clk", "clk"), .resetName = c.get("rst", "reset")});
	ClockScope cs(clock);
	UInt a = pinIn(4_b).setName(c.get("pi0", "pi0"));
	UInt b = pinIn(4_b).setName(c.get("pi1", "pi1"));
	Memory<UInt> mem(16, 4_b);
	mem.setName(c.get("mem0", "mem0"));
	IF (a == 1) mem[b] = a;
	UInt rd = mem[a]; rd.setName(c.get("sg7", "sg7"));
	pinOut(reg(rd, 0)).setName(c.get("po0", "po0"));
}

static void buildTiny(const Case &c)
{
	UInt a = pinIn(4_b).setName(c.get("pi0", "pi0"));
	UInt b = pinIn(4_b).setName(c.get("pi1", "pi1"));
	UInt s0 = a + b; s0.setName(c.get("sg0", "sg0"));
	pinOut(s0).setName(c.get("po0", "po0"));
	pinOut(a & b).setName(c.get("po1", "po1"));
}

static int runDesign(const char *casefile, const char *outroot)
{
	std::ifstream in(casefile);
	if (!in) { std::cerr << "cannot open " << casefile << "\n"; return 2; }
	std::string line;
	while (std::getline(in, line)) {
		if (line.empty() || line[0] == '#') continue;
		std::istringstream ls(line);
		std::string cmd; Case c;
		ls >> cmd >> c.id >> c.mode;
		if (cmd != "D") { std::cerr << "bad case line: " << line << "\n"; return 2; }
		std::string tok;
		while (ls >> tok) {
			auto eq = tok.find('=');
			if (eq == std::string::npos) { std::cerr << "bad token " << tok << "\n"; return 2; }
			c.kv[tok.substr(0, eq)] = tok.substr(eq + 1);
		}
		std::filesystem::path out = std::filesystem::path(outroot) / c.id;
		std::error_code ec;
		std::filesystem::remove_all(out, ec);
		std::filesystem::create_directories(out);
		try {
			DesignScope design(c.get("top", "top"));
			std::string shape = c.get("shape", "full");
			if (shape == "full") buildFull(c);
			else if (shape == "mem") buildMem(c);
			else buildTiny(c);
			design.postprocess();

			std::unique_ptr<vhdl::VHDLExport> v;
			if (c.mode == "S") v = std::make_unique<vhdl::VHDLExport>(out / "design.vhd");
			else v = std::make_unique<vhdl::VHDLExport>(out);
			if (c.mode == "E") v->outputMode(vhdl::OutputMode::FILE_PER_ENTITY);
			if (c.mode == "P") v->outputMode(vhdl::OutputMode::FILE_PER_PARTITION);
			std::string ipc = c.get("ipc", "");
			if (!ipc.empty()) {
				size_t pos = 0, k = 0;
				while (pos <= ipc.size()) {
					size_t e = ipc.find(',', pos);
					if (e == std::string::npos) e = ipc.size();
					if (e > pos) v->getInterfacePackage().addNatural(ipc.substr(pos, e - pos), ++k);
					pos = e + 1;
				}
			}
			(*v)(design.getCircuit());
			size_t n = 0;
			for (auto &e : std::filesystem::directory_iterator(out)) if (e.path().extension() == ".vhd") n++;
			std::cout << "D " << c.id << " ok " << n << "\n";
		} catch (const std::exception &e) {
			std::string w = e.what();
			for (auto &ch : w) if (ch == '\n' || ch == '\r') ch = ' ';
			std::cout << "D " << c.id << " exception " << w.substr(0, 300) << "\n";
		}
		std::cout.flush();
	}
	return 0;
}

int main(int argc, char **argv)
{
	if (argc >= 3 && std::string(argv[1]) == "alloc") return runAlloc(argv[2]);
	if (argc >= 4 && std::string(argv[1]) == "design") return runDesign(argv[2], argv[3]);
	std::cerr << "usage: C13_names alloc <ops> | design <cases> <outroot>\n";
	return 2;
}
