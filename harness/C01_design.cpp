// Circuit-level harness: interprets design programs through the real frontend, runs the real
// post processors with the pass-boundary hook dumping the netlist at every boundary, and
// records pin traces of the real reference simulator.
//
//   C01_design run <programs> <stimuli-per-design> <cycles> <outdir> [variants: pre,def,min] [hookdumps=0|1]
//
// For every design `id` and variant `v` writes <outdir>/<id>.<v>.net (final netlist dump),
// <outdir>/<id>.<v>.passes (all boundary dumps, if hookdumps) and <outdir>/<id>.<v>.trace.
#include "netdump.h"

using namespace gtry;

static std::string randBits(vh::Rng &rng, size_t w, int mode) {
	std::string s(w, '0');
	for (auto &c : s) {
		uint64_t r = rng.below(100);
		if (mode == 0) c = (r & 1) ? '1' : '0';                   // fully defined
		else if (mode == 1) c = r < 15 ? 'X' : (r & 1) ? '1' : '0';  // some undefined
		else c = r < 60 ? 'X' : (r & 1) ? '1' : '0';              // mostly undefined
	}
	return s.empty() ? std::string("") : s;
}

int main(int argc, char **argv) {
	if (argc < 6) { std::cerr << "usage\n"; return 2; }
	std::string mode = argv[1];
	std::ifstream pin(argv[2]);
	// replay mode: argv[3] = file with lines "<design-id> <cyc0>;<cyc1>;..." (per cycle comma separated pin values), argv[4] ignored
	std::map<std::string, std::vector<std::vector<std::string>>> fixedStim;
	size_t nStim = 0, cycles = 0;
	if (mode == "replay") {
		std::ifstream sf(argv[3]); std::string line;
		while (std::getline(sf, line)) {
			std::istringstream ls(line); std::string id, rest; ls >> id >> rest;
			std::vector<std::vector<std::string>> st;
			std::istringstream cs(rest); std::string cyc;
			while (std::getline(cs, cyc, ';')) {
				std::vector<std::string> pins; std::istringstream ps(cyc); std::string pv;
				while (std::getline(ps, pv, ',')) pins.push_back(pv == "e" ? std::string("") : pv);
				st.push_back(pins);
			}
			fixedStim[id] = st;
		}
	} else { nStim = std::stoull(argv[3]); cycles = std::stoull(argv[4]); }
	std::string outdir = argv[5];
	std::string variants = argc > 6 ? argv[6] : "pre,def,min";
	bool hookDumps = argc > 7 ? atoi(argv[7]) : 0;
	auto programs = nd::readPrograms(pin);
	uint64_t seed = vh::envSeed();
	size_t done = 0;
	for (auto &prog : programs) {
		for (std::string v : {"pre", "def", "min"}) {
			if (variants.find(v) == std::string::npos) continue;
			std::string base = outdir + "/" + prog.id + "." + v;
			std::ofstream net(base + ".net"), trace(base + ".trace");
			std::ofstream passes;
			if (hookDumps && v != "pre") passes.open(base + ".passes");
			try {
				DesignScope design;
				// optional `clockcfg rst=sync|async|none act=high|low` statement selects the reset behaviour of the one clock
				ClockConfig ccfg; ccfg.absoluteFrequency = hlim::ClockRational(100'000'000, 1);
				for (auto &st : prog.stmts) if (st[0] == "clockcfg") for (size_t i = 1; i < st.size(); i++) {
					if (st[i] == "rst=async") ccfg.resetType = ClockConfig::ResetType::ASYNCHRONOUS;
					else if (st[i] == "rst=none") ccfg.resetType = ClockConfig::ResetType::NONE;
					else if (st[i] == "rst=sync") ccfg.resetType = ClockConfig::ResetType::SYNCHRONOUS;
					else if (st[i] == "act=low") ccfg.resetActive = ClockConfig::ResetActive::LOW;
					else if (st[i] == "act=high") ccfg.resetActive = ClockConfig::ResetActive::HIGH;
				}
				Clock clock(ccfg);
				ClockScope cs(clock);
				nd::Interp in;
				in.run(prog);
				if (in.dropAll) in.b.vars.clear();
				size_t boundary = 0;
				if (v != "pre") {
					if (hookDumps)
						hlim::g_verifPassHook = [&](hlim::Circuit &c, const char *name) {
							nd::dumpNetlist(c, passes, prog.id + "." + v + " " + std::to_string(boundary++) + " " + name, true);
						};
					if (v == "def") design.postprocess();
					else design.getCircuit().postprocess(hlim::MinimalPostprocessing{});
					hlim::g_verifPassHook = nullptr;
				}
				nd::dumpNetlist(design.getCircuit(), net, prog.id + "." + v, true);
				// stimuli are a function of (seed, design id hash, stimulus index) only: identical for all variants
				auto pins = nd::findPins(design.getCircuit());
				if (mode == "replay") {
					auto it = fixedStim.find(prog.id);
					if (it != fixedStim.end())
						nd::runTrace(design.getCircuit(), hlim::ClockRational(1, 100'000'000), it->second, trace, prog.id + "." + v + " replay");
				}
				for (size_t k = 0; k < nStim; k++) {
					std::string stimKey = prog.id;   // twins share their stimuli through an explicit `stimkey` statement
					for (auto &st : prog.stmts) if (st[0] == "stimkey" && st.size() > 1) stimKey = st[1];
					vh::Rng rng(seed * 1000003ull + std::hash<std::string>{}(stimKey) * 31ull + k);
					int mode = k % 3;
					std::vector<std::vector<std::string>> stim(cycles);
					for (auto &cyc : stim) for (auto *p : pins.ins) cyc.push_back(randBits(rng, p->getConnectionType().width, mode));
					nd::runTrace(design.getCircuit(), hlim::ClockRational(1, 100'000'000), stim, trace, prog.id + "." + v + " " + std::to_string(k));
				}
				done++;
			} catch (const std::exception &e) {
				hlim::g_verifPassHook = nullptr;
				std::string msg = e.what(); for (auto &c : msg) if (c == '\n') c = ' ';
				trace << "SKIP " << prog.id << "." << v << " " << msg.substr(0, 300) << "\n";
				net << "SKIP " << prog.id << "." << v << "\n";
			}
		}
	}
	std::cerr << "built " << done << " design variants\n";
	return 0;
}
