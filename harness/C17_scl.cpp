// C17 harness: instantiates the real scl generators through the gatery frontend, simulates
// them with sim::ReferenceSimulator and prints one canonical result line per case.
//
//   C17_scl <casefile>            reads lines  "<prim> <params...> : <operands...>"
//                                 prints       "<same line> -> <outputs...>"
//
// Consecutive lines with the same "<prim> <params...>" head share one design (one
// DesignScope/postprocess); combinational primitives drive all their operand tuples through
// one simulation process; sequential primitives (one line = one trace, operands of one cycle
// joined by ',') get a fresh simulator (power-on state) per line.
// All values are lower-case hex without prefix; an output with any undefined bit prints X.
#include "vh.h"
#include <gatery/scl/math.h>
#include <gatery/scl/utils/OneHot.h>
#include <gatery/scl/utils/BitCount.h>
#include <gatery/scl/utils/Thermometric.h>
#include <gatery/scl/Adder.h>
#include <gatery/scl/Counter.h>
#include <gatery/scl/crc.h>
#include <gatery/scl/cdc.h>
#include <functional>
#include <optional>

using namespace gtry;

// ---------------------------------------------------------------- hex helpers
static std::string hexToBits(const std::string &hex, size_t w) // MSB first, width w
{
	std::string b;
	for (char c : hex) {
		int v = (c >= '0' && c <= '9') ? c - '0' : (c >= 'a' && c <= 'f') ? c - 'a' + 10 : (c >= 'A' && c <= 'F') ? c - 'A' + 10 : -1;
		if (v < 0) { fprintf(stderr, "bad hex '%s'\n", hex.c_str()); exit(3); }
		for (int k = 3; k >= 0; k--) b.push_back(((v >> k) & 1) ? '1' : '0');
	}
	if (b.size() < w) b = std::string(w - b.size(), '0') + b;
	if (b.size() > w) {
		for (size_t i = 0; i < b.size() - w; i++)
			if (b[i] != '0') { fprintf(stderr, "operand %s wider than %zu bits\n", hex.c_str(), w); exit(3); }
		b = b.substr(b.size() - w);
	}
	return b;
}

static std::string bitsToHex(const std::string &bits) // MSB first
{
	for (char c : bits) if (c == 'X') return "X";
	std::string b = bits;
	while (b.size() % 4) b = "0" + b;
	std::string h;
	for (size_t i = 0; i < b.size(); i += 4) {
		int v = 0;
		for (int k = 0; k < 4; k++) v = v * 2 + (b[i + k] == '1');
		h.push_back("0123456789abcdef"[v]);
	}
	size_t p = h.find_first_not_of('0');
	if (p == std::string::npos) return "0";
	return h.substr(p);
}

static std::vector<std::string> split(const std::string &s, char sep)
{
	std::vector<std::string> r; std::string cur;
	for (char c : s) { if (c == sep) { if (!cur.empty()) r.push_back(cur); cur.clear(); } else cur.push_back(c); }
	if (!cur.empty()) r.push_back(cur);
	return r;
}

// ---------------------------------------------------------------- design under test
struct Dut {
	std::vector<std::pair<std::optional<InputPins>, size_t>> ins;  // vector inputs with width (nullopt: operand present in the case line but not connected)
	std::vector<OutputPins> outs;
	std::vector<OutputPin> bitOuts;                  // printed after outs
	std::vector<size_t> outOrder;                    // 0.. => outs index, (1<<20)+k => bitOuts index
	UInt in(size_t w, const char *name) {
		HCL_DESIGNCHECK_HINT(w > 0, "zero width operand");
		InputPins p = pinIn(BitWidth{ w }).setName(name);
		ins.push_back({ p, w });
		return (UInt)p;
	}
	void skip() { ins.push_back({ std::nullopt, 0 }); }
	template<class T> void out(const T &v, const char *name) { outOrder.push_back(outs.size()); outs.push_back(pinOut(v).setName(name)); }
	void outBit(const Bit &v, const char *name) { outOrder.push_back((1u << 20) + bitOuts.size()); bitOuts.push_back(pinOut(v).setName(name)); }
	// zero-width results cannot be pinned out; they print as 0
	void outMaybeEmpty(const UInt &v, const char *name) { if (v.size() == 0) outOrder.push_back(~size_t(0)); else out(v, name); }
};

using P = std::vector<uint64_t>;
typedef std::function<void(Dut &, const P &)> Builder;

static std::string readOutputs(const Dut &d)
{
	std::string r;
	for (size_t o : d.outOrder) {
		if (!r.empty()) r += " ";
		if (o == ~size_t(0)) r += "0";
		else if (o >= (1u << 20)) r += bitsToHex(vh::bits(simu(d.bitOuts[o - (1u << 20)]).eval()));
		else r += bitsToHex(vh::bits(simu(d.outs[o]).eval()));
	}
	return r;
}

static void driveInputs(const Dut &d, const std::vector<std::string> &ops, const std::string &ctx)
{
	if (ops.size() != d.ins.size()) { fprintf(stderr, "operand count mismatch in '%s' (%zu vs %zu)\n", ctx.c_str(), ops.size(), d.ins.size()); exit(3); }
	for (size_t k = 0; k < ops.size(); k++)
		if (d.ins[k].first)
			simu(*d.ins[k].first) = vh::fromBits(hexToBits(ops[k], d.ins[k].second));
}

// ---------------------------------------------------------------- builders
static std::map<std::string, std::pair<bool, Builder>> &registry()
{
	static std::map<std::string, std::pair<bool, Builder>> r;
	return r;
}
struct Registrar { Registrar(const char *n, bool seq, Builder b) { registry()[n] = { seq, b }; } };

#define COMB(name) static void build_##name(Dut &d, const P &p); static Registrar reg_##name(#name, false, build_##name); static void build_##name(Dut &d, const P &p)
#define SEQ(name)  static void build_##name(Dut &d, const P &p); static Registrar reg_##name(#name, true,  build_##name); static void build_##name(Dut &d, const P &p)

COMB(bitcount) { UInt x = d.in(p[0], "x"); d.out(scl::bitcount(x), "count"); }
COMB(decoder)  { UInt x = d.in(p[0], "x"); UInt r = scl::decoder(x); d.out(r, "onehot"); }
COMB(encoder)  { UInt x = d.in(p[0], "x"); UInt r = scl::encoder(scl::OneHot(x)); d.outMaybeEmpty(r, "idx"); }
COMB(prienc)   { UInt x = d.in(p[0], "x"); auto r = scl::priorityEncoder(x); d.outMaybeEmpty(*r, "idx"); d.outBit(valid(r), "valid"); }
COMB(pritree)  { UInt x = d.in(p[0], "x"); auto r = scl::priorityEncoderTree(x, false, p[1]); d.outMaybeEmpty(*r, "idx"); d.outBit(valid(r), "valid"); }
SEQ(pritreereg){ UInt x = d.in(p[0], "x"); auto r = scl::priorityEncoderTree(x, true, p[1]); d.outMaybeEmpty(*r, "idx"); d.outBit(valid(r), "valid"); }
COMB(clz)      { UInt x = d.in(p[0], "x"); d.out(scl::countLeadingZeros((BVec)x), "clz"); }
COMB(thermo)   { UInt x = d.in(p[0], "x"); d.out(scl::uintToThermometric(x), "t"); }
COMB(thermow)  { UInt x = d.in(p[0], "x"); d.out(scl::uintToThermometric(x, BitWidth{ p[1] }), "t"); }
COMB(unthermo) { UInt x = d.in(p[0], "x"); d.out(scl::thermometricToUInt((BVec)x), "u"); }
COMB(grayenc)  { UInt x = d.in(p[0], "x"); d.out(scl::grayEncode(x), "g"); }
COMB(graydec)  { UInt x = d.in(p[0], "g"); d.out(scl::grayDecode((BVec)x), "x"); }
COMB(grayrt)   { UInt x = d.in(p[0], "x"); d.out(scl::grayDecode(scl::grayEncode(x)), "x2"); }
COMB(min)      { UInt a = d.in(p[0], "a"); UInt b = d.in(p[0], "b"); d.out(scl::min(a, b), "m"); }
COMB(max)      { UInt a = d.in(p[0], "a"); UInt b = d.in(p[0], "b"); d.out(scl::max(a, b), "m"); }
COMB(smin)     { SInt a = (SInt)d.in(p[0], "a"); SInt b = (SInt)d.in(p[0], "b"); d.out(scl::min(a, b), "m"); }
COMB(smax)     { SInt a = (SInt)d.in(p[0], "a"); SInt b = (SInt)d.in(p[0], "b"); d.out(scl::max(a, b), "m"); }
COMB(bpo2)     { UInt x = d.in(p[0], "x"); d.out(scl::biggestPowerOfTwo(x), "y"); }
COMB(ldiv)     { UInt n = d.in(p[0], "n"); UInt dn = d.in(p[1], "d"); d.out(scl::longDivision(n, dn, 0), "q"); }
COMB(sldiv)    { SInt n = (SInt)d.in(p[0], "n"); UInt dn = d.in(p[1], "d"); d.out(scl::longDivision(n, dn, 0), "q"); }
SEQ(ldivp)     {
	UInt n = d.in(p[0], "n"); UInt dn = d.in(p[1], "d");
	pipeinputgroup(n, dn);
	d.out(scl::longDivision(n, dn, p[2]), "q");
}
COMB(addc)     { UInt a = d.in(p[0], "a"); UInt b = d.in(p[0], "b"); UInt c = d.in(1, "cin"); auto [s, co] = scl::add(a, b, c[0]); d.out(s, "sum"); d.out(co, "cout"); }
COMB(addcs)    { UInt a = d.in(p[0], "a"); UInt b = d.in(p[0], "b"); UInt c = d.in(p[0], "c"); auto [s, co] = scl::addCarrySave(a, b, c); d.out(s, "sum"); d.out(co, "carry"); }
COMB(csa)      {
	scl::CarrySafeAdder adder;
	for (size_t k = 0; k < p[1]; k++) { UInt a = d.in(p[0], ("a" + std::to_string(k)).c_str()); adder += a; }
	d.out(adder.sum(), "sum");
	d.out(adder.intermediateSum(), "isum");
	if (p[1] >= 2) d.out(adder.intermediateCarry(), "icarry");
}
COMB(crc)      { UInt r = d.in(p[0], "rem"); UInt dt = d.in(p[1], "data"); UInt pl = d.in(p[2], "poly"); d.out(scl::crc(r, dt, pl), "out"); }
// crcst <crcW> <dataW> <nWords> : poly init xorout revData revCrc word_1 .. word_n -> checksum
COMB(crcst)    {
	UInt poly = d.in(p[0], "poly"); UInt init = d.in(p[0], "init"); UInt xo = d.in(p[0], "xorout");
	UInt rd = d.in(1, "revData"); UInt rc = d.in(1, "revCrc");
	scl::CrcState st{ .params = scl::CrcParams{ .polynomial = poly, .initialRemainder = init, .reverseData = rd[0], .reverseCrc = rc[0], .xorOut = xo } };
	st.init();
	for (size_t k = 0; k < p[2]; k++) { UInt w = d.in(p[1], ("w" + std::to_string(k)).c_str()); st.update(w); }
	d.out(st.checksum(), "checksum");
}
// crcwk <presetIndex> <dataW> <nWords> : word_1 .. word_n -> checksum   (CrcParams::init presets)
COMB(crcwk)    {
	scl::CrcState st{ .params = scl::CrcParams::init((scl::CrcWellKnownParams)p[0]) };
	st.init();
	for (size_t k = 0; k < p[2]; k++) { UInt w = d.in(p[1], ("w" + std::to_string(k)).c_str()); st.update(w); }
	d.out(st.checksum(), "checksum");
}

// counters: per cycle operands  inc,dec,load,loadValue[,end]  ->  value,last,first,becomesFirst
static void counterIO(Dut &d, scl::Counter &c, size_t w, bool useIncDec)
{
	UInt inc = d.in(1, "inc"); UInt dec = d.in(1, "dec"); UInt ld = d.in(1, "load"); UInt lv = d.in(w, "loadValue");
	if (useIncDec) {
		IF(inc[0]) c.inc();
		IF(dec[0]) c.dec();
	}
	IF(ld[0]) c.load(lv);
	d.out(c.value(), "value"); d.outBit(c.isLast(), "last"); d.outBit(c.isFirst(), "first"); d.outBit(c.becomesFirst(), "becomesFirst");
}
// cntend <end> <resetValue> <useIncDec>
SEQ(cntend)  { scl::Counter c((size_t)p[0], (size_t)p[1]); counterIO(d, c, c.value().size(), p[2]); }
// cntw <width> <resetValue> <useIncDec>
SEQ(cntw)    { scl::Counter c(BitWidth{ p[0] }, (size_t)p[1]); counterIO(d, c, p[0], p[2]); }
// cntdyn <width> <resetValue> <useIncDec> : inc,dec,load,loadValue,end
SEQ(cntdyn)  {
	// the dynamic end must be created before the counter; it is the LAST operand of each cycle
	InputPins pe = pinIn(BitWidth{ p[0] }).setName("end");
	scl::Counter c((UInt)pe, (size_t)p[1]);
	counterIO(d, c, p[0], p[2]);
	d.ins.push_back({ pe, (size_t)p[0] });
}
// updown <width> <resetValue> : inc,dec,reset -> value
SEQ(updown)  {
	UInt inc = d.in(1, "inc"); UInt dec = d.in(1, "dec"); UInt rs = d.in(1, "reset");
	d.out(scl::counterUpDown(inc[0], dec[0], rs[0], BitWidth{ p[0] }, (size_t)p[1]), "value");
}

// Counter usage variants.
// cntv <ctor> <endOrWidth> <resetValue> <bind> <scope> <ldkind> : inc,dec,en,load,loadValue[,end]
//   ctor   0 Counter(size_t end)   1 Counter(BitWidth)   2 Counter(UInt end) (end = last operand of a cycle)
//   bind   bit0: inc() is called somewhere, bit1: dec() is called somewhere (0 = free running)
//   scope  0 IF(inc) c.inc(); IF(dec) c.dec();          1 unconditional calls
//          2 IF(en) { IF(inc) c.inc(); IF(dec) c.dec(); }   3 IF(en) { IF(inc) c.inc(); } ELSE { IF(dec) c.dec(); }
//          4 IF(en) { c.inc(); c.dec(); }                    5 two call sites each: IF(inc) c.inc(); IF(en) c.inc(); ...
//   ldkind 0 none   1 IF(load) c.load(loadValue)   2 IF(load) c.reset()   3 IF(en) IF(load) c.load(loadValue)
SEQ(cntv) {
	size_t ctor = p[0], E = p[1], rv = p[2], bind = p[3], scope = p[4], ldk = p[5];
	const bool bi = bind & 1, bd = bind & 2;
	std::optional<InputPins> pe;
	std::unique_ptr<scl::Counter> cp;
	if (ctor == 0) cp = std::make_unique<scl::Counter>((size_t)E, (size_t)rv);
	else if (ctor == 1) cp = std::make_unique<scl::Counter>(BitWidth{ E }, (size_t)rv);
	else { pe = pinIn(BitWidth{ E }).setName("end"); cp = std::make_unique<scl::Counter>((UInt)*pe, (size_t)rv); }
	scl::Counter &c = *cp;
	const size_t w = c.value().size();
	UInt inc = d.in(1, "inc"); UInt dec = d.in(1, "dec"); UInt en = d.in(1, "en"); UInt ld = d.in(1, "load");
	UInt lv = ConstUInt(0, BitWidth{ w });
	if (w > 0) lv = d.in(w, "loadValue"); else d.skip();   // Counter(1): zero-width value
	switch (scope) {
	case 0: if (bi) { IF(inc[0]) c.inc(); } if (bd) { IF(dec[0]) c.dec(); } break;
	case 1: if (bi) c.inc(); if (bd) c.dec(); break;
	case 2: IF(en[0]) { if (bi) { IF(inc[0]) c.inc(); } if (bd) { IF(dec[0]) c.dec(); } } break;
	case 3: IF(en[0]) { if (bi) { IF(inc[0]) c.inc(); } } ELSE { if (bd) { IF(dec[0]) c.dec(); } } break;
	case 4: IF(en[0]) { if (bi) c.inc(); if (bd) c.dec(); } break;
	default:
		if (bi) { IF(inc[0]) c.inc(); IF(en[0]) c.inc(); }
		if (bd) { IF(dec[0]) c.dec(); IF(en[0]) c.dec(); }
		break;
	}
	switch (ldk) {
	case 1: IF(ld[0]) c.load(lv); break;
	case 2: IF(ld[0]) c.reset(); break;
	case 3: IF(en[0]) { IF(ld[0]) c.load(lv); } break;
	default: break;
	}
	d.outMaybeEmpty(c.value(), "value"); d.outBit(c.isLast(), "last"); d.outBit(c.isFirst(), "first"); d.outBit(c.becomesFirst(), "becomesFirst");
	if (pe) d.ins.push_back({ *pe, (size_t)E });
}
// scl::Adder<UInt>: adder <w> <k> : a_1 .. a_k -> sum     (operator+= chain)
COMB(adder) {
	scl::Adder<UInt> a;
	for (size_t k = 0; k < p[1]; k++) { UInt x = d.in(p[0], ("a" + std::to_string(k)).c_str()); if (k & 1) a += x; else a.add(x); }
	d.out(a.sum(), "sum");
}
// uintToThermometric(in, size_t inMaxValue)
COMB(thermom) { UInt x = d.in(p[0], "x"); d.out(scl::uintToThermometric(x, (size_t)p[1]), "t"); }
// CrcState with words of different widths: crcmx <crcW> <w1> <w2> <w3> : poly init xorout revData revCrc d1 d2 d3
COMB(crcmx) {
	UInt poly = d.in(p[0], "poly"); UInt init = d.in(p[0], "init"); UInt xo = d.in(p[0], "xorout");
	UInt rd = d.in(1, "revData"); UInt rc = d.in(1, "revCrc");
	scl::CrcState st{ .params = scl::CrcParams{ .polynomial = poly, .initialRemainder = init, .reverseData = rd[0], .reverseCrc = rc[0], .xorOut = xo } };
	st.init();
	for (size_t k = 1; k < p.size(); k++) { UInt w = d.in(p[k], ("w" + std::to_string(k)).c_str()); st.update(w); }
	d.out(st.checksum(), "checksum");
}

// ---------------------------------------------------------------- runner
struct Line { std::string raw; std::vector<std::string> ops; };

static void runGroup(const std::string &prim, const P &params, const std::vector<Line> &lines)
{
	auto it = registry().find(prim);
	if (it == registry().end()) { fprintf(stderr, "unknown primitive %s\n", prim.c_str()); exit(3); }
	bool seq = it->second.first;
	std::vector<std::string> results(lines.size());
	try {
		DesignScope design;
		Clock clock({ .absoluteFrequency = 100'000'000 });
		ClockScope cs(clock);
		Dut d;
		it->second.second(d, params);
		design.postprocess();

		if (!seq) {
			sim::ReferenceSimulator s(false);
			s.addSimulationProcess([&]() -> SimProcess {
				for (size_t li = 0; li < lines.size(); li++) {
					driveInputs(d, lines[li].ops, lines[li].raw);
					co_await WaitFor({ 1, 1000000000 });
					results[li] = readOutputs(d);
				}
				s.abort();
			});
			s.compileProgram(design.getCircuit());
			s.powerOn();
			s.advance({ 1, 1 });
		} else {
			for (size_t li = 0; li < lines.size(); li++) {
				sim::ReferenceSimulator s(false);
				std::string res;
				s.addSimulationProcess([&]() -> SimProcess {
					for (const std::string &cyc : lines[li].ops) {
						driveInputs(d, split(cyc, ','), lines[li].raw);
						co_await WaitFor({ 1, 1000000000 });
						std::string o = readOutputs(d);
						for (char &c : o) if (c == ' ') c = ',';
						if (!res.empty()) res += " ";
						res += o;
						co_await OnClk(clock);
					}
					s.abort();
				});
				s.compileProgram(design.getCircuit());
				s.powerOn();
				s.advance({ 1, 1 });
				results[li] = res;
			}
		}
	} catch (const std::exception &e) {
		std::string msg = e.what();
		for (char &c : msg) if (c == '\n' || c == '\r') c = ' ';
		if (msg.size() > 160) msg.resize(160);
		for (size_t li = 0; li < lines.size(); li++) if (results[li].empty()) results[li] = "EXCEPTION " + msg;
	}
	for (size_t li = 0; li < lines.size(); li++)
		std::cout << lines[li].raw << " -> " << results[li] << "\n";
}

int main(int argc, char **argv)
{
	if (argc < 2) { fprintf(stderr, "usage: C17_scl <casefile>\n"); return 3; }
	std::ifstream f(argv[1]);
	if (!f) { fprintf(stderr, "cannot open %s\n", argv[1]); return 3; }
	std::string line, curHead; std::string curPrim; P curParams; std::vector<Line> cur;
	auto flush = [&]() { if (!cur.empty()) runGroup(curPrim, curParams, cur); cur.clear(); };
	while (std::getline(f, line)) {
		if (line.empty() || line[0] == '#') continue;
		size_t c = line.find(" : ");
		std::string head = c == std::string::npos ? line : line.substr(0, c);
		std::string tail = c == std::string::npos ? "" : line.substr(c + 3);
		if (head != curHead) {
			flush();
			curHead = head;
			auto toks = split(head, ' ');
			curPrim = toks[0]; curParams.clear();
			for (size_t i = 1; i < toks.size(); i++) curParams.push_back(strtoull(toks[i].c_str(), nullptr, 10));
		}
		cur.push_back({ line, split(tail, ' ') });
	}
	flush();
	return 0;
}
