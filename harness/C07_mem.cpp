// C07 harness: builds memories through the REAL frontend (gtry::Memory<UInt>, mem[addr] read ports,
// IF(we) mem[addr] = data write ports in a declared order, registered read data for latency L,
// setType / noConflicts / initZero / fillPowerOnState, optional target device), drives them cycle by
// cycle in the reference simulator and logs the port inputs and the read data of every cycle.
//
//   C07_mem run <cases-file> <out-file>
//
// cases-file: one design per `M` line (key=value tokens), optionally followed by explicit stimulus lines
//   M id=c0 depth=5 width=3 type=M lat=1 nc=0 init=zero iseed=7 clk=PS dev=none pp=1 exact=0
//     ports=R0,W1:p,W0:r0+ ncyc=40 stim=mix seed=123 xs=0
//   s <a0> <a1> .. W <en0> <din0> <en1> <din1> ..      (only for stim=explicit; MSB-first 0/1/X strings)
//
//   ports (declaration order):  R<a>       read port, address pin <a>
//                               E<a>       read port built by hand with an `enable` pin (pp=0 only)
//                               N<a>       read port whose L read-latency registers sit under ENIF(<own pin>): read enable
//                               W<a>:<src> write port under IF(we): address pin <a>, own enable + data pin
//                               A<a>:<src> write port without IF (always enabled)
//                               V<a>:<src> write port with wrEnable (IF) and an additional `enable` pin (pp=0 only)
//                               <src> = p (data pin)  |  r<k>+ / r<k>^  (async data of the k-th read port  op  data pin)
//                               W<a>:<src>:<mode><k><rel><x>  write enable computed from read data: cond = (async data of read port k)
//                                 <rel> x, rel = l (<) e (==) n (!=), x = d (the data pin) or a decimal constant;
//                                 mode o: IF(cond) (no enable pin, logged as 1), a: IF(pin & cond), r: IF(pin | cond)
//   clk: first char P = initializeMemory (power-on contents honoured) / - ; second char memoryResetType S = SYNCHRONOUS,
//        A = ASYNCHRONOUS (reset logic initialises the memory after postprocessing) / N = NONE; optional third char reset
//        polarity H / L (resetActive), fourth char resetType of the registers S / A, then the number of cycles the reset is
//        held beyond depth + 2
//   init: none | zero (initZero) | fill | part (fillPowerOnState, whole / first half) | rlogic (addResetLogic: word a = 3a+1;
//        the contents exist only through the generated reset logic)
//
// out-file, per case:
//   M <echo> | L=<read latency used> abits=<address pin width> words=<w0,w1,..> (declared contents, MSB first, X = undefined)
//   p A <a..> W <en din ..> O <out..>     the cycle(s) executed with the idle inputs while leaving reset (outputs informative)
//   c A <a..> W <en din ..> O <out..> [P <addr>:<enable>:<wrEnable> ..]
//                                          one line per clock cycle: pin values of the cycle, read data pins sampled at its end;
//                                          P (pp=1, ordered memories): the values driving every write port of the memory after
//                                          postprocessing (hardware has no commit order: collisions must be resolved by logic)
//   E <id>                                 case complete      |   X <id> <what>   exception from the library
// For V ports the W group carries <en&> <din> <en2>; for E ports the address group is followed by G <en..> (one per E port).
#include "vh.h"
#include <gatery/scl/arch/intel/IntelDevice.h>
#include <gatery/scl/arch/xilinx/XilinxDevice.h>
#include <gatery/hlim/supportNodes/Node_MemPort.h>
#include <gatery/hlim/supportNodes/Node_Memory.h>
#include <map>
#include <functional>
#include <algorithm>
#include <gatery/hlim/supportNodes/Node_External.h>
#include <gatery/hlim/NodeGroup.h>

using namespace gtry;

namespace {

struct PortDesc {
	char kind = 'R';   // R E W A V
	int addrPin = 0;
	int rmwSrc = -1;   // index among read ports
	char op = 'p';     // p + ^
	// data dependent write enable (third ':' field  <mode><k><rel><operand>):
	char condMode = '-';   // o: IF(cond)   a: IF(pin & cond)   r: IF(pin | cond)
	int condSrc = 0;       // read port whose asynchronous data is compared
	char condRel = 'l';    // l: elem < x   e: elem == x   n: elem != x
	bool condData = false; // x = the port's data pin (else the constant)
	uint64_t condConst = 0;
};

struct Case {
	std::map<std::string, std::string> kv;
	std::string line;
	std::vector<std::string> stim; // explicit stimulus lines
	std::string get(const std::string &k, const std::string &d = "") const { auto it = kv.find(k); return it == kv.end() ? d : it->second; }
	long num(const std::string &k, long d = 0) const { auto it = kv.find(k); return it == kv.end() ? d : atol(it->second.c_str()); }
};

std::vector<std::string> split(const std::string &s, char sep)
{
	std::vector<std::string> r; std::string cur;
	for (char c : s) { if (c == sep) { r.push_back(cur); cur.clear(); } else cur += c; }
	r.push_back(cur);
	return r;
}

std::vector<PortDesc> parsePorts(const std::string &s)
{
	std::vector<PortDesc> ps;
	for (auto &tok : split(s, ',')) {
		if (tok.empty()) continue;
		PortDesc p; p.kind = tok[0];
		auto parts = split(tok.substr(1), ':');
		p.addrPin = atoi(parts[0].c_str());
		if (parts.size() > 1 && !parts[1].empty() && parts[1][0] == 'r') {
			p.rmwSrc = atoi(parts[1].c_str() + 1);
			p.op = parts[1].back();
		}
		if (parts.size() > 2 && parts[2].size() >= 4) {
			const std::string &c = parts[2];
			p.condMode = c[0]; p.condSrc = c[1] - '0'; p.condRel = c[2];
			if (c[3] == 'd') p.condData = true; else p.condConst = strtoull(c.c_str() + 3, nullptr, 10);
		}
		ps.push_back(p);
	}
	return ps;
}

struct XMem : Memory<UInt> {
	using Memory<UInt>::Memory;
	hlim::Node_Memory *node() { return m_memoryNode; }
};

std::string randBits(vh::Rng &rng, size_t n, bool xs)
{
	std::string s(n, '0');
	for (auto &c : s) { c = rng.coin() ? '1' : '0'; if (xs && rng.below(8) == 0) c = 'X'; }
	return s;
}

std::string numBits(uint64_t v, size_t n)
{
	std::string s(n, '0');
	for (size_t i = 0; i < n; i++) if ((v >> i) & 1) s[n - 1 - i] = '1';
	return s;
}

struct Stim { std::vector<std::string> addr; std::vector<std::string> gen; std::vector<std::array<std::string, 3>> wr; };

std::unique_ptr<TargetTechnology> mkDevice(const std::string &dev)
{
	if (dev == "none") return {};
	if (dev == "arria10" || dev == "cyclone10" || dev == "agilex" || dev == "stratix10" || dev == "max10") {
		auto d = std::make_unique<scl::IntelDevice>();
		if (dev == "arria10") d->setupArria10();
		else if (dev == "cyclone10") d->setupCyclone10();
		else if (dev == "agilex") d->setupAgilex();
		else if (dev == "stratix10") d->setupStratix10();
		else d->setupMAX10();
		return d;
	}
	auto d = std::make_unique<scl::XilinxDevice>();
	if (dev == "zynq7") d->setupZynq7();
	else if (dev == "kintexus") d->setupKintexUltrascale();
	else if (dev == "virtexus") d->setupVirtexUltrascale();
	else throw std::runtime_error("unknown device " + dev);
	return d;
}

void runCase(const Case &cs, std::ostream &out)
{
	const size_t depth = cs.num("depth"), width = cs.num("width");
	const std::string type = cs.get("type", "D"), init = cs.get("init", "none"), clk = cs.get("clk", "PS"), dev = cs.get("dev", "none");
	const bool nc = cs.num("nc"), pp = cs.num("pp"), exact = cs.num("exact"), xs = cs.num("xs");
	const long latReq = cs.num("lat", 0);
	const size_t ncyc = cs.num("ncyc", 20);
	const std::string stimKind = cs.get("stim", "mix");
	auto ports = parsePorts(cs.get("ports"));

	DesignScope design;
	if (auto d = mkDevice(dev)) design.setTargetTechnology(std::move(d));

	ClockConfig ccfg{ .absoluteFrequency = hlim::ClockRational(100'000'000, 1), .name = "clk" };
	ccfg.memoryResetType = clk.size() > 1 && clk[1] == 'N' ? ClockConfig::ResetType::NONE
		: clk.size() > 1 && clk[1] == 'A' ? ClockConfig::ResetType::ASYNCHRONOUS : ClockConfig::ResetType::SYNCHRONOUS;
	ccfg.initializeMemory = !clk.empty() && clk[0] == 'P';
	if (clk.size() > 2) ccfg.resetActive = clk[2] == 'L' ? ClockConfig::ResetActive::LOW : ClockConfig::ResetActive::HIGH;
	if (clk.size() > 3) ccfg.resetType = clk[3] == 'A' ? ClockConfig::ResetType::ASYNCHRONOUS : ClockConfig::ResetType::SYNCHRONOUS;
	Clock clock(ccfg);
	// reset held for longer than the minimum the memory initialisation asks for
	if (clk.size() > 4) clock.getClk()->setMinResetCycles(depth + 2 + (size_t)atoi(clk.c_str() + 4));
	ClockScope cscope(clock);

	const size_t abits = utils::Log2C(depth);
	int nAddr = 0;
	for (auto &p : ports) nAddr = std::max(nAddr, p.addrPin + 1);

	// declared contents
	std::vector<std::string> initWords(depth, std::string(width, 'X'));
	XMem mem(depth, UInt(BitWidth(width)));
	MemType mt = type == "S" ? MemType::SMALL : type == "M" ? MemType::MEDIUM : type == "L" ? MemType::LARGE : MemType::DONT_CARE;
	if (latReq >= 0) mem.setType(mt, (size_t)latReq); else mem.setType(mt);
	if (nc) mem.noConflicts();
	if (exact) mem.undefinedReadAddrBehavior(UndefinedReadAddrBehavior::EXACT);
	if (init == "rlogic") {
		// contents defined only through the initialisation network: word a = 3 * a + 1 (mod 2^width)
		mem.addResetLogic([&](UInt a) {
			UInt r = a.width().value >= width ? UInt(a.lower(BitWidth(width))) : UInt(zext(a, BitWidth(width)));
			return UInt(r + r + r + 1);
		});
		for (size_t i = 0; i < depth; i++) initWords[i] = numBits((3 * i + 1) & ((1ull << width) - 1), width);
	} else if (init == "zero") {
		mem.initZero();
		for (auto &w : initWords) w = std::string(width, '0');
	} else if (init == "fill" || init == "part") {
		vh::Rng ir(cs.num("iseed", 1) * 77 + 5);
		size_t n = init == "fill" ? depth : std::max<size_t>(1, depth / 2);
		std::vector<uint64_t> vals(n);
		for (auto &v : vals) v = ir.next() & ((1ull << width) - 1);
		mem.fillPowerOnState(sim::createDefaultBitVectorState(n, width, [&](std::size_t i, std::uint64_t *words) {
			words[sim::DefaultConfig::VALUE] = vals[i];
			words[sim::DefaultConfig::DEFINED] = ~0ull;
		}));
		for (size_t i = 0; i < n; i++) initWords[i] = numBits(vals[i], width);
	}
	const size_t L = mem.readLatencyHint();

	std::vector<UInt> addrPins;
	for (int i = 0; i < nAddr; i++) addrPins.push_back(pinIn(BitWidth(abits)).setName("a" + std::to_string(i)));

	struct WrPins { Bit en; UInt din; Bit en2; bool hasEn = false, hasEn2 = false; };
	std::vector<WrPins> wrPins;
	std::vector<Bit> rdEnPins;
	std::vector<bool> rdEnIsReg; // the pin gates the read-latency registers (ENIF) instead of the port
	std::vector<UInt> rdAsync, rdOut;

	for (size_t pi = 0; pi < ports.size(); pi++) {
		auto &p = ports[pi];
		if (p.kind == 'R' || p.kind == 'E' || p.kind == 'N') {
			UInt v;
			Bit regEn;
			if (p.kind == 'N') {
				regEn = pinIn().setName("g" + std::to_string(rdEnPins.size()));
				rdEnPins.push_back(regEn);
				rdEnIsReg.push_back(true);
			}
			if (p.kind == 'R' || p.kind == 'N') {
				v = mem[addrPins[p.addrPin]];
			} else {
				Bit en = pinIn().setName("g" + std::to_string(rdEnPins.size()));
				rdEnPins.push_back(en);
				rdEnIsReg.push_back(false);
				auto *rp = DesignScope::createNode<hlim::Node_MemPort>(width);
				rp->connectMemory(mem.node());
				rp->connectEnable(en.readPort());
				rp->connectAddress(addrPins[p.addrPin].readPort());
				rp->setClock(ClockScope::getClk().getClk());
				v = UInt(SignalReadPort({ .node = rp, .port = (unsigned)hlim::Node_MemPort::Outputs::rdData }));
			}
			rdAsync.push_back(v);
			UInt o = v;
			for (size_t i = 0; i < L; i++) {
				if (p.kind == 'N') { ENIF (regEn) o = reg(o, { .allowRetimingBackward = true }); }
				else o = reg(o, { .allowRetimingBackward = true });
			}
			rdOut.push_back(o);
		} else {
			WrPins w;
			size_t wi = wrPins.size();
			w.din = pinIn(BitWidth(width)).setName("d" + std::to_string(wi));
			UInt data = w.din;
			if (p.rmwSrc >= 0) {
				if ((size_t)p.rmwSrc >= rdAsync.size()) throw std::runtime_error("rmw source read port not declared before the write port");
				data = p.op == '+' ? UInt(rdAsync[p.rmwSrc] + w.din) : UInt(rdAsync[p.rmwSrc] ^ w.din);
			}
			if (p.kind == 'A') {
				mem[addrPins[p.addrPin]] = data;
			} else {
				Bit enable;
				if (p.condMode != 'o') {
					w.hasEn = true;
					w.en = pinIn().setName("e" + std::to_string(wi));
					enable = w.en;
				}
				if (p.condMode != '-') {
					if ((size_t)p.condSrc >= rdAsync.size()) throw std::runtime_error("enable source read port not declared before the write port");
					UInt rhs = p.condData ? UInt(w.din) : UInt(ConstUInt(p.condConst, BitWidth(width)));
					const UInt &elem = rdAsync[p.condSrc];
					Bit cond = p.condRel == 'l' ? Bit(elem < rhs) : p.condRel == 'e' ? Bit(elem == rhs) : Bit(elem != rhs);
					enable = p.condMode == 'o' ? cond : p.condMode == 'a' ? Bit(w.en & cond) : Bit(w.en | cond);
				}
				hlim::Node_MemPort *wp = nullptr;
				IF (enable)
					wp = mem[addrPins[p.addrPin]].write(data);
				if (p.kind == 'V') {
					w.hasEn2 = true;
					w.en2 = pinIn().setName("f" + std::to_string(wi));
					wp->connectEnable(w.en2.readPort());
				}
			}
			wrPins.push_back(w);
		}
	}
	for (size_t i = 0; i < rdOut.size(); i++) pinOut(rdOut[i]).setName("q" + std::to_string(i));

	if (pp) design.postprocess();

	// which mapping functions / patterns fired: external primitives by type name, memtools depth-mux splits
	// ("cascade_rdData" hooks), width splits ("concatenated_rdData"), sub memories ("memory_split_<i>" groups),
	// remaining generic memories, "primitive" property of the memory entities
	std::string mapInfo = "-";
	if (pp) {
		std::map<std::string, size_t> cnt;
		for (auto &n : design.getCircuit().getNodes()) {
			if (auto *ext = dynamic_cast<hlim::Node_External*>(n.get())) cnt["prim:" + ext->getTypeName()]++;
			else if (dynamic_cast<hlim::Node_Memory*>(n.get())) cnt["node_memory"]++;
			else if (dynamic_cast<hlim::Node_Signal*>(n.get())) {
				if (n->getName() == "cascade_rdData") cnt["depthMuxSplit"]++;
				if (n->getName() == "concatenated_rdData") cnt["widthSplit"]++;
			}
		}
		std::function<void(hlim::NodeGroup*)> walk = [&](hlim::NodeGroup *g) {
			if (g->getName().rfind("memory_split_", 0) == 0) cnt["subMemory"]++;
			{
				std::string v;
				try { v = g->properties()["primitive"].as<std::string>(); } catch (...) { v.clear(); }
				if (v.empty()) v = "none";
				for (auto &ch : v) if (ch == '"' || ch == ' ' || ch == ',') ch = '_';
				if (v != "none") cnt["prop:" + v]++;
			}
			for (auto &c : g->getChildren()) walk(c.get());
		};
		walk(design.getCircuit().getRootNodeGroup());
		mapInfo.clear();
		for (auto &kv : cnt) mapInfo += (mapInfo.empty() ? "" : ",") + kv.first + ":" + std::to_string(kv.second);
		if (mapInfo.empty()) mapInfo = "-";
	}

	// physical write ports of the user's memory after postprocessing: their address / enable drivers are
	// logged so that the check can see whether write collisions were resolved by logic (hardware has
	// no commit order) rather than by the simulator's node order
	std::vector<hlim::Node_MemPort*> physWr;
	if (pp && !nc)
		for (auto &n : design.getCircuit().getNodes())
			if (auto *mp = dynamic_cast<hlim::Node_MemPort*>(n.get()))
				if (mp->isWritePort() && mp->getMemory() == mem.node())
					physWr.push_back(mp);

	// ------------------------------------------------------------------ stimulus
	vh::Rng rng(cs.num("seed", 1) * 1000003ull + 17);
	std::vector<Stim> stim;
	if (stimKind == "explicit") {
		for (auto &l : cs.stim) {
			std::istringstream is(l); std::string t; Stim s; is >> t;
			int mode = 0;
			while (is >> t) {
				if (t == "G") { mode = 1; continue; }
				if (t == "W") { mode = 2; continue; }
				if (mode == 0) s.addr.push_back(t);
				else if (mode == 1) s.gen.push_back(t);
				else {
					size_t wi = s.wr.size();
					std::array<std::string, 3> w{ t, "", "1" };
					is >> w[1];
					if (wi < wrPins.size() && wrPins[wi].hasEn2) is >> w[2];
					s.wr.push_back(w);
				}
			}
			stim.push_back(s);
		}
	} else {
		// hot set: a few addresses on which collisions are forced
		std::vector<uint64_t> hot = { rng.below(depth), rng.below(depth) };
		uint64_t amax = (1ull << abits);
		size_t phaseLen = std::max<size_t>(4, ncyc / 5);
		uint64_t walk = rng.below(depth);
		// "alt": a sparse set of interesting addresses (around the halves / quarters / primitive boundaries, the end of
		// the memory, out-of-range aliases); consecutive accesses of a pin go to different quarters of the address space
		std::vector<uint64_t> altSet;
		std::vector<uint64_t> lastQuarter(nAddr, 99);
		if (stimKind == "alt") {
			uint64_t h = amax / 2, q = std::max<uint64_t>(1, amax / 4);
			auto add = [&](uint64_t a) { if (a < amax && std::find(altSet.begin(), altSet.end(), a) == altSet.end()) altSet.push_back(a); };
			for (uint64_t base : { (uint64_t)0, q, h, 3 * q, (uint64_t)depth, amax }) for (int d = -2; d <= 1; d++) if ((int64_t)base + d >= 0) add(base + d);
			for (uint64_t k = 1024; k < amax; k *= 2) { add(k - 1); add(k); add(h + k); add(h + k + 1); add(depth > k ? depth - k : 0); }
			for (int i = 0; i < 12; i++) add(rng.below(depth));
			for (int i = 0; i < 4 && depth < amax; i++) add(depth + rng.below(amax - depth));
		}
		for (size_t t = 0; t < ncyc; t++) {
			std::string kind = stimKind;
			bool scanning = false;
			if (kind == "scan") { scanning = t <= depth; kind = scanning ? "scan" : (((t / phaseLen) % 2) ? "hot" : "rand"); }
			if (kind == "mix") { static const char *ks[] = { "rand", "hot", "b2b", "oor", "rand" }; kind = ks[(t / phaseLen) % 5]; }
			Stim s;
			uint64_t common = rng.below(amax);
			if (kind == "b2b") { if (t % 2 == 0) walk = (walk + 1 + rng.below(2)) % depth; }
			for (int i = 0; i < nAddr; i++) {
				uint64_t a;
				if (kind == "scan") a = t % depth;   // every word is read (in order) before the pins enable any write
				else if (kind == "rand") a = rng.below(amax);
				else if (kind == "inr") a = rng.below(depth);
				else if (kind == "hot") a = rng.below(4) ? hot[rng.below(2)] : rng.below(depth);
				else if (kind == "b2b") a = rng.below(4) ? walk : rng.below(depth);
				else if (kind == "same") a = common;
				else if (kind == "alt") {
					uint64_t q = std::max<uint64_t>(1, amax / 4);
					for (int tries = 0; tries < 16; tries++) { a = altSet[rng.below(altSet.size())]; if (a / q != lastQuarter[i]) break; }
					lastQuarter[i] = a / q;
				}
				else /* oor */ a = (depth < amax && rng.below(2)) ? depth + rng.below(amax - depth) : rng.below(amax);
				std::string b = numBits(a, abits);
				if (xs) for (auto &c : b) if (rng.below(10) == 0) c = 'X';
				s.addr.push_back(b);
			}
			for (size_t i = 0; i < rdEnPins.size(); i++) s.gen.push_back(xs && !rdEnIsReg[i] && rng.below(10) == 0 ? "X" : (rng.below(4) ? "1" : "0"));
			for (size_t i = 0; i < wrPins.size(); i++) {
				std::array<std::string, 3> w;
				w[0] = wrPins[i].hasEn ? (rng.below(8) < (kind == "hot" || kind == "b2b" ? 6 : 4) ? "1" : "0") : "1";
				if (xs && wrPins[i].hasEn && rng.below(10) == 0) w[0] = "X";
				if (scanning && wrPins[i].hasEn) w[0] = "0";
				w[1] = randBits(rng, width, xs);
				w[2] = wrPins[i].hasEn2 ? (xs && rng.below(10) == 0 ? "X" : (rng.below(4) ? "1" : "0")) : "1";
				s.wr.push_back(w);
			}
			stim.push_back(s);
		}
	}

	out << "M " << cs.line << " | L=" << L << " abits=" << abits << " map=" << mapInfo << " words=";
	for (size_t i = 0; i < depth;) {   // run-length: <n>*<word>
		size_t j = i; while (j < depth && initWords[j] == initWords[i]) j++;
		out << (i ? "," : "");
		if (j - i > 1) out << (j - i) << "*";
		out << initWords[i];
		i = j;
	}
	out << "\n";

	// ------------------------------------------------------------------ simulation
	sim::ReferenceSimulator s(false);
	std::vector<std::string> lines;
	bool done = false;
	auto apply = [&](const Stim &st) {
		for (int i = 0; i < nAddr; i++) simu(addrPins[i]) = vh::fromBits(st.addr[i]);
		for (size_t i = 0; i < rdEnPins.size(); i++) simu(rdEnPins[i]) = vh::fromBits(st.gen[i]);
		for (size_t i = 0; i < wrPins.size(); i++) {
			if (wrPins[i].hasEn) simu(wrPins[i].en) = vh::fromBits(st.wr[i][0]);
			simu(wrPins[i].din) = vh::fromBits(st.wr[i][1]);
			if (wrPins[i].hasEn2) simu(wrPins[i].en2) = vh::fromBits(st.wr[i][2]);
		}
	};
	auto logLine = [&](char tag, const Stim &st) {
		std::ostringstream o;
		o << tag << " A";
		for (auto &a : st.addr) o << " " << a;
		if (!st.gen.empty()) { o << " G"; for (auto &g : st.gen) o << " " << g; }
		o << " W";
		for (size_t i = 0; i < st.wr.size(); i++) { o << " " << st.wr[i][0] << " " << st.wr[i][1]; if (wrPins[i].hasEn2) o << " " << st.wr[i][2]; }
		o << " O";
		for (auto &q : rdOut) o << " " << vh::bits(simu(q).eval());
		if (!physWr.empty()) {
			o << " P";
			for (auto *mp : physWr) {
				auto a = mp->getDriver((size_t)hlim::Node_MemPort::Inputs::address);
				auto e = mp->getDriver((size_t)hlim::Node_MemPort::Inputs::enable);
				auto we = mp->getDriver((size_t)hlim::Node_MemPort::Inputs::wrEnable);
				o << " " << (a.node ? vh::bits(s.getValueOfOutput(a)) : std::string("-"))
				  << ":" << (e.node ? vh::bits(s.getValueOfOutput(e)) : std::string("1"))
				  << ":" << (we.node ? vh::bits(s.getValueOfOutput(we)) : std::string("1"));
			}
		}
		lines.push_back(o.str());
	};
	Stim idle;
	for (int i = 0; i < nAddr; i++) idle.addr.push_back(std::string(abits, '0'));
	for (size_t i = 0; i < rdEnPins.size(); i++) idle.gen.push_back("1");
	for (size_t i = 0; i < wrPins.size(); i++) idle.wr.push_back({ wrPins[i].hasEn ? "0" : "1", std::string(width, '0'), "1" });

	s.addSimulationProcess([&]()->SimProcess {
		apply(idle);
		co_await OnClk(clock);
		logLine('p', idle);
		for (size_t t = 0; t < stim.size(); t++) {
			apply(stim[t]);
			co_await OnClk(clock);
			logLine('c', stim[t]);
		}
		done = true;
	});
	s.compileProgram(design.getCircuit());
	s.powerOn();
	for (size_t guard = 0; !done && guard < stim.size() + 2 * depth + 300; guard++)
		s.advance(hlim::ClockRational(1, 100'000'000));
	for (auto &l : lines) out << l << "\n";
	if (!done) out << "X " << cs.get("id") << " simulation did not reach the end of the stimulus\n";
	else out << "E " << cs.get("id") << "\n";
}

} // namespace

int main(int argc, char **argv)
{
	if (argc < 4 || std::string(argv[1]) != "run") { fprintf(stderr, "usage: C07_mem run <cases> <out>\n"); return 2; }
	std::ifstream in(argv[2]);
	std::ofstream out(argv[3]);
	std::vector<Case> cases;
	std::string line;
	while (std::getline(in, line)) {
		if (line.empty()) continue;
		if (line[0] == 'M') {
			Case c; c.line = line.substr(2);
			std::istringstream is(c.line); std::string t;
			while (is >> t) { auto e = t.find('='); if (e != std::string::npos) c.kv[t.substr(0, e)] = t.substr(e + 1); }
			cases.push_back(c);
		} else if (line[0] == 's' && !cases.empty()) cases.back().stim.push_back(line);
	}
	for (auto &c : cases) {
		std::ostringstream buf;
		try {
			runCase(c, buf);
			out << buf.str();
		} catch (const std::exception &e) {
			std::string w = e.what();
			for (auto &ch : w) if (ch == '\n' || ch == '\r') ch = ' ';
			if (w.size() > 400) w.resize(400);
			out << "M " << c.line << " | L=? abits=? words=?\n";
			out << "X " << c.get("id") << " " << w << "\n";
		}
		out.flush();
	}
	return 0;
}
