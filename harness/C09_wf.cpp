// C09 harness: well-formedness of the circuit graph.
//
//   C09_wf nodeio <nseq> <nops> <outfile>
//       T1: seeded random operation sequences on REAL nodes through the hlim interface
//       (Circuit::createNode / getNodes(), NodeIO::rewireInput / bypassOutputToInput, the protected
//       NodeIO members as a node class sees them, Node_Signal::connectInput / setConnectionType,
//       BaseNode::moveToGroup / addClock / attachClock / detachClock, NodePtr, destruction).
//       After every operation both directions of every relation are dumped (consumer lists and group
//       member lists in storage order).  The OCaml driver replays the `op` lines on the extracted
//       model and must print the identical file.
//
//   C09_wf design <programs> <outdir> <variants def,min> <extra 0|1>
//       T2: interprets design programs through the real frontend; dumps the graph after every
//       top-level construction statement, at every pass boundary of the real post processors
//       (hook g_verifPassHook), and (extra) after repeated Circuit::optimizeSubnet and after
//       Circuit::shuffleNodes.  Output <outdir>/<id>.<variant>.wf
//
// A pointer is only dereferenced after it has been found among the live objects of the circuit;
// anything else is printed as `X` (dangling / foreign), which the checker rejects.
#include "netdump.h"
#include <gatery/hlim/Subnet.h>
#include <gatery/hlim/NodePtr.h>
#include <gatery/hlim/supportNodes/Node_SignalTap.h>
#include <unordered_set>
#include <unordered_map>

using namespace gtry;
using namespace gtry::hlim;

// A node class of our own: what NodeIO offers to every node implementation.
class TestNode : public BaseNode {
public:
	TestNode(size_t nin, size_t nout, size_t nclk) : BaseNode(nin, nout) { m_clocks.resize(nclk); }
	void visit(NodeVisitor &) override {}
	void visit(ConstNodeVisitor &) const override {}
	using NodeIO::connectInput;
	using NodeIO::disconnectInput;
	using NodeIO::resizeInputs;
	using NodeIO::resizeOutputs;
	using NodeIO::setOutputConnectionType;
	std::string getTypeName() const override { return "C09Test"; }
	void assertValidity() const override {}
	std::string getInputName(size_t) const override { return "in"; }
	std::string getOutputName(size_t) const override { return "out"; }
	std::unique_ptr<BaseNode> cloneUnconnected() const override {
		std::unique_ptr<BaseNode> r(new TestNode(getNumInputPorts(), getNumOutputPorts(), m_clocks.size()));
		copyBaseToClone(r.get());
		return r;
	}
};

// ------------------------------------------------------------------------------------------------
// dumping
// ------------------------------------------------------------------------------------------------
struct Live {
	std::unordered_set<const BaseNode*> nodes;
	std::unordered_map<const NodeGroup*, uint64_t> groups;
	std::vector<NodeGroup*> groupList;
	std::unordered_map<const hlim::Clock*, uint64_t> clocks;
};

static void collectGroups(NodeGroup *g, Live &l) {
	l.groups[g] = g->getId();
	l.groupList.push_back(g);
	for (auto &c : g->getChildren()) collectGroups(c.get(), l);
}

static Live collect(Circuit &c) {
	Live l;
	for (auto &n : c.getNodes()) l.nodes.insert(n.get());
	collectGroups(c.getRootNodeGroup(), l);
	for (auto &k : c.getClocks()) l.clocks[k.get()] = k->getId();
	return l;
}

static std::string npStr(const Live &l, const NodePort &np) {
	if (np.node == nullptr) return "-";
	if (!l.nodes.count(np.node)) return "X";
	return std::to_string(np.node->getId()) + "." + std::to_string(np.port);
}

static std::string kindTag(BaseNode *n) {
	if (dynamic_cast<Node_Signal*>(n) || dynamic_cast<Node_Attributes*>(n) || dynamic_cast<Node_CDC*>(n) ||
	    dynamic_cast<Node_RegHint*>(n) || dynamic_cast<Node_RetimingBlocker*>(n)) return "fwd";
	if (auto *l = dynamic_cast<Node_Logic*>(n)) return l->getOp() == Node_Logic::NOT ? "logic1" : "logic2";
	if (auto *m = dynamic_cast<Node_Multiplexer*>(n)) return "mux:" + std::to_string(m->getNumInputPorts() - 1);
	if (dynamic_cast<Node_Register*>(n)) return "reg";
	if (dynamic_cast<Node_Compare*>(n)) return "cmp";
	if (auto *a = dynamic_cast<Node_Arithmetic*>(n)) return "arith:" + std::to_string(a->getNumInputPorts());
	if (dynamic_cast<Node_Shift*>(n)) return "shift";
	if (auto *p = dynamic_cast<Node_PriorityConditional*>(n)) return "prio:" + std::to_string(p->getNumChoices());
	if (auto *p = dynamic_cast<Node_Pin*>(n)) {
		if (p->isOutputPin()) return "pinout:" + std::to_string(p->getConnectionType().width);
		return "other";
	}
	if (auto *r = dynamic_cast<Node_Rewire*>(n)) {
		std::string s = "rewire:";
		bool first = true;
		for (const auto &rg : r->getOp().ranges)
			if (rg.source == Node_Rewire::OutputRange::INPUT) {
				if (!first) s += ",";
				first = false;
				s += std::to_string(rg.inputIdx) + "." + std::to_string(rg.inputOffset + rg.subwidth);
			}
		return s;
	}
	return "other";
}

// withKind: T2 dumps carry the node kind (for the requirement table); T1 dumps do not (the model
// knows the requirement from the create op)
static void dumpGraph(Circuit &c, std::ostream &o, bool withKind) {
	Live l = collect(c);
	std::vector<BaseNode*> nodes;
	for (auto &n : c.getNodes()) nodes.push_back(n.get());
	std::sort(nodes.begin(), nodes.end(), [](BaseNode *a, BaseNode *b) { return a->getId() < b->getId(); });
	for (auto *n : nodes) {
		o << "n " << n->getId();
		if (withKind) o << " k=" << kindTag(n);
		o << " g=";
		if (n->getGroup() == nullptr) o << "-";
		else { auto it = l.groups.find(n->getGroup()); if (it == l.groups.end()) o << "X"; else o << it->second; }
		o << " r=" << (n->hasRef() ? 1 : 0) << " i=";
		for (size_t i = 0; i < n->getNumInputPorts(); i++) o << (i ? "," : "") << npStr(l, n->getDriver(i));
		o << " o=";
		for (size_t p = 0; p < n->getNumOutputPorts(); p++) {
			auto &t = n->getOutputConnectionType(p);
			o << (p ? ";" : "") << (int)t.type << "." << t.width << ":";
			bool f = true;
			for (auto &np : n->getDirectlyDriven(p)) { o << (f ? "" : ",") << npStr(l, np); f = false; }
		}
		o << " c=";
		bool f = true;
		for (auto *k : n->getClocks()) {
			o << (f ? "" : ","); f = false;
			if (k == nullptr) o << "-";
			else { auto it = l.clocks.find(k); if (it == l.clocks.end()) o << "X"; else o << it->second; }
		}
		o << "\n";
	}
	std::sort(l.groupList.begin(), l.groupList.end(), [](NodeGroup *a, NodeGroup *b) { return a->getId() < b->getId(); });
	for (auto *g : l.groupList) {
		o << "G " << g->getId() << " p=";
		if (g->getParent() == nullptr) o << "-";
		else { auto it = l.groups.find(g->getParent()); if (it == l.groups.end()) o << "X"; else o << it->second; }
		o << " m=";
		bool f = true;
		for (auto *n : g->getNodes()) {
			o << (f ? "" : ","); f = false;
			if (!l.nodes.count(n)) o << "X"; else o << n->getId();
		}
		o << "\n";
	}
	std::vector<hlim::Clock*> clocks;
	for (auto &k : c.getClocks()) clocks.push_back(k.get());
	std::sort(clocks.begin(), clocks.end(), [](hlim::Clock *a, hlim::Clock *b) { return a->getId() < b->getId(); });
	for (auto *k : clocks) {
		o << "K " << k->getId() << " m=";
		// Clock::m_clockedNodes is a set; canonical order = (node id, port), dangling entries last
		std::vector<std::pair<uint64_t, uint64_t>> entries; size_t dangling = 0;
		for (auto &np : k->getClockedNodes()) {
			if (np.node == nullptr || !l.nodes.count(np.node)) dangling++;
			else entries.push_back({ np.node->getId(), np.port });
		}
		std::sort(entries.begin(), entries.end());
		bool f = true;
		for (auto &e : entries) { o << (f ? "" : ",") << e.first << "." << e.second; f = false; }
		for (size_t i = 0; i < dangling; i++) { o << (f ? "" : ",") << "X"; f = false; }
		o << "\n";
	}
}

// ------------------------------------------------------------------------------------------------
// T1: random operation sequences
// ------------------------------------------------------------------------------------------------
struct Seq {
	Circuit c;
	vh::Rng rng;
	std::ostream &o;
	std::vector<NodeGroup*> groups;
	std::vector<hlim::Clock*> clocks;
	std::map<uint64_t, std::vector<NodePtr<BaseNode>>> refs;
	size_t maxNodes;
	std::map<std::string, size_t> &hist;

	Seq(uint64_t seed, std::ostream &o, size_t maxNodes, std::map<std::string, size_t> &hist)
		: rng(seed), o(o), maxNodes(maxNodes), hist(hist) { groups.push_back(c.getRootNodeGroup()); }

	std::vector<BaseNode*> nodes() { std::vector<BaseNode*> r; for (auto &n : c.getNodes()) r.push_back(n.get()); std::sort(r.begin(), r.end(), [](BaseNode *a, BaseNode *b){ return a->getId() < b->getId(); }); return r; }
	BaseNode *pickNode() { auto v = nodes(); return v.empty() ? nullptr : v[rng.below(v.size())]; }
	static std::string np(const NodePort &p) { return p.node ? std::to_string(p.node->getId()) + "." + std::to_string(p.port) : std::string("-"); }
	static bool isSig(BaseNode *n) { return dynamic_cast<Node_Signal*>(n) != nullptr; }
	static bool isTest(BaseNode *n) { return dynamic_cast<TestNode*>(n) != nullptr; }

	ConnectionType randType() {
		ConnectionType t;
		uint64_t r = rng.below(5);
		if (r == 0) { t.type = ConnectionType::BOOL; t.width = 1; }
		else { t.type = ConnectionType::BITVEC; t.width = r == 1 ? 0 : r == 2 ? 8 : r == 3 ? 8 : 64; }
		return t;
	}
	NodePort randSrc(bool allowNull, const ConnectionType *want = nullptr) {
		if (allowNull && rng.below(6) == 0) return {};
		std::vector<NodePort> cand;
		for (auto *n : nodes()) for (size_t p = 0; p < n->getNumOutputPorts(); p++)
			if (!want || n->getOutputConnectionType(p) == *want) cand.push_back({ .node = n, .port = p });
		if (cand.empty()) return {};
		return cand[rng.below(cand.size())];
	}
	// requirement of a Node_Signal: driver type == own output type (the harness only emits calls that respect it)
	static bool sigOkWith(BaseNode *sig, const NodePort &drv) {
		if (drv.node == nullptr) return true;
		return drv.node->getOutputConnectionType(drv.port) == sig->getOutputConnectionType(0);
	}

	void emit(const std::string &s, bool thrown = false) {
		o << "op " << s << (thrown ? " !throw" : "") << "\n";
		hist[s.substr(0, s.find(' '))]++;
		if (thrown) hist["(throws)"]++;
		dumpGraph(c, o, false);
		o << "end\n";
	}

	bool step() {
		uint64_t r = rng.below(100);
		auto all = nodes();
		if (all.size() < 3 || (r < 14 && all.size() < maxNodes)) {           // ---- create
			uint64_t k = rng.below(10);
			NodeGroup *g = rng.below(8) == 0 ? nullptr : groups[rng.below(groups.size())];
			std::string gs = g ? std::to_string(g->getId()) : "-";
			BaseNode *n; std::string desc;
			if (k < 4) { n = c.createNode<Node_Signal>(); desc = "1 1 0 s"; }
			else if (k < 5) { n = c.createNode<Node_Register>(); desc = "3 1 1 g"; }
			else { size_t ni = rng.below(4), no = rng.below(3), nc = rng.below(3) == 0 ? 1 + rng.below(2) : 0; if (ni + no == 0) no = 1;
			       n = c.createNode<TestNode>(ni, no, nc); desc = std::to_string(ni) + " " + std::to_string(no) + " " + std::to_string(nc) + " g"; }
			n->moveToGroup(g);
			emit("create " + desc + " " + gs);
			return true;
		}
		if (r < 17) { NodeGroup *p = groups[rng.below(groups.size())]; if (groups.size() >= 5) return false;
			groups.push_back(p->addChildNodeGroup(rng.coin() ? NodeGroupType::ENTITY : NodeGroupType::AREA, "g"));
			emit("addgroup " + std::to_string(p->getId())); return true; }
		if (r < 19) { if (clocks.size() >= 3) return false;
			clocks.push_back(c.createClock<RootClock>("clk", ClockRational(100, 1)));
			emit("createclock"); return true; }
		BaseNode *n = pickNode();
		if (!n) return false;
		std::string id = std::to_string(n->getId());
		if (r < 40) {                                                         // ---- connect / rewireInput
			if (n->getNumInputPorts() == 0) return false;
			size_t i = rng.below(n->getNumInputPorts());
			if (isSig(n)) {
				if (rng.below(3)) {   // Node_Signal::connectInput (may legitimately refuse)
					NodePort src = randSrc(true);
					bool thrown = false;
					try { static_cast<Node_Signal*>(n)->connectInput(src); } catch (const gtry::utils::InternalError &) { thrown = true; }
					emit("sigconnect " + id + " " + np(src), thrown);
					return true;
				}
				ConnectionType want = n->getOutputConnectionType(0);
				NodePort src = randSrc(true, &want);
				n->rewireInput(0, src);
				emit("connect " + id + " 0 " + np(src));
				return true;
			}
			NodePort src = randSrc(true);
			if (isTest(n) && rng.coin()) static_cast<TestNode*>(n)->connectInput(i, src); else n->rewireInput(i, src);
			emit("connect " + id + " " + std::to_string(i) + " " + np(src));
			return true;
		}
		if (r < 50) {                                                         // ---- disconnect
			if (isSig(n)) { static_cast<Node_Signal*>(n)->disconnectInput(); emit("disconnect " + id + " 0"); return true; }
			if (isTest(n) && n->getNumInputPorts()) { size_t i = rng.below(n->getNumInputPorts()); static_cast<TestNode*>(n)->disconnectInput(i); emit("disconnect " + id + " " + std::to_string(i)); return true; }
			return false;
		}
		if (r < 57) {                                                         // ---- setOutputConnectionType
			if (n->getNumOutputPorts() == 0) return false;
			size_t p = rng.below(n->getNumOutputPorts());
			ConnectionType t = randType();
			bool thrown = false;
			if (isSig(n)) {
				if (!sigOkWith(n, n->getDriver(0)) ) return false;
				NodePort d = n->getDriver(0);
				if (d.node && !(d.node->getOutputConnectionType(d.port) == t)) {
					// would leave the signal with a driver of another type: only emit it when the code refuses it anyway
					if (n->getDirectlyDriven(0).empty()) return false;
				}
				try { static_cast<Node_Signal*>(n)->setConnectionType(t); } catch (const gtry::utils::InternalError &) { thrown = true; }
			} else if (isTest(n)) {
				// consumers that are signals require their driver type: only change when no consumer (the code refuses otherwise)
				try { static_cast<TestNode*>(n)->setOutputConnectionType(p, t); } catch (const gtry::utils::InternalError &) { thrown = true; }
			} else return false;
			emit("settype " + id + " " + std::to_string(p) + " " + std::to_string((int)t.type) + " " + std::to_string(t.width), thrown);
			return true;
		}
		if (r < 63) {                                                         // ---- resize
			if (!isTest(n)) return false;
			auto *t = static_cast<TestNode*>(n);
			if (rng.coin()) { size_t k = rng.below(5); t->resizeInputs(k); emit("resizein " + id + " " + std::to_string(k)); }
			else { size_t k = rng.below(4); t->resizeOutputs(k); emit("resizeout " + id + " " + std::to_string(k)); }
			return true;
		}
		if (r < 71) {                                                         // ---- bypassOutputToInput
			if (n->getNumInputPorts() == 0 || n->getNumOutputPorts() == 0) return false;
			size_t i = rng.below(n->getNumInputPorts()), p = rng.below(n->getNumOutputPorts());
			NodePort src = n->getDriver(i);
			if (src.node == n && src.port == p) return false;       // would never terminate: outside the contract
			for (auto &cns : n->getDirectlyDriven(p)) if (isSig(cns.node) && !sigOkWith(cns.node, src)) return false;
			n->bypassOutputToInput(p, i);
			emit("bypass " + id + " " + std::to_string(p) + " " + std::to_string(i));
			return true;
		}
		if (r < 79) {                                                         // ---- moveToGroup
			NodeGroup *g = rng.below(10) == 0 ? nullptr : groups[rng.below(groups.size())];
			n->moveToGroup(g);
			emit("move " + id + " " + (g ? std::to_string(g->getId()) : std::string("-")));
			return true;
		}
		if (r < 89) {                                                         // ---- clocks
			hlim::Clock *k = (clocks.empty() || rng.below(5) == 0) ? nullptr : clocks[rng.below(clocks.size())];
			std::string ks = k ? std::to_string(k->getId()) : "-";
			uint64_t w = rng.below(4);
			if (w == 0 && n->getClocks().size() < 3) { n->addClock(k); emit("addclock " + id + " " + ks); return true; }
			if (n->getClocks().empty()) return false;
			size_t cp = rng.below(n->getClocks().size());
			if (w == 3) { n->detachClock(cp); emit("detach " + id + " " + std::to_string(cp)); return true; }
			if (dynamic_cast<Node_Register*>(n) && rng.coin()) { static_cast<Node_Register*>(n)->setClock(k); emit("attach " + id + " 0 " + ks); return true; }
			n->attachClock(k, cp); emit("attach " + id + " " + std::to_string(cp) + " " + ks);
			return true;
		}
		if (r < 94) {                                                         // ---- NodePtr
			auto &v = refs[n->getId()];
			if (!v.empty() && rng.coin()) { v.pop_back(); emit("removeref " + id); }
			else { v.emplace_back(n); emit("addref " + id); }
			return true;
		}
		{                                                                     // ---- destruction (as the cull passes do it)
			if (n->hasRef()) return false;
			auto &v = c.getNodes();
			for (size_t i = 0; i < v.size(); i++) if (v[i].get() == n) {
				if (i + 1 != v.size()) v[i] = std::move(v.back());
				v.pop_back();
				break;
			}
			emit("destroy " + id);
			return true;
		}
	}
};

static int runNodeIO(size_t nseq, size_t nops, const std::string &outfile) {
	std::ofstream o(outfile);
	uint64_t seed = vh::envSeed();
	std::map<std::string, size_t> hist;
	for (size_t s = 0; s < nseq; s++) {
		o << "seq " << s << "\n";
		Seq q(seed * 7919 + s, o, 6 + (s % 10), hist);
		size_t done = 0, tries = 0;
		while (done < nops && tries < nops * 20) { tries++; if (q.step()) done++; }
		q.refs.clear();
		o << "endseq\n";
	}
	std::cerr << "hist";
	for (auto &kv : hist) std::cerr << " " << kv.first << "=" << kv.second;
	std::cerr << "\n";
	return 0;
}

// ------------------------------------------------------------------------------------------------
// T2: designs
// ------------------------------------------------------------------------------------------------
static int runDesigns(const std::string &progfile, const std::string &outdir, const std::string &variants, bool extra) {
	std::ifstream pin(progfile);
	auto programs = nd::readPrograms(pin);
	size_t done = 0;
	for (auto &prog : programs) {
		for (std::string v : { "def", "min" }) {
			if (variants.find(v) == std::string::npos) continue;
			std::ofstream out(outdir + "/" + prog.id + "." + v + ".wf");
			size_t boundary = 0;
			auto dump = [&](Circuit &c, const std::string &what) {
				out << "dump " << prog.id << "." << v << " " << boundary++ << " " << what << "\n";
				dumpGraph(c, out, true);
				out << "end\n";
			};
			try {
				DesignScope design;
				gtry::Clock clock({ .absoluteFrequency = 100'000'000 });
				ClockScope cs(clock);
				nd::Interp in;
				// top-level statements one by one: a dump after every construction step
				size_t pc = 0;
				while (pc < prog.stmts.size()) {
					const auto &t = prog.stmts[pc];
					std::string what = "construct:" + t[0];
					if (t[0] == "if") { pc++; in.ifchain(prog, pc, in.asB(t[1]), 0); }
					else { in.stmt(t); pc++; }
					if (v == "def") dump(design.getCircuit(), what);   // identical for both variants: dump once
				}
				if (in.dropAll) in.b.vars.clear();
				dump(design.getCircuit(), "construct:done");
				hlim::g_verifPassHook = [&](hlim::Circuit &c, const char *name) { dump(c, name); };
				if (v == "def") design.postprocess();
				else design.getCircuit().postprocess(hlim::MinimalPostprocessing{});
				hlim::g_verifPassHook = nullptr;
				dump(design.getCircuit(), "postprocess:done");
				if (extra) {
					auto &c = design.getCircuit();
					for (int k = 0; k < 2; k++) { Subnet all = Subnet::all(c); c.optimizeSubnet(all); dump(c, "extra:optimizeSubnet#" + std::to_string(k)); }
					c.shuffleNodes(); dump(c, "extra:shuffleNodes");
					{ Subnet all = Subnet::all(c); c.optimizeSubnet(all); dump(c, "extra:optimizeSubnet-after-shuffle"); }
				}
				done++;
			} catch (const std::exception &e) {
				hlim::g_verifPassHook = nullptr;
				std::string msg = e.what(); for (auto &ch : msg) if (ch == '\n') ch = ' ';
				out << "SKIP " << prog.id << "." << v << " " << msg.substr(0, 300) << "\n";
			}
		}
	}
	std::cerr << "built " << done << " design variants\n";
	return 0;
}

int main(int argc, char **argv) {
	if (argc < 2) { std::cerr << "usage\n"; return 2; }
	std::string mode = argv[1];
	if (mode == "nodeio" && argc >= 5) return runNodeIO(std::stoull(argv[2]), std::stoull(argv[3]), argv[4]);
	if (mode == "design" && argc >= 6) return runDesigns(argv[2], argv[3], argv[4], atoi(argv[5]));
	std::cerr << "usage\n";
	return 2;
}
