// C09 harness: well-formedness of the circuit graph.
//
//   C09_wf nodeio <nseq> <nops> <outfile>
//       T1: seeded random operation sequences on REAL nodes through the hlim interface
//       (Circuit::createNode / getNodes(), NodeIO::rewireInput / bypassOutputToInput, the protected
//       NodeIO members as a node class sees them, Node_Signal::connectInput / setConnectionType,
//       BaseNode::moveToGroup / addClock / attachClock / detachClock, NodePtr, destruction).
//       After every operation both directions of every relation are dumped (consumer lists and group
//       member lists in storage order).  The OCaml driver replays the `op` lines on the extracted
//       model and must print the identical file.
//
//   C09_wf ops <file> <outfile>
//       replays given operation sequences (corpus, replays) on real nodes; same output format.
//
//   C09_wf design <programs> <outdir> <variants def,min> <extra 0|1> [slacks e.g. -,0,1,3]
//       T2: interprets design programs through the real frontend; dumps the graph after every
//       top-level construction statement, at every pass boundary of the real post processors
//       (hook g_verifPassHook), and (extra) after repeated Circuit::optimizeSubnet and after
//       Circuit::shuffleNodes.  Output <outdir>/<id>.<variant>.wf
//
//       Every (design, variant, slack) case runs in a forked child with a time limit; a child that dies is
//       recorded as `CRASH <case> signal=<n>` in its .wf file.  slack `-` = circuit untouched, all dumps.
//       slack j: before every pass (at every hook boundary, and before every extra call) the node vector is
//       made to have capacity == size + j through the public Circuit::getNodes() (shrink_to_fit / reserve), so
//       that the (j+1)-th createNode of EVERY pass reallocates Circuit::m_nodes; only `pass` markers and the
//       final dumps are written.
//
// Freed memory is observable without a sanitizer: the global operator new / delete are replaced; delete fills
// the block with 0xDD (malloc_usable_size) and parks it in a quarantine, so that a stale read sees
// 0xDDDDDDDDDDDDDDDD (a non-canonical address: dereferencing it faults deterministically) and a stale WRITE is
// detected when the block leaves the quarantine (`POISON write-after-free`, abort).  Off under ASan and with
// C09_NOPOISON=1.
//
// A pointer is only dereferenced after it has been found among the live objects of the circuit;
// anything else is printed as `X` (dangling / foreign), which the checker rejects.
#include "netdump.h"
#include <gatery/hlim/Subnet.h>
#include <gatery/hlim/NodePtr.h>
#include <gatery/hlim/supportNodes/Node_SignalTap.h>
#include <gatery/hlim/coreNodes/Node_Signal2Clk.h>
#include <gatery/hlim/coreNodes/Node_Signal2Rst.h>
#include <gatery/hlim/supportNodes/Node_Memory.h>
#include <gatery/hlim/supportNodes/Node_MemPort.h>
#include <gatery/scl/synthesisTools/IntelQuartus.h>
#include <gatery/scl/synthesisTools/XilinxVivado.h>
#include <gatery/frontend/Attributes.h>
#include <unordered_set>
#include <unordered_map>
#include <malloc.h>
#include <new>
#include <atomic>
#include <unistd.h>
#include <fcntl.h>
#include <sys/wait.h>

// ------------------------------------------------------------------------------------------------
// poisoning allocator
// ------------------------------------------------------------------------------------------------
#if defined(__SANITIZE_ADDRESS__)
#define C09_POISON 0
#else
#define C09_POISON 1
#endif

namespace poison {
	static bool enabled = false;
	static constexpr size_t QN = 1u << 16;            // quarantine entries
	static constexpr size_t QBYTES = 96u << 20;       // quarantine bytes
	static void *q[QN]; static size_t qsize[QN];
	static size_t head = 0, count = 0, bytes = 0;
	static std::atomic_flag lock = ATOMIC_FLAG_INIT;
	static size_t freedBlocks = 0;

	static void corrupted(void *p, size_t n, size_t at) {
		char buf[200];
		int k = snprintf(buf, sizeof buf, "POISON write-after-free: freed block %p (%zu bytes) was modified at offset %zu\n", p, n, at);
		if (k > 0) { ssize_t r = write(2, buf, (size_t)k); (void)r; }
		abort();
	}
	static void evictOne() {
		void *p = q[head]; size_t n = qsize[head];
		head = (head + 1) % QN; count--; bytes -= n;
		const unsigned char *b = (const unsigned char*)p;
		for (size_t i = 0; i < n; i++) if (b[i] != 0xDD) corrupted(p, n, i);
		free(p);
	}
	static void release(void *p) {
		if (!p) return;
		if (!enabled) { free(p); return; }
		size_t n = malloc_usable_size(p);
		memset(p, 0xDD, n);
		while (lock.test_and_set(std::memory_order_acquire)) {}
		freedBlocks++;
		while (count == QN || (count && bytes + n > QBYTES)) evictOne();
		size_t tail = (head + count) % QN;
		q[tail] = p; qsize[tail] = n; count++; bytes += n;
		lock.clear(std::memory_order_release);
	}
	// verifies (and frees) everything still parked
	static void drain() {
		while (lock.test_and_set(std::memory_order_acquire)) {}
		while (count) evictOne();
		lock.clear(std::memory_order_release);
	}
}

#if C09_POISON
void *operator new(std::size_t n) { void *p = malloc(n ? n : 1); if (!p) throw std::bad_alloc(); return p; }
void *operator new[](std::size_t n) { void *p = malloc(n ? n : 1); if (!p) throw std::bad_alloc(); return p; }
void *operator new(std::size_t n, const std::nothrow_t &) noexcept { return malloc(n ? n : 1); }
void *operator new[](std::size_t n, const std::nothrow_t &) noexcept { return malloc(n ? n : 1); }
static void *alignedNew(std::size_t n, std::align_val_t a) { void *p = nullptr; if (posix_memalign(&p, std::max((size_t)a, sizeof(void*)), n ? n : 1)) throw std::bad_alloc(); return p; }
void *operator new(std::size_t n, std::align_val_t a) { return alignedNew(n, a); }
void *operator new[](std::size_t n, std::align_val_t a) { return alignedNew(n, a); }
void *operator new(std::size_t n, std::align_val_t a, const std::nothrow_t &) noexcept { void *p = nullptr; return posix_memalign(&p, std::max((size_t)a, sizeof(void*)), n ? n : 1) ? nullptr : p; }
void *operator new[](std::size_t n, std::align_val_t a, const std::nothrow_t &) noexcept { void *p = nullptr; return posix_memalign(&p, std::max((size_t)a, sizeof(void*)), n ? n : 1) ? nullptr : p; }
void operator delete(void *p) noexcept { poison::release(p); }
void operator delete[](void *p) noexcept { poison::release(p); }
void operator delete(void *p, std::size_t) noexcept { poison::release(p); }
void operator delete[](void *p, std::size_t) noexcept { poison::release(p); }
void operator delete(void *p, const std::nothrow_t &) noexcept { poison::release(p); }
void operator delete[](void *p, const std::nothrow_t &) noexcept { poison::release(p); }
void operator delete(void *p, std::align_val_t) noexcept { poison::release(p); }
void operator delete[](void *p, std::align_val_t) noexcept { poison::release(p); }
void operator delete(void *p, std::size_t, std::align_val_t) noexcept { poison::release(p); }
void operator delete[](void *p, std::size_t, std::align_val_t) noexcept { poison::release(p); }
void operator delete(void *p, std::align_val_t, const std::nothrow_t &) noexcept { poison::release(p); }
void operator delete[](void *p, std::align_val_t, const std::nothrow_t &) noexcept { poison::release(p); }
#endif

using namespace gtry;
using namespace gtry::hlim;

// A node class of our own: what NodeIO offers to every node implementation.
class TestNode : public BaseNode {
public:
	TestNode(size_t nin, size_t nout, size_t nclk) : BaseNode(nin, nout) { m_clocks.resize(nclk); }
	void visit(NodeVisitor &) override {}
	void visit(ConstNodeVisitor &) const override {}
	using NodeIO::connectInput;
	using NodeIO::disconnectInput;
	using NodeIO::resizeInputs;
	using NodeIO::resizeOutputs;
	using NodeIO::setOutputConnectionType;
	std::string getTypeName() const override { return "C09Test"; }
	void assertValidity() const override {}
	std::string getInputName(size_t) const override { return "in"; }
	std::string getOutputName(size_t) const override { return "out"; }
	std::unique_ptr<BaseNode> cloneUnconnected() const override {
		std::unique_ptr<BaseNode> r(new TestNode(getNumInputPorts(), getNumOutputPorts(), m_clocks.size()));
		copyBaseToClone(r.get());
		return r;
	}
};

// Clock::m_clockDriver / m_resetDriver are protected and have no accessor (getLogicDriver already looks THROUGH
// them); read them the way a derived clock class could.
struct ClockPeek : public hlim::Clock {
	static Node_Signal2Clk *clk(const hlim::Clock &c) { return c.*(&ClockPeek::m_clockDriver); }
	static Node_Signal2Rst *rst(const hlim::Clock &c) { return c.*(&ClockPeek::m_resetDriver); }
};
static int roleOf(BaseNode *n) { return dynamic_cast<Node_Signal2Clk*>(n) ? 1 : dynamic_cast<Node_Signal2Rst*>(n) ? 2 : 0; }

// ------------------------------------------------------------------------------------------------
// dumping
// ------------------------------------------------------------------------------------------------
struct Live {
	std::unordered_set<const BaseNode*> nodes;
	std::unordered_map<const NodeGroup*, uint64_t> groups;
	std::vector<NodeGroup*> groupList;
	std::unordered_map<const hlim::Clock*, uint64_t> clocks;
};

static void collectGroups(NodeGroup *g, Live &l) {
	l.groups[g] = g->getId();
	l.groupList.push_back(g);
	for (auto &c : g->getChildren()) collectGroups(c.get(), l);
}

static Live collect(Circuit &c) {
	Live l;
	for (auto &n : c.getNodes()) l.nodes.insert(n.get());
	collectGroups(c.getRootNodeGroup(), l);
	for (auto &k : c.getClocks()) l.clocks[k.get()] = k->getId();
	return l;
}

static std::string npStr(const Live &l, const NodePort &np) {
	if (np.node == nullptr) return "-";
	if (!l.nodes.count(np.node)) return "X";
	return std::to_string(np.node->getId()) + "." + std::to_string(np.port);
}

static std::string kindTag(BaseNode *n) {
	if (dynamic_cast<Node_Signal*>(n) || dynamic_cast<Node_Attributes*>(n) || dynamic_cast<Node_CDC*>(n) ||
	    dynamic_cast<Node_RegHint*>(n) || dynamic_cast<Node_RetimingBlocker*>(n)) return "fwd";
	if (auto *l = dynamic_cast<Node_Logic*>(n)) return l->getOp() == Node_Logic::NOT ? "logic1" : "logic2";
	if (auto *m = dynamic_cast<Node_Multiplexer*>(n)) return "mux:" + std::to_string(m->getNumInputPorts() - 1);
	if (dynamic_cast<Node_Register*>(n)) return "reg";
	if (dynamic_cast<Node_Compare*>(n)) return "cmp";
	if (auto *a = dynamic_cast<Node_Arithmetic*>(n)) return "arith:" + std::to_string(a->getNumInputPorts());
	if (dynamic_cast<Node_Shift*>(n)) return "shift";
	if (auto *p = dynamic_cast<Node_PriorityConditional*>(n)) return "prio:" + std::to_string(p->getNumChoices());
	if (auto *p = dynamic_cast<Node_Pin*>(n)) {
		if (p->isOutputPin()) return "pinout:" + std::to_string(p->getConnectionType().width);
		return "other";
	}
	if (auto *r = dynamic_cast<Node_Rewire*>(n)) {
		std::string s = "rewire:";
		bool first = true;
		for (const auto &rg : r->getOp().ranges)
			if (rg.source == Node_Rewire::OutputRange::INPUT) {
				if (!first) s += ",";
				first = false;
				s += std::to_string(rg.inputIdx) + "." + std::to_string(rg.inputOffset + rg.subwidth);
			}
		return s;
	}
	if (auto *mp = dynamic_cast<Node_MemPort*>(n)) {
		// what the port requires of its inputs: Node_MemPort::connectAddress asserts getExpectedAddressBits(), data = word width
		if (mp->getMemory() == nullptr || mp->getBitWidth() == 0) return "other";
		return "memport:" + std::to_string(mp->getExpectedAddressBits()) + "." + std::to_string(mp->getBitWidth());
	}
	if (auto *m = dynamic_cast<Node_Memory*>(n)) return "memory:" + std::to_string(m->getInitializationDataWidth());
	return "other";
}

// withKind: T2 dumps carry the node kind (for the requirement table); T1 dumps do not (the model
// knows the requirement from the create op)
static void dumpGraph(Circuit &c, std::ostream &o, bool withKind) {
	Live l = collect(c);
	std::vector<BaseNode*> nodes;
	for (auto &n : c.getNodes()) nodes.push_back(n.get());
	std::sort(nodes.begin(), nodes.end(), [](BaseNode *a, BaseNode *b) { return a->getId() < b->getId(); });
	for (auto *n : nodes) {
		o << "n " << n->getId();
		// T2: the node kind selects the requirement table; T1: the model only distinguishes Node_Signal (requirement: output type = driver type)
		o << " k=" << (withKind ? kindTag(n) : std::string(dynamic_cast<Node_Signal*>(n) ? "fwd" : "other"));
		o << " g=";
		if (n->getGroup() == nullptr) o << "-";
		else { auto it = l.groups.find(n->getGroup()); if (it == l.groups.end()) o << "X"; else o << it->second; }
		o << " r=" << (n->hasRef() ? 1 : 0) << " t=" << roleOf(n) << " i=";
		for (size_t i = 0; i < n->getNumInputPorts(); i++) o << (i ? "," : "") << npStr(l, n->getDriver(i));
		o << " o=";
		for (size_t p = 0; p < n->getNumOutputPorts(); p++) {
			auto &t = n->getOutputConnectionType(p);
			o << (p ? ";" : "") << (int)t.type << "." << t.width << ":";
			bool f = true;
			for (auto &np : n->getDirectlyDriven(p)) { o << (f ? "" : ",") << npStr(l, np); f = false; }
		}
		o << " c=";
		bool f = true;
		for (auto *k : n->getClocks()) {
			o << (f ? "" : ","); f = false;
			if (k == nullptr) o << "-";
			else { auto it = l.clocks.find(k); if (it == l.clocks.end()) o << "X"; else o << it->second; }
		}
		o << "\n";
	}
	std::sort(l.groupList.begin(), l.groupList.end(), [](NodeGroup *a, NodeGroup *b) { return a->getId() < b->getId(); });
	for (auto *g : l.groupList) {
		o << "G " << g->getId() << " p=";
		if (g->getParent() == nullptr) o << "-";
		else { auto it = l.groups.find(g->getParent()); if (it == l.groups.end()) o << "X"; else o << it->second; }
		o << " m=";
		bool f = true;
		for (auto *n : g->getNodes()) {
			o << (f ? "" : ","); f = false;
			if (!l.nodes.count(n)) o << "X"; else o << n->getId();
		}
		o << "\n";
	}
	std::vector<hlim::Clock*> clocks;
	for (auto &k : c.getClocks()) clocks.push_back(k.get());
	std::sort(clocks.begin(), clocks.end(), [](hlim::Clock *a, hlim::Clock *b) { return a->getId() < b->getId(); });
	for (auto *k : clocks) {
		// the logic drivers the clock names (never dereferenced unless found among the live nodes)
		auto drvStr = [&](BaseNode *d) -> std::string { if (!d) return "-"; if (!l.nodes.count(d)) return "X"; return std::to_string(d->getId()); };
		o << "K " << k->getId() << " d=" << drvStr(ClockPeek::clk(*k)) << "," << drvStr(ClockPeek::rst(*k)) << " m=";
		// Clock::m_clockedNodes is a set; canonical order = (node id, port), dangling entries last
		std::vector<std::pair<uint64_t, uint64_t>> entries; size_t dangling = 0;
		for (auto &np : k->getClockedNodes()) {
			if (np.node == nullptr || !l.nodes.count(np.node)) dangling++;
			else entries.push_back({ np.node->getId(), np.port });
		}
		std::sort(entries.begin(), entries.end());
		bool f = true;
		for (auto &e : entries) { o << (f ? "" : ",") << e.first << "." << e.second; f = false; }
		for (size_t i = 0; i < dangling; i++) { o << (f ? "" : ",") << "X"; f = false; }
		o << "\n";
	}
}

// ------------------------------------------------------------------------------------------------
// T1: operation sequences on real nodes
//   op syntax (one line each; the OCaml driver parses the same lines):
//     create <nin> <nout> <nclk> <s|r|g> <group|->     s = Node_Signal, r = Node_Register, g = TestNode
//     addgroup <parent>      createclock
//     connect <n> <i> <m.p|->      (NodeIO::rewireInput)     connectp <n> <i> <m.p|->  (NodeIO::connectInput as a node sees it)
//     disconnect <n> <i>     sigconnect <n> <m.p|->     settype <n> <o> <type> <width>
//     resizein <n> <k>   resizeout <n> <k>   bypass <n> <o> <i>   move <n> <group|->
//     addclock <n> <clock|->   attach <n> <cp> <clock|->   setclock <n> <clock|->   detach <n> <cp>
//     addref <n>   removeref <n>   destroy <n>
//     clone <n>                   (Circuit::createUnconnectedClone: cloneUnconnected -> copyBaseToClone, root group)
//     copysubnet <copyClocks 0|1> <outputs n.p,..|-> <inputs n.i,..|->   (Circuit::copySubnet on the real circuit; the model
//                                 cannot follow the id renumbering: the driver validates the resulting REAL state with the extracted
//                                 checker and continues from it)
//     createdrv <c|r> <group|->   (createNode<Node_Signal2Clk / Node_Signal2Rst>)
//     setdrv <c|r> <clock> <n>    (Clock::setLogicClockDriver / setLogicResetDriver)
// ------------------------------------------------------------------------------------------------
struct Seq {
	Circuit c;
	std::ostream &o;
	std::vector<NodeGroup*> groups;
	std::vector<hlim::Clock*> clocks;
	std::map<uint64_t, std::vector<NodePtr<BaseNode>>> refs;
	std::map<std::string, size_t> &hist;

	Seq(std::ostream &o, std::map<std::string, size_t> &hist) : o(o), hist(hist) { groups.push_back(c.getRootNodeGroup()); }

	std::vector<BaseNode*> nodes() { std::vector<BaseNode*> r; for (auto &n : c.getNodes()) r.push_back(n.get()); std::sort(r.begin(), r.end(), [](BaseNode *a, BaseNode *b){ return a->getId() < b->getId(); }); return r; }
	BaseNode *byId(uint64_t id) { for (auto &n : c.getNodes()) if (n->getId() == id) return n.get(); return nullptr; }
	NodeGroup *groupById(uint64_t id) { for (auto *g : groups) if (g->getId() == id) return g; return nullptr; }
	hlim::Clock *clockById(uint64_t id) { for (auto *k : clocks) if (k->getId() == id) return k; return nullptr; }
	static std::string np(const NodePort &p) { return p.node ? std::to_string(p.node->getId()) + "." + std::to_string(p.port) : std::string("-"); }
	static bool isSig(BaseNode *n) { return dynamic_cast<Node_Signal*>(n) != nullptr; }
	static bool isTest(BaseNode *n) { return dynamic_cast<TestNode*>(n) != nullptr; }

	struct Bad {};   // malformed / out-of-contract op in a hand written sequence: not executed
	NodePort parsePort(const std::string &s) {
		if (s == "-") return {};
		auto d = s.find('.'); if (d == std::string::npos) throw Bad{};
		BaseNode *n = byId(std::stoull(s.substr(0, d))); size_t p = std::stoull(s.substr(d + 1));
		if (!n || p >= n->getNumOutputPorts()) throw Bad{};
		return { .node = n, .port = p };
	}
	BaseNode *node(const std::string &s) { BaseNode *n = byId(std::stoull(s)); if (!n) throw Bad{}; return n; }
	NodeGroup *ogroup(const std::string &s) { if (s == "-") return nullptr; auto *g = groupById(std::stoull(s)); if (!g) throw Bad{}; return g; }
	hlim::Clock *oclock(const std::string &s) { if (s == "-") return nullptr; auto *k = clockById(std::stoull(s)); if (!k) throw Bad{}; return k; }

	// performs one op through the real interface; returns false if the call threw / is out of contract
	bool perform(const std::vector<std::string> &w) {
		const std::string &op = w.at(0);
		try {
			if (op == "create") {
				size_t ni = std::stoull(w.at(1)), no = std::stoull(w.at(2)), nc = std::stoull(w.at(3));
				NodeGroup *g = ogroup(w.at(5));
				BaseNode *n;
				if (w.at(4) == "s") { if (ni != 1 || no != 1 || nc != 0) throw Bad{}; n = c.createNode<Node_Signal>(); }
				else if (w.at(4) == "r") { if (ni != 3 || no != 1 || nc != 1) throw Bad{}; n = c.createNode<Node_Register>(); }
				else n = c.createNode<TestNode>(ni, no, nc);
				n->moveToGroup(g);
			} else if (op == "addgroup") { NodeGroup *p = ogroup(w.at(1)); if (!p) throw Bad{}; groups.push_back(p->addChildNodeGroup(NodeGroupType::ENTITY, "g")); }
			else if (op == "createclock") clocks.push_back(c.createClock<RootClock>("clk", ClockRational(100, 1)));
			else if (op == "connect" || op == "connectp") {
				BaseNode *n = node(w.at(1)); size_t i = std::stoull(w.at(2)); NodePort src = parsePort(w.at(3));
				if (i >= n->getNumInputPorts()) throw Bad{};
				if (op == "connectp") { if (!isTest(n)) throw Bad{}; static_cast<TestNode*>(n)->connectInput(i, src); } else n->rewireInput(i, src);
			} else if (op == "disconnect") {
				BaseNode *n = node(w.at(1)); size_t i = std::stoull(w.at(2));
				if (i >= n->getNumInputPorts()) throw Bad{};
				if (isSig(n)) static_cast<Node_Signal*>(n)->disconnectInput(); else if (isTest(n)) static_cast<TestNode*>(n)->disconnectInput(i); else throw Bad{};
			} else if (op == "sigconnect") {
				BaseNode *n = node(w.at(1)); NodePort src = parsePort(w.at(2));
				if (!isSig(n)) throw Bad{};
				static_cast<Node_Signal*>(n)->connectInput(src);
			} else if (op == "settype") {
				BaseNode *n = node(w.at(1)); size_t p = std::stoull(w.at(2));
				ConnectionType t; t.type = (ConnectionType::Type)std::stoi(w.at(3)); t.width = std::stoull(w.at(4));
				if (p >= n->getNumOutputPorts()) throw Bad{};
				if (isSig(n)) static_cast<Node_Signal*>(n)->setConnectionType(t); else if (isTest(n)) static_cast<TestNode*>(n)->setOutputConnectionType(p, t); else throw Bad{};
			} else if (op == "resizein") { BaseNode *n = node(w.at(1)); if (!isTest(n)) throw Bad{}; static_cast<TestNode*>(n)->resizeInputs(std::stoull(w.at(2))); }
			else if (op == "resizeout") { BaseNode *n = node(w.at(1)); if (!isTest(n)) throw Bad{}; static_cast<TestNode*>(n)->resizeOutputs(std::stoull(w.at(2))); }
			else if (op == "bypass") {
				BaseNode *n = node(w.at(1)); size_t p = std::stoull(w.at(2)), i = std::stoull(w.at(3));
				if (p >= n->getNumOutputPorts() || i >= n->getNumInputPorts()) throw Bad{};
				NodePort src = n->getDriver(i);
				if (src.node == n && src.port == p) throw Bad{};     // would never terminate
				n->bypassOutputToInput(p, i);
			} else if (op == "move") { BaseNode *n = node(w.at(1)); n->moveToGroup(ogroup(w.at(2))); }
			// the clock port of a Signal2Clk / Signal2Rst node is managed by Clock::setLogic*Driver only
			else if (op == "addclock") { BaseNode *n = node(w.at(1)); if (roleOf(n)) throw Bad{}; n->addClock(oclock(w.at(2))); }
			else if (op == "attach") { BaseNode *n = node(w.at(1)); size_t cp = std::stoull(w.at(2)); if (cp >= n->getClocks().size() || roleOf(n)) throw Bad{}; n->attachClock(oclock(w.at(3)), cp); }
			else if (op == "setclock") { auto *r = dynamic_cast<Node_Register*>(node(w.at(1))); if (!r) throw Bad{}; r->setClock(oclock(w.at(2))); }
			else if (op == "detach") { BaseNode *n = node(w.at(1)); size_t cp = std::stoull(w.at(2)); if (cp >= n->getClocks().size() || roleOf(n)) throw Bad{}; n->detachClock(cp); }
			else if (op == "addref") { BaseNode *n = node(w.at(1)); refs[n->getId()].emplace_back(n); }
			else if (op == "removeref") { BaseNode *n = node(w.at(1)); auto &v = refs[n->getId()]; if (v.empty()) throw Bad{}; v.pop_back(); }
			else if (op == "destroy") {
				BaseNode *n = node(w.at(1));
				if (n->hasRef()) throw Bad{};                     // the passes skip referenced nodes; the destructor asserts
				if (roleOf(n) && n->getClocks()[0] != nullptr) throw Bad{};   // a bound driver has side effects: never culled
				auto &v = c.getNodes();                           // the erase idiom of the cull passes
				for (size_t i = 0; i < v.size(); i++) if (v[i].get() == n) {
					if (i + 1 != v.size()) v[i] = std::move(v.back());
					v.pop_back();
					break;
				}
			} else if (op == "clone") {
				c.createUnconnectedClone(node(w.at(1)));
			} else if (op == "copysubnet") {
				bool cc = w.at(1) == "1";
				utils::StableSet<NodePort> ins, outs;
				auto plist = [&](const std::string &l, bool isOut, utils::StableSet<NodePort> &dst) {
					if (l == "-") return;
					std::istringstream ls(l); std::string t;
					while (std::getline(ls, t, ',')) {
						auto d = t.find('.'); if (d == std::string::npos) throw Bad{};
						BaseNode *n = byId(std::stoull(t.substr(0, d))); size_t p = std::stoull(t.substr(d + 1));
						if (!n || p >= (isOut ? n->getNumOutputPorts() : n->getNumInputPorts())) throw Bad{};
						dst.insert({ .node = n, .port = p });
					}
				};
				plist(w.at(2), true, outs); plist(w.at(3), false, ins);
				if (outs.empty()) throw Bad{};
				utils::StableMap<BaseNode*, BaseNode*> map;
				c.copySubnet(ins, outs, map, cc);
				clocks.clear(); for (auto &k : c.getClocks()) clocks.push_back(k.get());      // copyClocks creates clocks
			} else if (op == "createdrv") {
				NodeGroup *g = ogroup(w.at(2));
				BaseNode *n = w.at(1) == "c" ? (BaseNode*)c.createNode<Node_Signal2Clk>() : (BaseNode*)c.createNode<Node_Signal2Rst>();
				n->moveToGroup(g);
			} else if (op == "setdrv") {
				hlim::Clock *k = oclock(w.at(2)); BaseNode *n = node(w.at(3));
				if (!k) throw Bad{};
				bool isClk = w.at(1) == "c";
				BaseNode *cur = isClk ? (BaseNode*)ClockPeek::clk(*k) : (BaseNode*)ClockPeek::rst(*k);
				// contract: a fresh (unbound) driver node, or re-binding the current one
				if (n->getClocks().empty() || (n->getClocks()[0] != nullptr && cur != n)) throw Bad{};
				if (isClk) { auto *d = dynamic_cast<Node_Signal2Clk*>(n); if (!d) throw Bad{}; k->setLogicClockDriver(d); }
				else { auto *d = dynamic_cast<Node_Signal2Rst*>(n); if (!d) throw Bad{}; k->setLogicResetDriver(d); }
			} else throw Bad{};
			return true;
		} catch (const gtry::utils::InternalError &) { return false; }
		  catch (const Bad &) { return false; }
		  catch (const std::out_of_range &) { return false; }
		  catch (const std::invalid_argument &) { return false; }
	}

	bool run(const std::string &text) {
		std::istringstream ls(text); std::vector<std::string> w; std::string t;
		while (ls >> t) if (t != "!throw") w.push_back(t);
		if (w.empty()) return false;
		std::string canon; for (auto &x : w) canon += (canon.empty() ? "" : " ") + x;
		o << "try " << canon << std::endl;     // flushed before the call: a call that crashes or never returns is identifiable
		bool ok = perform(w);
		o << "op " << canon << (ok ? "" : " !throw") << "\n";
		hist[w[0]]++;
		if (!ok) hist["(refused)"]++;
		dumpGraph(c, o, false);
		o << "end\n";
		return ok;
	}
};

// the generator only CHOOSES the next call (looking at the real objects); Seq::run performs it
struct Gen {
	Seq &q;
	vh::Rng rng;
	size_t maxNodes;
	Gen(Seq &q, uint64_t seed, size_t maxNodes) : q(q), rng(seed), maxNodes(maxNodes) {}

	ConnectionType randType() {
		ConnectionType t;
		uint64_t r = rng.below(5);
		if (r == 0) { t.type = ConnectionType::BOOL; t.width = 1; }
		else { t.type = ConnectionType::BITVEC; t.width = r == 1 ? 0 : r == 4 ? 64 : 8; }
		return t;
	}
	NodePort randSrc(bool allowNull, const ConnectionType *want = nullptr) {
		if (allowNull && rng.below(6) == 0) return {};
		std::vector<NodePort> cand;
		for (auto *n : q.nodes()) for (size_t p = 0; p < n->getNumOutputPorts(); p++)
			if (!want || n->getOutputConnectionType(p) == *want) cand.push_back({ .node = n, .port = p });
		if (cand.empty()) return {};
		return cand[rng.below(cand.size())];
	}
	// requirement of a Node_Signal: driver type == own output type (the generator only chooses calls that respect it,
	// or calls the code refuses anyway)
	static bool sigOkWith(BaseNode *sig, const NodePort &drv) {
		if (drv.node == nullptr) return true;
		return drv.node->getOutputConnectionType(drv.port) == sig->getOutputConnectionType(0);
	}

	std::string choose() {
		uint64_t r = rng.below(100);
		auto all = q.nodes();
		auto S = [](size_t v) { return std::to_string(v); };
		if (all.size() < 3 || (r < 9 && all.size() < maxNodes)) {
			uint64_t k = rng.below(10);
			NodeGroup *g = rng.below(8) == 0 ? nullptr : q.groups[rng.below(q.groups.size())];
			std::string gs = g ? S(g->getId()) : "-";
			if (k < 4) return "create 1 1 0 s " + gs;
			if (k < 5) return "create 3 1 1 r " + gs;
			size_t ni = rng.below(4), no = rng.below(3), nc = rng.below(3) == 0 ? 1 + rng.below(2) : 0; if (ni + no == 0) no = 1;
			return "create " + S(ni) + " " + S(no) + " " + S(nc) + " g " + gs;
		}
		if (r >= 13 && r < 16 && all.size() + 2 < maxNodes + 6) {                    // cloning
			BaseNode *n = all[rng.below(all.size())];
			if (rng.below(3) == 0) return "clone " + S(n->getId());
			// copySubnet: a few outputs; stop at a few inputs of the closure
			std::vector<NodePort> cand;
			for (auto *m : all) for (size_t p = 0; p < m->getNumOutputPorts(); p++) cand.push_back({ .node = m, .port = p });
			if (cand.empty()) return "clone " + S(n->getId());
			std::string outs, ins;
			size_t no = 1 + rng.below(2);
			std::vector<BaseNode*> roots;
			for (size_t k = 0; k < no; k++) { auto np = cand[rng.below(cand.size())]; outs += (outs.empty() ? "" : ",") + Seq::np(np); roots.push_back(np.node); }
			for (auto *m : roots) for (size_t i = 0; i < m->getNumInputPorts(); i++)
				if (m->getDriver(i).node && rng.below(3) == 0) ins += (ins.empty() ? "" : ",") + S(m->getId()) + "." + S(i);
			// keep the copies small: the closure of random graphs can be the whole graph
			size_t closure = 0; { std::set<BaseNode*> seen; std::vector<BaseNode*> st(roots.begin(), roots.end());
				while (!st.empty()) { auto *x = st.back(); st.pop_back(); if (!seen.insert(x).second) continue; for (size_t i = 0; i < x->getNumInputPorts(); i++) if (x->getDriver(i).node) st.push_back(x->getDriver(i).node); }
				closure = seen.size(); }
			if (closure > 6) return "clone " + S(n->getId());
			return std::string("copysubnet ") + (rng.coin() ? "1 " : "0 ") + outs + " " + (ins.empty() ? "-" : ins);
		}
		if (r < 9 + 3 && !q.clocks.empty() && rng.below(2) == 0) {          // logic drivers of clocks
			std::vector<BaseNode*> dc, dr;
			for (auto *n : all) { if (roleOf(n) == 1) dc.push_back(n); if (roleOf(n) == 2) dr.push_back(n); }
			bool isClk = rng.coin();
			auto &pool = isClk ? dc : dr;
			NodeGroup *g = q.groups[rng.below(q.groups.size())];
			if (pool.empty() || (pool.size() < 4 && rng.below(3) == 0)) return std::string("createdrv ") + (isClk ? "c " : "r ") + S(g->getId());
			hlim::Clock *k = q.clocks[rng.below(q.clocks.size())];
			// mostly a fresh node or the current driver; sometimes any node (the call is then out of contract and refused)
			std::vector<BaseNode*> ok;
			BaseNode *cur = isClk ? (BaseNode*)ClockPeek::clk(*k) : (BaseNode*)ClockPeek::rst(*k);
			for (auto *n : pool) if (n->getClocks()[0] == nullptr || n == cur) ok.push_back(n);
			BaseNode *n = (!ok.empty() && rng.below(8)) ? ok[rng.below(ok.size())] : pool[rng.below(pool.size())];
			return std::string("setdrv ") + (isClk ? "c " : "r ") + S(k->getId()) + " " + S(n->getId());
		}
		if (r < 11) { if (q.groups.size() >= 5) return ""; return "addgroup " + S(q.groups[rng.below(q.groups.size())]->getId()); }
		if (r < 13) { if (q.clocks.size() >= 3) return ""; return "createclock"; }
		BaseNode *n = all[rng.below(all.size())];
		std::string id = S(n->getId());
		if (r < 36) {                                                         // connect / rewireInput
			if (n->getNumInputPorts() == 0) return "";
			size_t i = rng.below(n->getNumInputPorts());
			if (Seq::isSig(n)) {
				if (rng.below(3)) return "sigconnect " + id + " " + Seq::np(randSrc(true));   // may legitimately refuse
				ConnectionType want = n->getOutputConnectionType(0);
				return "connect " + id + " 0 " + Seq::np(randSrc(true, &want));
			}
			return std::string(Seq::isTest(n) && rng.coin() ? "connectp " : "connect ") + id + " " + S(i) + " " + Seq::np(randSrc(true));
		}
		if (r < 46) {                                                         // disconnect
			if (Seq::isSig(n)) return "disconnect " + id + " 0";
			if (Seq::isTest(n) && n->getNumInputPorts()) return "disconnect " + id + " " + S(rng.below(n->getNumInputPorts()));
			return "";
		}
		if (r < 53) {                                                         // setOutputConnectionType
			if (n->getNumOutputPorts() == 0) return "";
			size_t p = rng.below(n->getNumOutputPorts());
			ConnectionType t = randType();
			if (Seq::isSig(n)) {
				NodePort d = n->getDriver(0);
				// would leave the signal with a driver of another type: only choose it when the code refuses it anyway
				if (d.node && !(d.node->getOutputConnectionType(d.port) == t) && n->getDirectlyDriven(0).empty()) return "";
			} else if (!Seq::isTest(n)) return "";
			return "settype " + id + " " + S(p) + " " + S((int)t.type) + " " + S(t.width);
		}
		if (r < 60) {                                                         // resize
			if (!Seq::isTest(n)) return "";
			if (rng.coin()) return "resizein " + id + " " + S(rng.below(5));
			return "resizeout " + id + " " + S(rng.below(4));
		}
		if (r < 69) {                                                         // bypassOutputToInput
			if (n->getNumInputPorts() == 0 || n->getNumOutputPorts() == 0) return "";
			size_t i = rng.below(n->getNumInputPorts()), p = rng.below(n->getNumOutputPorts());
			NodePort src = n->getDriver(i);
			if (src.node == n && src.port == p) return "";           // would never terminate: outside the contract
			for (auto &cns : n->getDirectlyDriven(p)) if (Seq::isSig(cns.node) && !sigOkWith(cns.node, src)) return "";
			return "bypass " + id + " " + S(p) + " " + S(i);
		}
		if (r < 77) {                                                         // moveToGroup
			NodeGroup *g = rng.below(10) == 0 ? nullptr : q.groups[rng.below(q.groups.size())];
			return "move " + id + " " + (g ? S(g->getId()) : std::string("-"));
		}
		if (r < 89) {                                                         // clocks
			hlim::Clock *k = (q.clocks.empty() || rng.below(5) == 0) ? nullptr : q.clocks[rng.below(q.clocks.size())];
			std::string ks = k ? S(k->getId()) : "-";
			uint64_t w = rng.below(5);
			if (w == 0 && n->getClocks().size() < 3) return "addclock " + id + " " + ks;
			if (n->getClocks().empty()) return rng.below(3) == 0 ? "addclock " + id + " " + ks : std::string("");
			size_t cp = rng.below(n->getClocks().size());
			if (w >= 3) return "detach " + id + " " + S(cp);
			if (dynamic_cast<Node_Register*>(n) && rng.coin()) return "setclock " + id + " " + ks;
			return "attach " + id + " " + S(cp) + " " + ks;
		}
		if (r < 94) {                                                         // NodePtr
			auto it = q.refs.find(n->getId());
			if (it != q.refs.end() && !it->second.empty() && rng.below(3)) return "removeref " + id;
			return "addref " + id;
		}
		if (n->hasRef()) return "";                                           // destruction
		if (roleOf(n) && n->getClocks()[0] != nullptr && rng.below(4)) return "";   // (sometimes chosen: refused by contract)
		return "destroy " + id;
	}
};

static int runNodeIO(size_t nseq, size_t nops, const std::string &outfile) {
	std::ofstream o(outfile);
	uint64_t seed = vh::envSeed();
	std::map<std::string, size_t> hist;
	for (size_t s = 0; s < nseq; s++) {
		o << "seq " << s << "\n";
		Seq q(o, hist);
		Gen g(q, seed * 7919 + s, 6 + (s % 10));
		size_t done = 0, tries = 0;
		while (done < nops && tries < nops * 20) { tries++; std::string op = g.choose(); if (!op.empty()) { q.run(op); done++; } }
		q.refs.clear();
		o << "endseq\n";
	}
	std::cerr << "hist";
	for (auto &kv : hist) std::cerr << " " << kv.first << "=" << kv.second;
	std::cerr << "\n";
	return 0;
}

// replays given sequences (corpus, --replay): lines `seq <k>` / `op ...` / `endseq`, everything else ignored
static int runOps(const std::string &infile, const std::string &outfile) {
	std::ifstream in(infile); std::ofstream o(outfile);
	std::map<std::string, size_t> hist;
	std::unique_ptr<Seq> q;
	std::string line;
	while (std::getline(in, line)) {
		if (line.rfind("seq ", 0) == 0) { if (q) { q->refs.clear(); q.reset(); } o << line << "\n"; q = std::make_unique<Seq>(o, hist); }
		else if (line.rfind("endseq", 0) == 0) { if (q) { q->refs.clear(); q.reset(); } o << "endseq\n"; }
		else if (line.rfind("op ", 0) == 0 && q) q->run(line.substr(3));
	}
	if (q) { q->refs.clear(); q.reset(); }
	return 0;
}

// ------------------------------------------------------------------------------------------------
// T2: designs
// ------------------------------------------------------------------------------------------------
// design programs plus:
//   pathattr A B                (frontend pathAttribute: a Node_PathAttributes for the synthesis tool passes)
//   dclk NAME                   (a clock derived from the design clock)
//   clkscope NAME / endclkscope (registers created inside use the derived clock)
//   ovrclk BIT [NAME]           (Clock::overrideClkWith on the design clock or a derived one)
//   ovrrst BIT [NAME]           (Clock::overrideRstWith)      rstsig BIT [NAME]   (Clock::reset(signal))
struct Interp9 : public nd::Interp {
	gtry::Clock *mainClock = nullptr;
	std::map<std::string, std::unique_ptr<gtry::Clock>> derived;
	std::vector<std::unique_ptr<ClockScope>> clockScopes;
	gtry::Clock &clk(const std::vector<std::string> &t, size_t i) {
		if (t.size() <= i || t[i] == "main") return *mainClock;
		auto it = derived.find(t[i]); if (it == derived.end()) throw std::runtime_error("unknown clock " + t[i]);
		return *it->second;
	}
	void stmt(const std::vector<std::string> &t) override {
		if (t[0] == "pathattr") {
			nd::Val &a = get(t.at(1)); nd::Val &b = get(t.at(2));
			PathAttributes pa; pa.falsePath = true;
			ElementarySignal &sa = a.isBit() ? (ElementarySignal&)a.b() : (ElementarySignal&)a.u();
			ElementarySignal &sb = b.isBit() ? (ElementarySignal&)b.b() : (ElementarySignal&)b.u();
			pathAttribute(sa, sb, pa);
			return;
		}
		if (t[0] == "dclk") { ClockConfig cfg; cfg.name = t.at(1); derived[t.at(1)] = std::make_unique<gtry::Clock>(mainClock->deriveClock(cfg)); return; }
		if (t[0] == "clkscope") { clockScopes.push_back(std::make_unique<ClockScope>(clk(t, 1))); return; }
		if (t[0] == "endclkscope") { if (clockScopes.empty()) throw std::runtime_error("endclkscope"); clockScopes.pop_back(); return; }
		if (t[0] == "ovrclk") { clk(t, 2).overrideClkWith(asB(t.at(1))); return; }
		if (t[0] == "ovrrst") { clk(t, 2).overrideRstWith(asB(t.at(1))); return; }
		if (t[0] == "rstsig") { clk(t, 2).reset(asB(t.at(1))); return; }
		nd::Interp::stmt(t);
	}
	~Interp9() { while (!clockScopes.empty()) clockScopes.pop_back(); }
};

// capacity == size + slack, through the public accessor
static void tighten(Circuit &c, int slack) {
	if (slack < 0) return;
	auto &v = c.getNodes();
	v.shrink_to_fit();
	if (slack > 0) v.reserve(v.size() + (size_t)slack);
}

static void runCase(const nd::Program &prog, const std::string &v, int slack, const std::string &tag, const std::string &file, bool extra) {
	std::ofstream out(file);
	const bool full = slack < 0;
	size_t boundary = 0;
	auto dump = [&](Circuit &c, const std::string &what) {
		out << "dump " << tag << " " << boundary++ << " " << what << "\n";
		dumpGraph(c, out, true);
		out << "end" << std::endl;
	};
	auto mark = [&](Circuit &c, const std::string &what) {
		if (full) dump(c, what); else out << "pass " << tag << " " << boundary++ << " " << what << " nodes=" << c.getNodes().size() << " cap=" << c.getNodes().capacity() << std::endl;
	};
	try {
		DesignScope design;
		// optional `clockcfg rst=sync|async|none act=high|low memrst=sync|async|none initmem=0|1` selects the reset behaviour of the design clock
		ClockConfig ccfg; ccfg.absoluteFrequency = hlim::ClockRational(100'000'000, 1);
		auto rt = [](const std::string &v) { return v == "async" ? ClockConfig::ResetType::ASYNCHRONOUS : v == "none" ? ClockConfig::ResetType::NONE : ClockConfig::ResetType::SYNCHRONOUS; };
		for (auto &st : prog.stmts) if (st[0] == "clockcfg") for (size_t i = 1; i < st.size(); i++) {
			if (st[i].rfind("rst=", 0) == 0) ccfg.resetType = rt(st[i].substr(4));
			else if (st[i].rfind("memrst=", 0) == 0) ccfg.memoryResetType = rt(st[i].substr(7));
			else if (st[i] == "act=low") ccfg.resetActive = ClockConfig::ResetActive::LOW;
			else if (st[i] == "act=high") ccfg.resetActive = ClockConfig::ResetActive::HIGH;
			else if (st[i] == "initmem=0") ccfg.initializeMemory = false;
			else if (st[i] == "initmem=1") ccfg.initializeMemory = true;
		}
		gtry::Clock clock(ccfg);
		ClockScope cs(clock);
		Interp9 in;
		in.mainClock = &clock;
		// top-level statements one by one: a dump after every construction step
		size_t pc = 0;
		while (pc < prog.stmts.size()) {
			const auto &t = prog.stmts[pc];
			std::string what = "construct:" + t[0];
			if (t[0] == "if") { pc++; in.ifchain(prog, pc, t[1], 0); }
			else { in.stmt(t); pc++; }
			if (full && v == "def") dump(design.getCircuit(), what);   // identical for both variants: dump once
		}
		if (in.dropAll) in.b.vars.clear();
		dump(design.getCircuit(), "construct:done");
		hlim::g_verifPassHook = [&](hlim::Circuit &c, const char *name) { mark(c, name); tighten(c, slack); };
		tighten(design.getCircuit(), slack);
		if (v == "def") design.postprocess();
		else design.getCircuit().postprocess(hlim::MinimalPostprocessing{});
		hlim::g_verifPassHook = nullptr;
		dump(design.getCircuit(), "postprocess:done");
		if (extra) {
			auto &c = design.getCircuit();
			// what the VHDL export does first when a synthesis tool is targeted (SynthesisTool::prepareCircuit is public).
			// Each runs in a forked copy of this process: the circuit used by the following steps stays the post-processed one,
			// and a crash in one tool's preparation does not hide the other steps.
			auto isolated = [&](const std::string &step, const std::function<void()> &body) {
				out << "pass " << tag << " " << boundary << " enter:" << step << std::endl;
				pid_t pid = fork();
				if (pid == 0) { alarm(20); tighten(c, slack); body(); dump(c, "extra:" + step); out.flush(); poison::drain(); _exit(0); }
				int st = 0;
				if (pid > 0 && waitpid(pid, &st, 0) >= 0 && (WIFSIGNALED(st) || (WIFEXITED(st) && WEXITSTATUS(st) != 0))) {
					out.seekp(0, std::ios::end);
					out << "\nCRASH " << tag << " " << (WIFSIGNALED(st) ? "signal=" + std::to_string(WTERMSIG(st)) : "exit=" + std::to_string(WEXITSTATUS(st))) << " in=" << step << std::endl;
				}
				out.seekp(0, std::ios::end);
				boundary++;
			};
			isolated("IntelQuartus.prepareCircuit", [&] { gtry::IntelQuartus qt; qt.prepareCircuit(c); });
			isolated("XilinxVivado.prepareCircuit", [&] { gtry::XilinxVivado xv; xv.prepareCircuit(c); });
			for (int k = 0; k < 2; k++) { tighten(c, slack); Subnet all = Subnet::all(c); c.optimizeSubnet(all); dump(c, "extra:optimizeSubnet#" + std::to_string(k)); }
			c.shuffleNodes(); dump(c, "extra:shuffleNodes");
			{ tighten(c, slack); Subnet all = Subnet::all(c); c.optimizeSubnet(all); dump(c, "extra:optimizeSubnet-after-shuffle"); }
		}
		out << "DONE " << tag << std::endl;
	} catch (const std::exception &e) {
		hlim::g_verifPassHook = nullptr;
		std::string msg = e.what(); for (auto &ch : msg) if (ch == '\n') ch = ' ';
		out << "SKIP " << tag << " " << msg.substr(0, 300) << std::endl;
	}
	out.flush();
}

static int runDesigns(const std::string &progfile, const std::string &outdir, const std::string &variants, bool extra, const std::string &slacks) {
	std::ifstream pin(progfile);
	auto programs = nd::readPrograms(pin);
	std::vector<int> sl;
	{ std::istringstream ss(slacks); std::string t; while (std::getline(ss, t, ',')) sl.push_back(t == "-" ? -1 : std::stoi(t)); }
	size_t done = 0, crashed = 0;
	const char *tmo = getenv("C09_CASE_TIMEOUT");
	unsigned caseTimeout = tmo ? (unsigned)atoi(tmo) : 30;
	for (auto &prog : programs) {
		for (std::string v : { "def", "min" }) {
			if (variants.find(v) == std::string::npos) continue;
			for (int slack : sl) {
				std::string tag = prog.id + "." + v + (slack < 0 ? std::string() : ".s" + std::to_string(slack));
				std::string file = outdir + "/" + tag + ".wf";
				std::cout.flush(); std::cerr.flush();
				pid_t pid = fork();
				if (pid == 0) {
					alarm(caseTimeout);
					runCase(prog, v, slack, tag, file, extra);
					poison::drain();          // a stale write is reported even when nothing read the block again
					_exit(0);
				}
				int st = 0;
				if (pid < 0 || waitpid(pid, &st, 0) < 0) { std::cerr << "fork/waitpid failed\n"; return 3; }
				if (WIFSIGNALED(st) || (WIFEXITED(st) && WEXITSTATUS(st) != 0)) {
					crashed++;
					std::ofstream app(file, std::ios::app);
					if (WIFSIGNALED(st)) app << "\nCRASH " << tag << " signal=" << WTERMSIG(st) << "\n";
					else app << "\nCRASH " << tag << " exit=" << WEXITSTATUS(st) << "\n";
				} else done++;
			}
		}
	}
	std::cerr << "built " << done << " design cases, " << crashed << " crashed\n";
	return 0;
}

int main(int argc, char **argv) {
	if (argc < 2) { std::cerr << "usage\n"; return 2; }
	std::string mode = argv[1];
	poison::enabled = C09_POISON && getenv("C09_NOPOISON") == nullptr;
	if (mode == "nodeio" && argc >= 5) return runNodeIO(std::stoull(argv[2]), std::stoull(argv[3]), argv[4]);
	if (mode == "ops" && argc >= 4) return runOps(argv[2], argv[3]);
	if (mode == "design" && argc >= 6) return runDesigns(argv[2], argv[3], argv[4], atoi(argv[5]), argc >= 7 ? argv[6] : "-");
	std::cerr << "usage\n";
	return 2;
}
