// C06 harness: register retiming keeps function and balances latency exactly.
//
//   C06_retime run    <programs> <stimuli-per-design> <cycles> <outdir> [ignored...]
//   C06_retime replay <programs> <stimfile>           0        <outdir> [ignored...]
//
// A design program (netdump.h statements plus the retiming statements below) is built several
// times through the real frontend:
//   probe : HINTED design without the warm-up mask, DefaultPostprocessing, only to read
//           N_G = PipeBalanceGroup::getNumPipeBalanceGroupStages() of every group G
//   hint  : HINTED design (warm-up mask with K = sum_G N_G + D), real DefaultPostprocessing
//   ref   : REFERENCE design = the same program with every hint removed
//             pipestage            -> identity
//             regfwd/regbwd/regfb  -> plain register (same reset value, same enable scope)
//             neg + negpartner     -> wire  (negative register and its partner register cancel)
//             retfwd/retbwd        -> nothing
//             pipein NAME G SRC    -> SRC delayed by N_G explicit plain registers carrying the
//                                     input's reset value and the group's enable scope
//           NOT post-processed.
// For both, <outdir>/<id>.{hint,ref}.net / .trace are written (same stimuli), and one line
//   INFO <id> N <G>=<n> ... K=<k> regs_hint=<bits> regs_ref=<bits> [notes]
// goes to <outdir>/<id>.info (SKIP <id> <variant> <message> when a build threw).
//
// Retiming statements
//   enif C / endenif                     EnableScope block (stall condition for everything inside)
//   pipegroup G                          PipeBalanceGroup created in the current enable scope
//   pipein NAME G SRC [rst LIT]          NAME = G(SRC[, LIT])
//   pipestage NAME SRC                   NAME = pipestage(SRC)
//   regfwd|regbwd|regfb NAME SRC [rst LIT]   reg(SRC[,LIT], {.allowRetimingForward / Backward / both})
//   neg NAME SRC                         (NAME, NAME.en) = negativeReg(SRC)
//   negpartner NAME SRC NEG [rst LIT]    ENIF(NEG.en) NAME = reg(SRC[,LIT])   (the register the negative register cancels)
//   blocker NAME SRC                     NAME = retimingBlocker(SRC)   (both designs; a forwarding node)
//   retfwd VAR                           hinted only, deferred to just before postprocess:
//                                        hlim::retimeForwardToOutput(circuit, all, port of VAR, {.ignoreRefs=true})
//   retbwd VAR                           hinted only, deferred: hlim::retimeBackwardtoOutput(circuit, all, {}, {}, area, port of VAR, true, false)
//   warm NAME SRC D [EN]                 NAME = filled ? SRC : 0, filled = "K = sum N_G + D cycles with EN=1 have passed";
//                                        built from plain registers identically in both designs (see checks/C06.py)
//   keeprefs                             keep the frontend variables alive across postprocess (default: dropped)
#include "netdump.h"
#include <gatery/hlim/CNF.h>
#include <gatery/hlim/RegisterRetiming.h>
#include <gatery/hlim/Subnet.h>
#include <gatery/hlim/supportNodes/Node_RegSpawner.h>
#include <gatery/hlim/supportNodes/Node_NegativeRegister.h>

using namespace gtry;

static std::string randBits(vh::Rng &rng, size_t w, int mode) {
	std::string s(w, '0');
	for (auto &c : s) {
		uint64_t r = rng.below(100);
		if (mode == 0) c = (r & 1) ? '1' : '0';
		else if (mode == 1) c = r < 12 ? 'X' : (r & 1) ? '1' : '0';
		else c = r < 50 ? 'X' : (r & 1) ? '1' : '0';
	}
	return s;
}

enum class Variant { PROBE, HINT, REF };

class RInterp : public nd::Interp {
public:
	Variant variant;
	std::map<std::string, size_t> knownN;       // REF / HINT: N per group from the probe build
	size_t sumN = 0;
	struct Grp { std::unique_ptr<PipeBalanceGroup> g; };
	std::map<std::string, Grp> groups;
	std::vector<std::string> groupOrder;
	std::vector<std::unique_ptr<EnableScope>> enStack;
	std::map<std::string, std::shared_ptr<Bit>> negEnable;
	struct Deferred { bool forward; hlim::NodePort port; std::string var; };
	std::vector<Deferred> deferred;
	std::vector<std::string> notes;
	bool keepRefs = false;
	size_t warmK = 0;

	bool hinted() const { return variant != Variant::REF; }

	void setU(const std::string &n, const UInt &v) { auto p = std::make_shared<nd::Val>(); p->v.emplace<UInt>(v); b.vars[n] = p; }
	void setB(const std::string &n, const Bit &v) { auto p = std::make_shared<nd::Val>(); p->v.emplace<Bit>(v); b.vars[n] = p; }

	static void parseOpts(const std::vector<std::string> &t, size_t from, std::string &rst) {
		for (size_t i = from; i + 1 < t.size(); i += 2) if (t[i] == "rst") rst = t[i + 1];
	}
	static UInt litU(const std::string &bits) { std::string ls = std::to_string(bits.size()) + "b" + bits; return UInt(ls.c_str()); }

	void plainReg(const std::string &name, const std::string &src, const std::string &rst, const RegisterSettings &rs) {
		nd::Val &a = get(src);
		if (a.isBit()) { if (rst.empty()) setB(name, reg(a.b(), rs)); else setB(name, reg(a.b(), rst == "1" ? '1' : '0', rs)); }
		else { if (rst.empty()) setU(name, reg(a.u(), rs)); else setU(name, reg(a.u(), litU(rst), rs)); }
	}

	void stmt(const std::vector<std::string> &t) override {
		const std::string &op = t[0];
		if (op == "enif") { enStack.push_back(std::make_unique<EnableScope>(asB(t[1]))); }
		else if (op == "endenif") { if (enStack.empty()) throw std::runtime_error("endenif"); enStack.pop_back(); }
		else if (op == "keeprefs") { keepRefs = true; }
		else if (op == "pipegroup") {
			groupOrder.push_back(t[1]);
			if (hinted()) groups[t[1]].g = std::make_unique<PipeBalanceGroup>();
			else groups[t[1]];
		}
		else if (op == "pipein") {
			std::string rst; parseOpts(t, 4, rst);
			nd::Val &a = get(t[3]);
			if (hinted()) {
				PipeBalanceGroup &g = *groups.at(t[2]).g;
				if (a.isBit()) { if (rst.empty()) setB(t[1], pipeinput<Bit>(a.b(), g)); else setB(t[1], pipeinput<Bit, Bit>(a.b(), Bit(rst == "1" ? '1' : '0'), g)); }
				else { if (rst.empty()) setU(t[1], pipeinput<UInt>(a.u(), g)); else setU(t[1], pipeinput<UInt, UInt>(a.u(), litU(rst), g)); }
			} else {
				size_t n = knownN.count(t[2]) ? knownN[t[2]] : 0;
				if (a.isBit()) { Bit x = a.b(); for (size_t i = 0; i < n; i++) { if (rst.empty()) x = reg(x); else x = reg(x, rst == "1" ? '1' : '0'); } setB(t[1], x); }
				else { UInt x = a.u(); for (size_t i = 0; i < n; i++) { if (rst.empty()) x = reg(x); else x = reg(x, litU(rst)); } setU(t[1], x); }
			}
		}
		else if (op == "pipestage") {
			nd::Val &a = get(t[2]);
			if (hinted()) { if (a.isBit()) setB(t[1], pipestage(a.b())); else setU(t[1], pipestage(a.u())); }
			else { if (a.isBit()) { Bit x = a.b(); setB(t[1], x); } else { UInt x = a.u(); setU(t[1], x); } }
		}
		else if (op == "regfwd" || op == "regbwd" || op == "regfb") {
			std::string rst; parseOpts(t, 3, rst);
			RegisterSettings rs;
			if (hinted()) { rs.allowRetimingForward = op != "regbwd"; rs.allowRetimingBackward = op != "regfwd"; }
			plainReg(t[1], t[2], rst, rs);
		}
		else if (op == "neg") {
			nd::Val &a = get(t[2]);
			if (hinted()) {
				if (a.isBit()) { auto [d, e] = negativeReg(a.b()); setB(t[1], d); negEnable[t[1]] = std::make_shared<Bit>(e); }
				else { auto [d, e] = negativeReg(a.u()); setU(t[1], d); negEnable[t[1]] = std::make_shared<Bit>(e); }
			} else { if (a.isBit()) { Bit x = a.b(); setB(t[1], x); } else { UInt x = a.u(); setU(t[1], x); } }
		}
		else if (op == "negpartner") {
			std::string rst; parseOpts(t, 4, rst);
			if (hinted()) {
				EnableScope es(*negEnable.at(t[3]));
				plainReg(t[1], t[2], rst, {});
			} else { nd::Val &a = get(t[2]); if (a.isBit()) { Bit x = a.b(); setB(t[1], x); } else { UInt x = a.u(); setU(t[1], x); } }
		}
		else if (op == "negen") {
			// negen NAME NEG [EN]: the enable output of negative register NEG as an ordinary signal (reference: the stall condition EN, or '1')
			if (hinted()) { Bit e = *negEnable.at(t[2]); setB(t[1], e); }
			else if (t.size() > 3) { Bit e = get(t[3]).b(); setB(t[1], e); }
			else { Bit e = '1'; setB(t[1], e); }
		}
		else if (op == "blocker") {
			nd::Val &a = get(t[2]);
			if (a.isBit()) setB(t[1], retimingBlocker(a.b())); else setU(t[1], retimingBlocker(a.u()));
		}
		else if (op == "retfwd" || op == "retbwd") {
			if (hinted()) {
				nd::Val &a = get(t[1]);
				hlim::NodePort np = a.isBit() ? (hlim::NodePort)a.b().readPort() : (hlim::NodePort)a.u().readPort();
				deferred.push_back({ op == "retfwd", np, t[1] });
			}
		}
		else if (op == "warm") {
			// warm NAME SRC D [EN]
			size_t D = std::stoull(t[3]);
			size_t K = variant == Variant::PROBE ? 0 : sumN + D;
			warmK = K;
			nd::Val &a = get(t[2]);
			if (K == 0) { if (a.isBit()) { Bit x = a.b(); setB(t[1], x); } else { UInt x = a.u(); setU(t[1], x); } }
			else {
				size_t w = 1; while ((1ull << w) <= K) w++;
				std::unique_ptr<EnableScope> es;
				if (t.size() > 4 && t[4] != "-") es = std::make_unique<EnableScope>(asB(t[4]));
				UInt cnt = BitWidth(w);
				UInt kc = ConstUInt(K, BitWidth(w));
				Bit filled = cnt == kc;
				UInt nxt = cnt + 1;
				UInt upd = mux(filled, { nxt, cnt });
				cnt = reg(upd, ConstUInt(0, BitWidth(w)));
				es.reset();
				if (a.isBit()) { Bit z = '0'; setB(t[1], mux(filled, { z, a.b() })); }
				else { UInt z = ConstUInt(0, a.u().width()); setU(t[1], mux(filled, { z, a.u() })); }
			}
		}
		else nd::Interp::stmt(t);
	}

	void runDeferred(hlim::Circuit &circuit) {
		for (auto &d : deferred) {
			hlim::Subnet all = hlim::Subnet::all(circuit);
			if (d.forward) {
				bool ok = hlim::retimeForwardToOutput(circuit, all, d.port, { .ignoreRefs = true, .failureIsError = false });
				notes.push_back(std::string("retfwd:") + d.var + (ok ? "=ok" : "=failed"));
			} else {
				hlim::Subnet area;
				bool ok = hlim::retimeBackwardtoOutput(circuit, all, {}, {}, area, d.port, true, false);
				notes.push_back(std::string("retbwd:") + d.var + (ok ? (area.empty() ? "=empty" : "=ok") : "=failed"));
			}
		}
	}
};

static size_t regBits(hlim::Circuit &c) {
	size_t n = 0;
	for (auto &nd : c.getNodes()) if (auto *r = dynamic_cast<hlim::Node_Register*>(nd.get())) n += r->getOutputConnectionType(0).width;
	return n;
}
static std::string leftovers(hlim::Circuit &c) {
	size_t sp = 0, ng = 0, hint = 0;
	for (auto &nd : c.getNodes()) {
		if (auto *s = dynamic_cast<hlim::Node_RegSpawner*>(nd.get())) { bool used = false; for (size_t i = 0; i < s->getNumOutputPorts(); i++) used |= !s->getDirectlyDriven(i).empty(); sp += used; }
		if (auto *s = dynamic_cast<hlim::Node_NegativeRegister*>(nd.get())) { if (!s->getDirectlyDriven(0).empty() || !s->getDirectlyDriven(1).empty()) ng++; }
		if (auto *s = dynamic_cast<hlim::Node_RegHint*>(nd.get())) { if (!s->getDirectlyDriven(0).empty()) hint++; }
	}
	std::ostringstream o; o << "spawner_live=" << sp << " negreg_live=" << ng << " hint_live=" << hint;
	return o.str();
}

int main(int argc, char **argv) {
	if (argc < 6) { std::cerr << "usage: C06_retime run|replay <programs> <nstim|stimfile> <cycles> <outdir>\n"; return 2; }
	std::string mode = argv[1];
	std::ifstream pin(argv[2]);
	std::map<std::string, std::vector<std::vector<std::string>>> fixedStim;
	size_t nStim = 0, cycles = 0;
	if (mode == "replay") {
		std::ifstream sf(argv[3]); std::string line;
		while (std::getline(sf, line)) {
			std::istringstream ls(line); std::string id, rest; ls >> id >> rest;
			std::vector<std::vector<std::string>> st;
			std::istringstream cs(rest); std::string cyc;
			while (std::getline(cs, cyc, ';')) {
				std::vector<std::string> pins; std::istringstream ps(cyc); std::string pv;
				while (std::getline(ps, pv, ',')) pins.push_back(pv == "e" ? std::string("") : pv);
				st.push_back(pins);
			}
			fixedStim[id] = st;
		}
	} else { nStim = std::stoull(argv[3]); cycles = std::stoull(argv[4]); }
	std::string outdir = argv[5];
	auto programs = nd::readPrograms(pin);
	uint64_t seed = vh::envSeed();
	size_t done = 0;
	for (auto &prog : programs) {
		std::ofstream info(outdir + "/" + prog.id + ".info");
		std::map<std::string, size_t> N; std::vector<std::string> order; size_t sumN = 0;
		bool probeOk = false;
		// ---- probe build: N per group ----
		try {
			DesignScope design;
			Clock clock({ .absoluteFrequency = 100'000'000 });
			ClockScope cs(clock);
			RInterp in; in.variant = Variant::PROBE;
			in.run(prog);
			while (!in.enStack.empty()) in.enStack.pop_back();
			if (!in.keepRefs) in.b.vars.clear();
			in.negEnable.clear();
			in.runDeferred(design.getCircuit());
			design.postprocess();
			for (auto &g : in.groupOrder) { N[g] = in.groups[g].g->getNumPipeBalanceGroupStages(); sumN += N[g]; }
			order = in.groupOrder;
			probeOk = true;
		} catch (const std::exception &e) {
			std::string msg = e.what(); for (auto &c : msg) if (c == '\n') c = ' ';
			info << "SKIP " << prog.id << " probe " << msg.substr(0, 400) << "\n";
		}
		std::string noteStr; size_t K = 0; size_t rb[2] = {0, 0}; bool bothOk = probeOk;
		for (int vi = 0; vi < 2; vi++) {
			std::string v = vi == 0 ? "hint" : "ref";
			std::string base = outdir + "/" + prog.id + "." + v;
			std::ofstream net(base + ".net"), trace(base + ".trace");
			if (!probeOk) { net << "SKIP " << prog.id << "." << v << "\n"; trace << "SKIP " << prog.id << "." << v << " probe failed\n"; continue; }
			try {
				DesignScope design;
				Clock clock({ .absoluteFrequency = 100'000'000 });
				ClockScope cs(clock);
				RInterp in; in.variant = vi == 0 ? Variant::HINT : Variant::REF; in.knownN = N; in.sumN = sumN;
				in.run(prog);
				while (!in.enStack.empty()) in.enStack.pop_back();
				if (!in.keepRefs) in.b.vars.clear();
				in.negEnable.clear();
				K = in.warmK;
				if (vi == 0) {
					in.runDeferred(design.getCircuit());
					design.postprocess();
					for (auto &g : in.groupOrder) {
						size_t n2 = in.groups[g].g->getNumPipeBalanceGroupStages();
						if (n2 != N[g]) in.notes.push_back("N-changed:" + g + "=" + std::to_string(n2));
					}
					noteStr = leftovers(design.getCircuit());
					for (auto &s : in.notes) noteStr += " " + s;
				}
				rb[vi] = regBits(design.getCircuit());
				nd::dumpNetlist(design.getCircuit(), net, prog.id + "." + v, false);
				auto pins = nd::findPins(design.getCircuit());
				if (mode == "replay") {
					auto it = fixedStim.find(prog.id);
					if (it != fixedStim.end())
						nd::runTrace(design.getCircuit(), hlim::ClockRational(1, 100'000'000), it->second, trace, prog.id + "." + v + " replay");
				}
				for (size_t k = 0; k < nStim; k++) {
					vh::Rng rng(seed * 1000003ull + std::hash<std::string>{}(prog.id) * 31ull + k);
					int m = k % 3;
					std::vector<std::vector<std::string>> stim(cycles);
					for (auto &cyc : stim) for (auto *p : pins.ins) cyc.push_back(randBits(rng, p->getConnectionType().width, m));
					nd::runTrace(design.getCircuit(), hlim::ClockRational(1, 100'000'000), stim, trace, prog.id + "." + v + " " + std::to_string(k));
				}
				done++;
			} catch (const std::exception &e) {
				bothOk = false;
				std::string msg = e.what(); for (auto &c : msg) if (c == '\n') c = ' ';
				trace << "SKIP " << prog.id << "." << v << " " << msg.substr(0, 400) << "\n";
				net << "SKIP " << prog.id << "." << v << "\n";
				info << "SKIP " << prog.id << " " << v << " " << msg.substr(0, 400) << "\n";
			}
		}
		if (bothOk) {
			info << "INFO " << prog.id << " N";
			for (auto &g : order) info << " " << g << "=" << N[g];
			info << " K=" << K << " regs_hint=" << rb[0] << " regs_ref=" << rb[1] << " " << noteStr << "\n";
		}
	}
	std::cerr << "built " << done << " design variants\n";
	return 0;
}
