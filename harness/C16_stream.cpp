// C16 harness: builds chains of the REAL gtry::scl::strm stages from a text description, drives them
// in the reference simulator with the per-cycle plan of the case file and logs every handshake signal.
//
//   C16_stream run <casefile> <out>
//   (every case runs under a wall-clock limit of C16_CASE_TIMEOUT seconds, default 20: SIGALRM ends the process, the output
//    file is flushed per case so that the first case without output is the one that did not finish)
//
// case file (written by checks/C16.py, every random choice derives from VERIF_SEED there):
//   C <id> w=<bits per digit> mw=<meta bits> min=<digits of the input payload> chain=<s1,s2,...>
//          hold=<0|1> polite=<0|1> pp=<0|1> eopg=<g> n=<cycles>
//   P <valid> <d0.d1...> <eop> <meta> <ready_out> <stall bits|->        one line per cycle (the plan)
//
//   stages:  rd  regDownstream          rb  regDownstreamBlocking     rr  regReady (skid buffer)
//            dc  regDecouple            dl<n> delay(n)                st<k> stall(condition pin k)
//            ex<r> extendWidth(ratio r) re<r> reduceWidth(ratio r)
//            ff<d> strm::fifo(minDepth d, DontCare)   fz<d> strm::fifo(minDepth d, latency 0 = fall-through)
//            fe<n*100+d> / fl<n*100+d> / fm<n*100+d>  strm::fifo(minDepth d, FifoLatency(n) / ::AtLeast(n) / ::AtMost(n))
//            px<r> Packet.h widthExtend(ratio r)      pr<r> Packet.h widthReduce(ratio r)
//            pm<t> Packet.h matchWidth(to t digits) -- stand-in, see below: the real template does not compile
//   be=1    : the stream additionally carries scl::ByteEnable (one enable bit per payload byte; w must be 8, so that a digit
//             is a byte) and scl::Error: RvPacketStream<UInt, TxId, ByteEnable, Error>.  Plan lines then have a 7th field,
//             the byte enables as one character per digit (digit 0 first), and an 8th, the error bit; the E lines carry the
//             same two columns on each side (undefined enable bits are printed as X).
//   sig=rs|v|s : other stream signatures of the library (no stall / fifo taps; prod=seq):
//             rs = RsPacketStream<UInt, TxId>  (Ready, Sop, Eop -- NO Valid: valid() is the library's derived accessor)
//             v  = VPacketStream<UInt, TxId>   (Valid, Eop -- no Ready: no back pressure, ready_out of the plan is ignored)
//             s  = SPacketStream<UInt, TxId>   (Sop, Eop -- neither Ready nor Valid)
//             For rs / s the first field of the P and E lines is SOP (driven on the first beat of every packet, derived
//             by the harness from the eop of the previous beat), not valid.  valid_out is what the library's accessor
//             valid(out) says (pinned out), and the E lines get two more output columns: sop_out ('-' while valid_out = 0)
//             and the raw value of the sop(out) signal in every cycle (not produced by the model; used by the oracle to
//             decide independently of valid() whether a beat is on offer).
//             ready_in is printed as 1 for streams without Ready.
//   em=1    : like eb=1 but with scl::Empty (number of empty BYTES of the eop beat; w must be 8): RvPacketStream<UInt, TxId, Empty>;
//             the extra field of the P / E lines is then in bytes.  (set eb=1 as well: same line format)
//   eb=1    : the stream additionally carries scl::EmptyBits (RvPacketStream<UInt, TxId, EmptyBits>); the plan lines then
//             have a 7th field, the emptyBits value of the beat, and the E lines one more column on each side.
//   hold=1  : the producer keeps valid/payload/eop/meta of a beat that was offered but not accepted
//             (the plan's beat of that cycle is skipped); hold=0: the plan is applied verbatim.
//   eopg=g>0: the eop of the i-th (1-based) offered valid beat is the plan's eop AND (i mod g == 0), so that
//             packet lengths are multiples of g (packets aligned to the extendWidth groups); g=0: verbatim.
//   prod=seq: the beat fields of the plan lines form a SEQUENCE of items (beats and idle slots) instead of being
//             cycle indexed: the producer moves on to the next item when the current beat was accepted (or after one
//             cycle for an idle slot), so packets arrive intact with pauses of exactly the planned length in front of
//             the planned beats.  ready_out / stall bits stay cycle indexed.  (implies hold)
//   polite=1: a stall condition is forced low in the cycle after one in which a beat was waiting
//             (valid & !ready) at that stall stage's own output; polite=0: verbatim.
//
// output:
//   C <same tokens> mout=<digits of the output payload>
//   E <valid_in> <payload_in> <eop_in> <meta_in> <ready_out> <stall bits|-> | <ready_in> <valid_out> <payload_out> <eop_out> <meta_out>
//      one line per clock cycle, values sampled immediately before the rising edge (WaitClock::DURING),
//      i.e. exactly what the registers clocked by that edge see.  payload/eop/meta of the output are
//      printed as '-' while valid_out = 0.  Payloads are printed as base-2^w digits, least significant first; a digit
//      with an undefined bit is printed as X (Packet.h widthExtend leaves the slots above a short last beat stale/undefined).
//   X <id> error=<text>        the real library threw while building / simulating this chain
#include "vh.h"
#include <gatery/scl/stream/strm.h>
#include <gatery/scl/stream/streamFifo.h>
#include <memory>
#include <unistd.h>

using namespace gtry;
using gtry::scl::strm::valid; using gtry::scl::strm::ready; using gtry::scl::strm::eop; using gtry::scl::strm::txid;

namespace {

using gtry::scl::strm::emptyBits; using gtry::scl::strm::byteEnable; using gtry::scl::strm::error;

struct PlanLine { bool v; std::vector<uint64_t> d; bool e; uint64_t m; bool r; std::string ctl; uint64_t eb = 0; std::string be; bool err = false; };

struct Case {
	std::string header;          // everything after "C "
	std::string id;
	size_t w = 4, mw = 3, min = 1, n = 0, eopg = 0;
	bool hold = true, polite = true, pp = true, eb = false, seq = false, be = false;
	std::string sig;
	bool em = false;
	std::vector<std::string> chain;
	std::vector<PlanLine> plan;
};

template<class H> std::string bitStr(const H &v) { return v.allDefined() ? ((bool)v ? "1" : "0") : "X"; }

std::vector<std::string> split(const std::string &s, char c)
{
	std::vector<std::string> r; std::string cur;
	for (char ch : s) { if (ch == c) { r.push_back(cur); cur.clear(); } else cur += ch; }
	r.push_back(cur);
	return r;
}

std::string digitsStr(const std::vector<uint64_t> &d)
{
	std::string s;
	for (size_t i = 0; i < d.size(); i++) { if (i) s += "."; s += std::to_string(d[i]); }
	return s;
}

// payloads may be wider than 64 bits: go through DefaultBitVectorState
std::string payloadStr(const sim::DefaultBitVectorState &st, size_t w, size_t digits)
{
	std::string s;
	for (size_t i = 0; i < digits; i++) {
		if (i) s += ".";
		uint64_t v = 0; bool def = true;
		for (size_t b = 0; b < w; b++) {
			size_t pos = i * w + b;
			if (pos >= st.size() || !st.get(sim::DefaultConfig::DEFINED, pos)) { def = false; break; }
			if (st.get(sim::DefaultConfig::VALUE, pos)) v |= 1ull << b;
		}
		s += def ? std::to_string(v) : std::string("X");
	}
	return s;
}

sim::DefaultBitVectorState packDigits(const std::vector<uint64_t> &d, size_t w, size_t digits)
{
	sim::DefaultBitVectorState st; st.resize(w * digits);
	for (size_t i = 0; i < digits; i++)
		for (size_t b = 0; b < w; b++) {
			st.set(sim::DefaultConfig::DEFINED, i * w + b, true);
			st.set(sim::DefaultConfig::VALUE, i * w + b, i < d.size() && ((d[i] >> b) & 1));
		}
	return st;
}

// byte enables: one character per digit, digit 0 first
sim::DefaultBitVectorState packBits(const std::string &bits, size_t n)
{
	sim::DefaultBitVectorState st; st.resize(n);
	for (size_t i = 0; i < n; i++) { st.set(sim::DefaultConfig::DEFINED, i, true); st.set(sim::DefaultConfig::VALUE, i, i < bits.size() && bits[i] == '1'); }
	return st;
}
std::string bitsStr(const sim::DefaultBitVectorState &st)
{
	std::string s;
	for (size_t i = 0; i < st.size(); i++) s += !st.get(sim::DefaultConfig::DEFINED, i) ? 'X' : st.get(sim::DefaultConfig::VALUE, i) ? '1' : '0';
	return s;
}

template<int MODE>
void runCaseT(const Case &c, std::ostream &out)
{
	constexpr bool EM = MODE == 3;                 // scl::Empty (empty BYTES of the eop beat), same line format as EmptyBits
	constexpr bool EB = MODE == 1 || EM, BE = MODE == 2;
	using S = std::conditional_t<EM, scl::RvPacketStream<UInt, scl::TxId, scl::Empty>,
	          std::conditional_t<EB, scl::RvPacketStream<UInt, scl::TxId, scl::EmptyBits>,
	          std::conditional_t<BE, scl::RvPacketStream<UInt, scl::TxId, scl::ByteEnable, scl::Error>, scl::RvPacketStream<UInt, scl::TxId>>>>;
	if (EM && c.w != 8) throw std::runtime_error("harness: em=1 needs w=8 (Empty counts bytes)");
	if (BE && c.w != 8) throw std::runtime_error("harness: be=1 needs w=8 (one enable bit per byte)");
	DesignScope design;
	Clock clk({ .absoluteFrequency = 100'000'000 });
	ClockScope cs(clk);

	S in{ UInt(BitWidth(c.w * c.min)) };
	txid(in) = BitWidth(c.mw);
	if constexpr (EM) scl::strm::empty(in) = BitWidth::last(c.min - 1);
	else if constexpr (EB) emptyBits(in) = BitWidth::count(c.w * c.min);
	if constexpr (BE) byteEnable(in) = BitWidth(c.min);
	pinIn(in, "in");

	// neutral first hop so that the pinned stream object is never moved from
	std::vector<std::unique_ptr<S>> keep;
	keep.emplace_back(new S(constructFrom(in)));
	*keep.back() <<= in;
	S *cur = keep.back().get();

	size_t digits = c.min;
	std::vector<Bit> stallPins;                  // index = k of st<k>
	std::vector<std::pair<Bit, Bit>> stallTaps;    // (valid, ready) at the stall stage's own output

	for (const std::string &tok : c.chain) {
		std::string kind = tok.substr(0, 2);
		size_t arg = tok.size() > 2 ? strtoull(tok.c_str() + 2, nullptr, 10) : 0;
		if (kind == "rd") keep.emplace_back(new S(scl::strm::regDownstream(std::move(*cur))));
		else if (kind == "rb") keep.emplace_back(new S(scl::strm::regDownstreamBlocking(std::move(*cur))));
		else if (kind == "rr") keep.emplace_back(new S(scl::strm::regReady(std::move(*cur))));
		else if (kind == "dc") keep.emplace_back(new S(scl::strm::regDecouple(*cur)));
		else if (kind == "dl") keep.emplace_back(new S(scl::strm::delay(std::move(*cur), arg)));
		else if (kind == "st") {
			if (stallPins.size() <= arg) stallPins.resize(arg + 1);
			if (stallTaps.size() <= arg) stallTaps.resize(arg + 1);
			stallPins[arg] = pinIn().setName("stall" + std::to_string(arg));
			keep.emplace_back(new S(scl::strm::stall(std::move(*cur), stallPins[arg])));
			Bit tv = valid(*keep.back()); Bit tr = ready(*keep.back());
			pinOut(tv).setName("tapv" + std::to_string(arg));
			pinOut(tr).setName("tapr" + std::to_string(arg));
			stallTaps[arg] = { tv, tr };
		}
		else if (kind == "ex") {
			digits *= arg;
			keep.emplace_back(new S(scl::strm::extendWidth(std::move(*cur), BitWidth(c.w * digits))));
		}
		else if (kind == "re") {
			if (arg == 0 || digits % arg) throw std::runtime_error("harness: reduce ratio does not divide the width");
			digits /= arg;
			keep.emplace_back(new S(scl::strm::reduceWidth(std::move(*cur), BitWidth(c.w * digits))));
		}
		else if (kind == "px") {
			digits *= arg;
			keep.emplace_back(new S(scl::strm::widthExtend(std::move(*cur), BitWidth(c.w * digits))));
		}
		else if (kind == "pr") {
			if (arg == 0 || digits % arg) throw std::runtime_error("harness: reduce ratio does not divide the width");
			digits /= arg;
			keep.emplace_back(new S(scl::strm::widthReduce(std::move(*cur), BitWidth(c.w * digits))));
		}
		else if (kind == "pm") {
			if (arg == 0 || (arg > digits ? arg % digits : digits % arg)) throw std::runtime_error("harness: matchWidth target is not a multiple / divisor");
			// scl::strm::matchWidth itself does not compile (Packet.h:798 calls in.width() on the Stream object; reported).
			// Stand-in: the same three-way choice on in->width(), calling the REAL widthExtend / widthReduce.
#ifdef C16_REAL_MATCHWIDTH
			keep.emplace_back(new S(scl::strm::matchWidth(std::move(*cur), BitWidth(c.w * arg))));
#else
			if (arg > digits) keep.emplace_back(new S(scl::strm::widthExtend(std::move(*cur), BitWidth(c.w * arg))));
			else if (arg < digits) keep.emplace_back(new S(scl::strm::widthReduce(std::move(*cur), BitWidth(c.w * arg))));
			else { keep.emplace_back(new S(constructFrom(*cur))); *keep.back() <<= *cur; }
#endif
			digits = arg;
		}
		else if (kind == "ff") keep.emplace_back(new S(scl::strm::fifo(std::move(*cur), arg, scl::FifoLatency::DontCare())));
		else if (kind == "fz") keep.emplace_back(new S(scl::strm::fifo(std::move(*cur), arg, scl::FifoLatency(0))));
		else if (kind == "fe") keep.emplace_back(new S(scl::strm::fifo(std::move(*cur), arg % 100, scl::FifoLatency(arg / 100))));
		else if (kind == "fl") keep.emplace_back(new S(scl::strm::fifo(std::move(*cur), arg % 100, scl::FifoLatency::AtLeast(arg / 100))));
		else if (kind == "fm") keep.emplace_back(new S(scl::strm::fifo(std::move(*cur), arg % 100, scl::FifoLatency::AtMost(arg / 100))));
		else throw std::runtime_error("harness: unknown stage " + tok);
		cur = keep.back().get();
	}
	S &o = *cur;
	pinOut(o, "out");
	if (c.pp) design.postprocess();

	out << "C " << c.header << " mout=" << digits << "\n";

	sim::ReferenceSimulator s(false);
	size_t nStall = stallPins.size();
	s.addSimulationProcess([&]()->SimProcess {
		size_t offered = 0, itemIdx = 0;
		auto take = [&](const PlanLine &p) {
			PlanLine b = p;
			if (b.v) { offered++; if (c.eopg) b.e = b.e && (offered % c.eopg == 0); }
			return b;
		};
		PlanLine curBeat = c.plan.empty() ? PlanLine{} : take(c.plan[0]);
		std::vector<bool> stallNow(nStall, false);
		auto apply = [&](const PlanLine &beat, const PlanLine &ctl, const std::vector<bool> &st) {
			simu(valid(in)) = beat.v ? '1' : '0';
			simu(*in) = packDigits(beat.d, c.w, c.min);
			simu(eop(in)) = beat.e ? '1' : '0';
			simu(txid(in)) = beat.m;
			if constexpr (EM) { if (scl::strm::empty(in).width().bits()) simu(scl::strm::empty(in)) = beat.eb; }
			else if constexpr (EB) simu(emptyBits(in)) = beat.eb;
			if constexpr (BE) { simu(byteEnable(in)) = packBits(beat.be, c.min); simu(error(in)) = beat.err ? '1' : '0'; }
			simu(ready(o)) = ctl.r ? '1' : '0';
			for (size_t k = 0; k < nStall; k++) simu(stallPins[k]) = st[k] ? '1' : '0';
		};
		auto wishStall = [&](const PlanLine &p, size_t k) { return k < p.ctl.size() && p.ctl[k] == '1'; };
		for (size_t k = 0; k < nStall; k++) stallNow[k] = !c.plan.empty() && wishStall(c.plan[0], k);
		if (!c.plan.empty()) apply(curBeat, c.plan[0], stallNow);
		for (size_t i = 0; i < c.plan.size(); i++) {
			co_await OnClk(clk);
			const PlanLine &p = c.plan[i];
			std::string ctlStr;
			for (size_t k = 0; k < nStall; k++) ctlStr += stallNow[k] ? '1' : '0';
			if (ctlStr.empty()) ctlStr = "-";
			std::string rin = bitStr(simu(ready(in)));
			std::string vo = bitStr(simu(valid(o)));
			out << "E " << (curBeat.v ? 1 : 0) << " " << digitsStr(curBeat.d) << " " << (curBeat.e ? 1 : 0) << " " << curBeat.m << " "
				<< (p.r ? 1 : 0) << " " << ctlStr;
			if constexpr (EB) out << " " << curBeat.eb;
			if constexpr (BE) { std::string b = curBeat.be; b.resize(c.min, '0'); out << " " << b << " " << (curBeat.err ? 1 : 0); }
			out << " | " << rin << " " << vo << " ";
			if (vo == "0") out << (BE ? "- - - - -\n" : EB ? "- - - -\n" : "- - -\n");
			else {
				auto m = simu(txid(o));
				out << payloadStr(simu(*o).eval(), c.w, digits) << " " << bitStr(simu(eop(o))) << " "
					<< (m.allDefined() ? std::to_string((uint64_t)m.value()) : std::string("X"));
				if constexpr (EM) {
					if (scl::strm::empty(o).width().bits() == 0) out << " 0";
					else { auto e = simu(scl::strm::empty(o)); out << " " << (e.allDefined() ? std::to_string((uint64_t)e.value()) : std::string("X")); }
				}
				else if constexpr (EB) { auto e = simu(emptyBits(o)); out << " " << (e.allDefined() ? std::to_string((uint64_t)e.value()) : std::string("X")); }
				if constexpr (BE) out << " " << bitsStr(simu(byteEnable(o)).eval()) << " " << bitStr(simu(error(o)));
				out << "\n";
			}
			if (i + 1 >= c.plan.size()) break;
			const PlanLine &nx = c.plan[i + 1];
			// producer: keep an offered, not yet accepted beat (hold=1)
			bool keepBeat = (c.hold || c.seq) && curBeat.v && rin != "1";
			if (c.seq) {
				if (!keepBeat) {
					itemIdx++;
					if (itemIdx < c.plan.size()) curBeat = take(c.plan[itemIdx]);
					else { curBeat.v = false; curBeat.e = false; }
				}
			}
			else if (!keepBeat) curBeat = take(nx);
			// stall conditions: must not rise while a beat waits at the stall stage's own output (polite=1)
			for (size_t k = 0; k < nStall; k++) {
				bool waiting = false;
				if (c.polite) {
					auto tv = simu(stallTaps[k].first); auto tr = simu(stallTaps[k].second);
					waiting = tv.allDefined() && (bool)tv && !(tr.allDefined() && (bool)tr);
				}
				stallNow[k] = wishStall(nx, k) && !waiting;
			}
			apply(curBeat, nx, stallNow);
		}
	});
	s.compileProgram(design.getCircuit());
	s.powerOn();
	s.advance(hlim::ClockRational(c.plan.size() + 4, 1) / clk.absoluteFrequency());
}


// ---------------------------------------------------------------------------------------------------------------------
// other stream signatures (sig=rs|v|s)
template<class ST, bool REDUCE> struct SigStages {
	static std::unique_ptr<ST> apply(const std::string &kind, size_t arg, ST &cur, size_t &digits, size_t w)
	{
		using namespace gtry::scl::strm;
		constexpr bool hasReady = ST::template has<scl::Ready>();
		if (kind == "rd") return std::unique_ptr<ST>(new ST(regDownstream(std::move(cur))));
		if (kind == "rb") return std::unique_ptr<ST>(new ST(regDownstreamBlocking(std::move(cur))));
		if (kind == "dl") return std::unique_ptr<ST>(new ST(delay(std::move(cur), arg)));
		if (kind == "px") { digits *= arg; return std::unique_ptr<ST>(new ST(widthExtend(std::move(cur), BitWidth(w * digits)))); }
		// regReady / regDecouple / fifo assign valid(ret) and do not compile for streams without a Valid signal
		if constexpr (hasReady) {
			if constexpr (REDUCE) {
				if (kind == "re") { if (!arg || digits % arg) throw std::runtime_error("harness: ratio"); digits /= arg; return std::unique_ptr<ST>(new ST(reduceWidth(std::move(cur), BitWidth(w * digits)))); }
				if (kind == "pr") { if (!arg || digits % arg) throw std::runtime_error("harness: ratio"); digits /= arg; return std::unique_ptr<ST>(new ST(widthReduce(std::move(cur), BitWidth(w * digits)))); }
			}
		}
		if constexpr (ST::template has<scl::Valid>()) {
			if (kind == "ex") { digits *= arg; return std::unique_ptr<ST>(new ST(extendWidth(std::move(cur), BitWidth(w * digits)))); }
		}
		throw std::runtime_error("harness: stage " + kind + " is not available for this stream signature");
	}
};

template<class ST>
void runCaseSig(const Case &c, std::ostream &out)
{
	constexpr bool hasReady = ST::template has<scl::Ready>(), hasValid = ST::template has<scl::Valid>(), hasSop = ST::template has<scl::Sop>();
	DesignScope design;
	Clock clk({ .absoluteFrequency = 100'000'000 });
	ClockScope cs(clk);

	ST in{ UInt(BitWidth(c.w * c.min)) };
	txid(in) = BitWidth(c.mw);
	pinIn(in, "in");
	std::vector<std::unique_ptr<ST>> keep;
	keep.emplace_back(new ST(constructFrom(in)));
	*keep.back() <<= in;
	ST *cur = keep.back().get();
	size_t digits = c.min;
	for (const std::string &tok : c.chain) {
		std::string kind = tok.substr(0, 2);
		size_t arg = tok.size() > 2 ? strtoull(tok.c_str() + 2, nullptr, 10) : 0;
		keep.push_back(SigStages<ST, true>::apply(kind, arg, *cur, digits, c.w));
		cur = keep.back().get();
	}
	ST &o = *cur;
	pinOut(o, "out");
	// the library's own view of "this stream offers a beat": for streams without Valid the derived accessor
	Bit voObs = valid(o);
	pinOut(voObs).setName("valid_out_observed");
	if (c.pp) design.postprocess();
	out << "C " << c.header << " mout=" << digits << "\n";

	sim::ReferenceSimulator s(false);
	s.addSimulationProcess([&]()->SimProcess {
		size_t itemIdx = 0; bool needSop = true;
		auto take = [&](const PlanLine &p, bool &sopFlag) { PlanLine b = p; sopFlag = false; if (b.v) { sopFlag = needSop; needSop = b.e; } return b; };
		bool curSop = false;
		PlanLine curBeat = c.plan.empty() ? PlanLine{} : take(c.plan[0], curSop);
		auto apply = [&](const PlanLine &beat, bool sopFlag, const PlanLine &ctl) {
			if constexpr (hasValid) simu(valid(in)) = beat.v ? '1' : '0';
			if constexpr (hasSop) simu(scl::strm::sop(in)) = sopFlag ? '1' : '0';
			simu(*in) = packDigits(beat.d, c.w, c.min);
			simu(eop(in)) = beat.e ? '1' : '0';
			simu(txid(in)) = beat.m;
			if constexpr (hasReady) simu(ready(o)) = ctl.r ? '1' : '0';
		};
		if (!c.plan.empty()) apply(curBeat, curSop, c.plan[0]);
		for (size_t i = 0; i < c.plan.size(); i++) {
			co_await OnClk(clk);
			const PlanLine &p = c.plan[i];
			std::string rin = "1";
			if constexpr (hasReady) rin = bitStr(simu(ready(in)));
			std::string vo = bitStr(simu(voObs));
			bool first = hasSop ? curSop : curBeat.v;
			out << "E " << (first ? 1 : 0) << " " << digitsStr(curBeat.d) << " " << (curBeat.e ? 1 : 0) << " " << curBeat.m << " "
				<< ((hasReady ? p.r : true) ? 1 : 0) << " - | " << rin << " " << vo << " ";
			if (vo != "1") out << (hasSop ? "- - - -" : "- - -");
			else {
				auto m = simu(txid(o));
				out << payloadStr(simu(*o).eval(), c.w, digits) << " " << bitStr(simu(eop(o))) << " "
					<< (m.allDefined() ? std::to_string((uint64_t)m.value()) : std::string("X"));
				if constexpr (hasSop) out << " " << bitStr(simu(scl::strm::sop(o)));
			}
			if constexpr (hasSop) out << " " << bitStr(simu(scl::strm::sop(o))) << "/" << bitStr(simu(eop(o)));
			out << "\n";
			if (i + 1 >= c.plan.size()) break;
			bool keepBeat = hasReady && curBeat.v && rin != "1";
			if (!keepBeat) {
				itemIdx++;
				if (itemIdx < c.plan.size()) curBeat = take(c.plan[itemIdx], curSop);
				else { curBeat.v = false; curBeat.e = false; curSop = false; }
			}
			apply(curBeat, curSop, c.plan[i + 1]);
		}
	});
	s.compileProgram(design.getCircuit());
	s.powerOn();
	s.advance(hlim::ClockRational(c.plan.size() + 4, 1) / clk.absoluteFrequency());
}

void runCase(const Case &c, std::ostream &out)
{
	if (c.sig == "rs") runCaseSig<scl::RsPacketStream<UInt, scl::TxId>>(c, out);
	else if (c.sig == "v") runCaseSig<scl::VPacketStream<UInt, scl::TxId>>(c, out);
	else if (c.sig == "s") runCaseSig<scl::SPacketStream<UInt, scl::TxId>>(c, out);
	else if (c.be) runCaseT<2>(c, out); else if (c.em) runCaseT<3>(c, out); else if (c.eb) runCaseT<1>(c, out); else runCaseT<0>(c, out);
}

bool parseHeader(const std::string &line, Case &c)
{
	c = Case{};
	c.header = line.substr(2);
	std::stringstream ss(c.header);
	std::string t; bool first = true;
	while (ss >> t) {
		if (first) { c.id = t; first = false; continue; }
		auto eq = t.find('=');
		if (eq == std::string::npos) continue;
		std::string k = t.substr(0, eq), v = t.substr(eq + 1);
		if (k == "w") c.w = strtoull(v.c_str(), nullptr, 10);
		else if (k == "mw") c.mw = strtoull(v.c_str(), nullptr, 10);
		else if (k == "min") c.min = strtoull(v.c_str(), nullptr, 10);
		else if (k == "n") c.n = strtoull(v.c_str(), nullptr, 10);
		else if (k == "hold") c.hold = v == "1";
		else if (k == "polite") c.polite = v == "1";
		else if (k == "pp") c.pp = v == "1";
		else if (k == "eb") c.eb = v == "1";
		else if (k == "be") c.be = v == "1";
		else if (k == "em") c.em = v == "1";
		else if (k == "sig") c.sig = v;
		else if (k == "prod") c.seq = v == "seq";
		else if (k == "eopg") c.eopg = strtoull(v.c_str(), nullptr, 10);
		else if (k == "chain") { c.chain.clear(); if (v != "-") c.chain = split(v, ','); }
	}
	return true;
}

} // namespace

int main(int argc, char **argv)
{
	if (argc < 4 || std::string(argv[1]) != "run") { fprintf(stderr, "usage: C16_stream run <casefile> <out>\n"); return 2; }
	std::ifstream inF(argv[2]);
	std::ofstream out(argv[3]);
	if (!inF || !out) { fprintf(stderr, "C16_stream: cannot open files\n"); return 2; }
	std::vector<Case> cases;
	std::string line;
	while (std::getline(inF, line)) {
		if (line.size() < 2) continue;
		if (line[0] == 'C') { cases.emplace_back(); parseHeader(line, cases.back()); }
		else if (line[0] == 'P' && !cases.empty()) {
			std::stringstream ss(line.substr(2));
			std::string v, d, e, m, r, ctl, ebs, errs;
			ss >> v >> d >> e >> m >> r >> ctl >> ebs >> errs;
			PlanLine p;
			p.v = v == "1"; p.e = e == "1"; p.r = r == "1"; p.m = strtoull(m.c_str(), nullptr, 10);
			for (auto &x : split(d, '.')) p.d.push_back(strtoull(x.c_str(), nullptr, 10));
			p.ctl = ctl == "-" ? "" : ctl;
			if (cases.back().be) { p.be = ebs; p.err = errs == "1"; }
			else p.eb = ebs.empty() ? 0 : strtoull(ebs.c_str(), nullptr, 10);
			cases.back().plan.push_back(p);
		}
	}
	// per-case wall-clock limit: a stage that does not elaborate / simulate within the limit kills the process with SIGALRM;
	// the output is flushed after every case, so the caller sees which case it was (the first one without output)
	unsigned limit = 20;
	if (const char *e = getenv("C16_CASE_TIMEOUT")) limit = (unsigned)strtoul(e, nullptr, 10);
	for (auto &c : cases) {
		std::ostringstream tmp;
		alarm(limit);
		try { runCase(c, tmp); alarm(0); out << tmp.str(); out.flush(); }
		catch (const std::exception &e) {
			std::string msg = e.what(); for (auto &ch : msg) if (ch == '\n') ch = ' ';
			alarm(0);
			out << "X " << c.id << " error=" << msg.substr(0, 400) << "\n"; out.flush();
		}
	}
	return 0;
}
