// C04 harness: register networks under generated clock configurations in the REAL
// ReferenceSimulator, observed through SimulatorCallbacks.
//
//   C04_clk <casefile> <outfile>
//
// Case file (written by checks/C04.py; the OCaml driver of the extracted model reads the same file):
//   case <id>
//   clock <idx> parent=<p|-> freq=<n>/<d> name=<n> rstname=<n> trig=<R|F|B> psync=<0|1> rst=<S|A|N> act=<H|L> init=<0|1> mrt=<n>/<d> mrc=<n>
//          (freq: absolute frequency of a root clock, multiplier relative to the parent of a derived clock;
//           any of freq (derived only) name rstname (derived only) trig psync rst act init may be "-": the optional
//           ClockConfig field is then left UNSET, i.e. inherited from the parent / defaulted by the frontend)
//   input <idx> w=<width> clk=<c>       (the pin is created inside ClockScope(c), i.e. attached to that clock)
//   reg <idx> clk=<c> w=<width> rstval=<bits|-> d=<expr|-> en=<expr|-> [scopes=<s>;<s>;..]
//          (scopes: the register is created by the frontend's reg() inside these nested scopes, outermost first:
//           E:<expr> ENIF, A ENALWAYS, I:<expr> IF, L:<expr> ELSE branch of IF(<expr>); en must then be -)
//   order <r>*                         (model only: order in which clocked nodes are visited; ignored here)
//   rstev <n>/<d> <clk> <0|1>          extra Event::Type::resetValueChange pushed into m_nextEvents after powerOn
//   stim <n>/<d> <pin>=<bits> ...      one simulation process: WaitFor until that time, then drive the pins
//   steps <n>                          number of advanceEvent() calls
//   end
// expr (no blanks): r<i> register output | i<j> input pin | c<bits> constant (MSB first, 0 1 X) |
//   x(a,b) xor | a(a,b) and | o(a,b) or | n(a) not | p(a) a+1 | b<k>(a) bit k of a (1 bit wide)
//   A register output that is consumed in another clock goes through allowClockDomainCrossing (Node_CDC).
//
// Output, per case:
//   case <id>
//   E <clk> trig= rst= act= init= psync= name= rstname= f=     effective attributes read back from the hlim clock
//   A <clk> pin=<src> rst=<src|-> f=<n>/<d>           one line per clock that got a clock pin (relevant clocks)
//   H <rstsrc> <n>/<d>                                 reset hold time used by powerOn for each reset pin
//   T <n>/<d> C <clk>:<r|f>:<k>,.. R <clk>:<0|1>,.. V <bits> <bits> ..    one line per onCommitState
//                                                      (the line of time 0 lists the onReset calls of powerOn)
//   end
// and a final line "MAXDEN <n>" (largest numerator/denominator of any simulation time seen).
#include "vh.h"
#include <gatery/hlim/coreNodes/Node_Register.h>
#include <gatery/hlim/supportNodes/Node_CDC.h>
#include <gatery/hlim/Clock.h>
#include <gatery/simulation/SimulatorCallbacks.h>
#include <cstring>
#include <map>
#include <memory>
#include <optional>

using namespace gtry;
using Rat = hlim::ClockRational;

static uint64_t g_maxden = 0;
static void noteRat(const Rat &r) { g_maxden = std::max({g_maxden, (uint64_t)r.numerator(), (uint64_t)r.denominator()}); }

static std::vector<std::string> split(const std::string &s, char sep = ' ') {
	std::vector<std::string> r; std::string cur;
	for (char c : s) { if (c == sep) { if (!cur.empty()) r.push_back(cur); cur.clear(); } else cur.push_back(c); }
	if (!cur.empty()) r.push_back(cur);
	return r;
}
static Rat parseRat(const std::string &s) {
	auto p = s.find('/');
	if (p == std::string::npos) throw std::runtime_error("bad rational " + s);
	return Rat(std::stoull(s.substr(0, p)), std::stoull(s.substr(p + 1)));
}
static std::string kv(const std::vector<std::string> &tok, const std::string &key) {
	for (auto &t : tok) if (t.rfind(key + "=", 0) == 0) return t.substr(key.size() + 1);
	throw std::runtime_error("missing key " + key);
}
static std::string ratStr(const Rat &r) { return std::to_string(r.numerator()) + "/" + std::to_string(r.denominator()); }

// optional ClockConfig fields are kept as text: "-" = left unset (the frontend then inherits from the parent / uses the default)
struct ClockSpec { int idx, parent; std::string freq, name, rstname, trig, psync, rst, act, init; Rat mrt; size_t mrc; };
struct RegSpec { int idx, clk; size_t w; std::string rstval, d, en, scopes; };
struct Stim { Rat t; std::vector<std::pair<int, std::string>> writes; };
struct RstEv { Rat t; int clk; bool level; };
struct Case {
	std::string id;
	std::vector<ClockSpec> clocks; struct InSpec { int idx; size_t w; int clk; }; std::vector<InSpec> inputs; std::vector<RegSpec> regs;
	std::vector<Stim> stims; std::vector<RstEv> rstevs; size_t steps = 0;
};

// ---- expression parser ----------------------------------------------------------------------
struct Expr { char op = 0; int idx = 0; std::string bits; std::vector<Expr> args; };
static Expr parseExpr(const std::string &s, size_t &p) {
	Expr e;
	if (p >= s.size()) throw std::runtime_error("expr: unexpected end");
	char c = s[p++];
	auto num = [&]() { size_t q = p; while (q < s.size() && isdigit((unsigned char)s[q])) q++; if (q == p) throw std::runtime_error("expr: number expected"); int v = std::stoi(s.substr(p, q - p)); p = q; return v; };
	auto args = [&](size_t n) { if (p >= s.size() || s[p] != '(') throw std::runtime_error("expr: ( expected"); p++; for (size_t i = 0; i < n; i++) { e.args.push_back(parseExpr(s, p)); if (i + 1 < n) { if (s[p] != ',') throw std::runtime_error("expr: , expected"); p++; } } if (s[p] != ')') throw std::runtime_error("expr: ) expected"); p++; };
	e.op = c;
	switch (c) {
		case 'r': case 'i': e.idx = num(); break;
		case 'c': { size_t q = p; while (q < s.size() && (s[q] == '0' || s[q] == '1' || s[q] == 'X')) q++; e.bits = s.substr(p, q - p); p = q; } break;
		case 'x': case 'a': case 'o': args(2); break;
		case 'n': case 'p': args(1); break;
		case 'b': e.idx = num(); args(1); break;
		default: throw std::runtime_error(std::string("expr: unknown operator ") + c);
	}
	return e;
}

struct Builder {
	const Case &cs;
	std::vector<Clock> &clocks;
	std::vector<UInt> &regPh;   // placeholder signals of the register outputs (feedback idiom)
	std::vector<UInt> &inSig;
	UInt build(const Expr &e, int dstClk) {
		switch (e.op) {
			case 'r': {
				UInt s = regPh.at(e.idx);
				int src = cs.regs.at(e.idx).clk;
				if (src != dstClk)
					s = allowClockDomainCrossing(s, clocks.at(src), clocks.at(dstClk));
				return s;
			}
			case 'i': {
				UInt s = inSig.at(e.idx);
				int src = cs.inputs.at(e.idx).clk;
				if (src != dstClk)
					s = allowClockDomainCrossing(s, clocks.at(src), clocks.at(dstClk));
				return s;
			}
			case 'c': {
				auto *n = DesignScope::createNode<hlim::Node_Constant>(vh::fromBits(e.bits), hlim::ConnectionType::BITVEC);
				return UInt(SignalReadPort(n));
			}
			case 'x': return build(e.args[0], dstClk) ^ build(e.args[1], dstClk);
			case 'a': return build(e.args[0], dstClk) & build(e.args[1], dstClk);
			case 'o': return build(e.args[0], dstClk) | build(e.args[1], dstClk);
			case 'n': return ~build(e.args[0], dstClk);
			case 'p': return build(e.args[0], dstClk) + 1;
			case 'b': { UInt a = build(e.args[0], dstClk); return a(e.idx, 1_b); }
		}
		throw std::runtime_error("build: bad expr");
	}
};

// ---- registers created through the frontend inside nested scopes --------------------------------------
// scopes=<s>;<s>;...  outermost first;  s = E:<expr> ENIF | A ENALWAYS | I:<expr> IF | L:<expr> the ELSE branch of IF(<expr>)
// The register is made by the frontend's reg() at the innermost level, i.e. its ENABLE is whatever
// EnableScope / ConditionalScope accumulated (internal::reg: scope->getFullEnableCondition()).
struct ScopeInst { char kind; Bit cond; };
static hlim::Node_Register *makeScopedReg(const std::vector<ScopeInst> &sc, size_t level, const UInt &d, const std::optional<UInt> &rv, const Clock &clk) {
	if (level == sc.size()) {
		RegisterSettings st; st.clock = clk;
		UInt q = rv ? reg(d, *rv, st) : reg(d, st);
		hlim::NodePort p = q.readPort();
		for (int i = 0; i < 8 && p.node && !dynamic_cast<hlim::Node_Register *>(p.node); i++) p = p.node->getNonSignalDriver(0);
		auto *r = dynamic_cast<hlim::Node_Register *>(p.node);
		if (!r) throw std::runtime_error("scoped reg: register node not found");
		return r;
	}
	hlim::Node_Register *res = nullptr;
	switch (sc[level].kind) {
		case 'E': ENIF (sc[level].cond) res = makeScopedReg(sc, level + 1, d, rv, clk); break;
		case 'A': ENALWAYS res = makeScopedReg(sc, level + 1, d, rv, clk); break;
		case 'I': IF (sc[level].cond) res = makeScopedReg(sc, level + 1, d, rv, clk); break;
		case 'L': IF (sc[level].cond) { } ELSE res = makeScopedReg(sc, level + 1, d, rv, clk); break;
		default: throw std::runtime_error("bad scope kind");
	}
	return res;
}

// ---- simulator with access to the event queue --------------------------------------------------
struct Sim : public sim::ReferenceSimulator {
	Sim() : sim::ReferenceSimulator(false) {}
	void pushReset(hlim::Clock *src, bool level, const Rat &t) {
		for (size_t i = 0; i < m_program.m_resetSources.size(); i++)
			if (m_program.m_resetSources[i].pin == src) {
				sim::Event e;
				e.type = sim::Event::Type::resetValueChange;
				e.data = sim::Event::ResetValueChangeEvt{ .resetPinIdx = i, .newResetHigh = level };
				e.timeOfEvent = t;
				m_nextEvents.push(e);
				return;
			}
		throw std::runtime_error("pushReset: clock is not a reset pin source");
	}
	const sim::Program &program() const { return m_program; }
};

struct Observer : public sim::SimulatorCallbacks {
	Sim *sim = nullptr;
	std::ostream *out = nullptr;
	std::map<const hlim::Clock *, int> clkIdx;
	std::vector<hlim::Node_Register *> regs;
	bool inPowerOn = true;
	Rat now{0, 1};
	std::map<int, bool> clkEv; std::map<int, bool> rstEv; std::map<int, uint64_t> count;
	void onNewTick(const Rat &t) override { now = t; noteRat(t); }
	void onClock(const hlim::Clock *c, bool rising) override { if (inPowerOn) return; int i = clkIdx.at(c); if (clkEv.count(i)) throw std::runtime_error("two clock events of one pin in one instant"); clkEv[i] = rising; count[i]++; }
	std::vector<std::pair<int, bool>> powerOnResets;
	void onReset(const hlim::Clock *c, bool level) override { if (inPowerOn) { powerOnResets.push_back({ clkIdx.at(c), level }); return; } int i = clkIdx.at(c); if (rstEv.count(i)) throw std::runtime_error("two reset events of one pin in one instant"); rstEv[i] = level; }
	void onCommitState() override {
		auto &o = *out;
		o << "T " << ratStr(now) << " C ";
		bool first = true;
		for (auto &p : clkEv) { o << (first ? "" : ",") << p.first << ":" << (p.second ? "r" : "f") << ":" << count[p.first]; first = false; }
		if (first) o << "-";
		o << " R ";
		first = true;
		// powerOn: the onReset calls in call order per pin (a pin may be asserted and released at once)
		std::stable_sort(powerOnResets.begin(), powerOnResets.end(), [](auto &a, auto &b) { return a.first < b.first; });
		for (auto &p : powerOnResets) { o << (first ? "" : ",") << p.first << ":" << (p.second ? 1 : 0); first = false; }
		powerOnResets.clear();
		for (auto &p : rstEv) { o << (first ? "" : ",") << p.first << ":" << (p.second ? 1 : 0); first = false; }
		if (first) o << "-";
		o << " V";
		for (auto *r : regs) o << " " << vh::bits(sim->getValueOfOutput({ .node = r, .port = 0ull }));
		o << "\n";
		clkEv.clear(); rstEv.clear();
	}
};

static void runCase(const Case &cs, std::ostream &out) {
	DesignScope design;
	std::vector<Clock> clocks;
	for (auto &c : cs.clocks) {
		ClockConfig cfg;
		if (c.parent < 0) { if (c.freq == "-" || c.name == "-" || c.rstname == "-") throw std::runtime_error("root clock needs freq, name, rstname"); cfg.absoluteFrequency = parseRat(c.freq); }
		else if (c.freq != "-") cfg.frequencyMultiplier = parseRat(c.freq);
		if (c.name != "-") cfg.name = "clk" + c.name;
		if (c.rstname != "-") cfg.resetName = "rst" + c.rstname;
		if (c.trig != "-") cfg.triggerEvent = c.trig == "R" ? ClockConfig::TriggerEvent::RISING : c.trig == "F" ? ClockConfig::TriggerEvent::FALLING : ClockConfig::TriggerEvent::RISING_AND_FALLING;
		if (c.psync != "-") cfg.phaseSynchronousWithParent = c.psync == "1";
		if (c.rst != "-") cfg.resetType = c.rst == "S" ? ClockConfig::ResetType::SYNCHRONOUS : c.rst == "A" ? ClockConfig::ResetType::ASYNCHRONOUS : ClockConfig::ResetType::NONE;
		if (c.init != "-") cfg.initializeRegs = c.init == "1";
		if (c.act != "-") cfg.resetActive = c.act == "H" ? ClockConfig::ResetActive::HIGH : ClockConfig::ResetActive::LOW;
		if (c.parent < 0) clocks.push_back(Clock(cfg)); else clocks.push_back(clocks.at(c.parent).deriveClock(cfg));
		clocks.back().getClk()->setMinResetTime(c.mrt);
		clocks.back().getClk()->setMinResetCycles(c.mrc);
	}
	// NB: UInt's move constructor has hardware semantics (it re-assigns the source), so the vectors must never reallocate
	std::vector<UInt> inSig; inSig.reserve(cs.inputs.size());
	for (auto &i : cs.inputs) { ClockScope scope(clocks.at(i.clk)); inSig.emplace_back(pinIn(BitWidth(i.w)).setName("i" + std::to_string(i.idx))); }
	std::vector<UInt> regPh; regPh.reserve(cs.regs.size());
	for (auto &r : cs.regs) regPh.emplace_back(BitWidth(r.w));
	Builder b{ cs, clocks, regPh, inSig };
	std::vector<hlim::Node_Register *> regNodes;
	for (auto &r : cs.regs) {
		if (!r.scopes.empty()) {
			// everything the scopes and the register read is built OUTSIDE the scopes (no conditional assignments)
			if (r.d == "-" || r.en != "-") throw std::runtime_error("scoped register needs d= and en=-");
			std::vector<ScopeInst> sc;
			for (auto &t : split(r.scopes, ';')) {
				if (t == "A") { sc.push_back({ 'A', Bit('1') }); continue; }
				if (t.size() < 3 || t[1] != ':') throw std::runtime_error("bad scope " + t);
				size_t p = 0; Expr e = parseExpr(t.substr(2), p); UInt c = b.build(e, r.clk);
				if (c.width().bits() != 1) throw std::runtime_error("scope condition must be one bit");
				sc.push_back({ t[0], c[0] });
			}
			size_t p = 0; Expr e = parseExpr(r.d, p); UInt d = b.build(e, r.clk);
			if (d.width().bits() != r.w) throw std::runtime_error("data width mismatch");
			std::optional<UInt> rv;
			if (r.rstval != "-") { auto *n = DesignScope::createNode<hlim::Node_Constant>(vh::fromBits(r.rstval), hlim::ConnectionType::BITVEC); rv.emplace(SignalReadPort(n)); }
			auto *reg = makeScopedReg(sc, 0, d, rv, clocks.at(r.clk));
			reg->setName("r" + std::to_string(r.idx));
			regNodes.push_back(reg);
			continue;
		}
		auto *reg = DesignScope::createNode<hlim::Node_Register>();
		reg->setName("r" + std::to_string(r.idx));
		if (r.rstval != "-") {
			auto *n = DesignScope::createNode<hlim::Node_Constant>(vh::fromBits(r.rstval), hlim::ConnectionType::BITVEC);
			reg->connectInput(hlim::Node_Register::RESET_VALUE, { .node = n, .port = 0ull });
		}
		if (r.d != "-") { size_t p = 0; Expr e = parseExpr(r.d, p); UInt d = b.build(e, r.clk); if (d.width().bits() != r.w) throw std::runtime_error("data width mismatch"); reg->connectInput(hlim::Node_Register::DATA, d.readPort()); }
		if (r.en != "-") { size_t p = 0; Expr e = parseExpr(r.en, p); UInt en = b.build(e, r.clk); if (en.width().bits() != 1) throw std::runtime_error("enable must be one bit"); Bit enb = en[0]; reg->connectInput(hlim::Node_Register::ENABLE, enb.readPort()); }
		reg->setClock(clocks.at(r.clk).getClk());
		regNodes.push_back(reg);
	}
	for (size_t i = 0; i < cs.regs.size(); i++) {
		UInt q(SignalReadPort(regNodes[i]));
		regPh[i] = q;            // first assignment to the (already read) placeholder closes the loop
		ClockScope scope(clocks.at(cs.regs[i].clk));   // the output pin belongs to the register's clock (CDC check)
		pinOut(regPh[i]).setName("o" + std::to_string(i));
	}
	// postprocessing that only resolves frontend artefacts; optimisation passes are C01's subject
	design.getCircuit().postprocess(hlim::MinimalPostprocessing{});

	Sim sim;
	Observer obs; obs.sim = &sim; obs.out = &out; obs.regs = regNodes;
	for (size_t i = 0; i < clocks.size(); i++) obs.clkIdx[clocks[i].getClk()] = (int)i;
	sim.addCallbacks(&obs);
	auto stims = cs.stims;
	sim.addSimulationProcess([&inSig, stims]() -> SimProcess {
		Rat prev(0, 1);
		for (auto &st : stims) {
			if (st.t > prev) { co_await WaitFor(st.t - prev); prev = st.t; }
			for (auto &w : st.writes) simu(inSig.at(w.first)) = vh::fromBits(w.second);
		}
		co_return;
	});
	sim.compileProgram(design.getCircuit());

	// effective attributes of every hlim clock as the frontend left them (inheritance of unset ClockConfig fields)
	for (size_t i = 0; i < clocks.size(); i++) {
		hlim::Clock *k = clocks[i].getClk();
		auto &ra = k->getRegAttribs();
		auto strip = [](const std::string &n, const char *pre) { return n.rfind(pre, 0) == 0 ? n.substr(strlen(pre)) : "?" + n; };
		Rat f = k->getParentClock() ? dynamic_cast<hlim::DerivedClock *>(k)->getFrequencyMuliplier() : k->absoluteFrequency();
		out << "E " << i << " trig=" << (k->getTriggerEvent() == hlim::Clock::TriggerEvent::RISING ? "R" : k->getTriggerEvent() == hlim::Clock::TriggerEvent::FALLING ? "F" : "B")
			<< " rst=" << (ra.resetType == hlim::RegisterAttributes::ResetType::SYNCHRONOUS ? "S" : ra.resetType == hlim::RegisterAttributes::ResetType::ASYNCHRONOUS ? "A" : "N")
			<< " act=" << (ra.resetActive == hlim::RegisterAttributes::Active::HIGH ? "H" : "L")
			<< " init=" << (ra.initializeRegs ? 1 : 0) << " psync=" << (k->getPhaseSynchronousWithParent() ? 1 : 0)
			<< " name=" << strip(k->getName(), "clk") << " rstname=" << strip(k->getResetName(), "rst") << " f=" << ratStr(f) << "\n";
	}
	// allocation summary
	auto &alloc = sim.program().m_stateMapping.clockPinAllocation;
	for (size_t i = 0; i < clocks.size(); i++) {
		auto it = alloc.clock2ClockPinIdx.find(clocks[i].getClk());
		if (it == alloc.clock2ClockPinIdx.end()) continue;
		out << "A " << i << " pin=" << obs.clkIdx.at(alloc.clockPins[it->second].source);
		auto it2 = alloc.clock2ResetPinIdx.find(clocks[i].getClk());
		if (it2 == alloc.clock2ResetPinIdx.end()) out << " rst=-"; else out << " rst=" << obs.clkIdx.at(alloc.resetPins[it2->second].source);
		out << " f=" << ratStr(clocks[i].absoluteFrequency()) << "\n";
		noteRat(clocks[i].absoluteFrequency());
	}
	{
		std::map<int, Rat> hold;
		for (auto &rp : alloc.resetPins) {
			Rat t = std::max(rp.minResetTime, Rat(rp.minResetCycles, 1) / rp.source->absoluteFrequency());
			hold[obs.clkIdx.at(rp.source)] = t;
		}
		for (auto &h : hold) out << "H " << h.first << " " << ratStr(h.second) << "\n";
	}

	obs.inPowerOn = true;
	sim.powerOn();
	obs.inPowerOn = false;
	for (auto &re : cs.rstevs) sim.pushReset(clocks.at(re.clk).getClk(), re.level, re.t);
	for (size_t i = 0; i < cs.steps; i++) sim.advanceEvent();
}

int main(int argc, char **argv) {
	if (argc < 3) { fprintf(stderr, "usage: C04_clk <casefile> <outfile>\n"); return 2; }
	std::ifstream in(argv[1]);
	std::ofstream out(argv[2]);
	if (!in || !out) { fprintf(stderr, "cannot open files\n"); return 2; }
	std::string line; Case cs; bool open = false;
	while (std::getline(in, line)) {
		auto tok = split(line);
		if (tok.empty() || tok[0][0] == '#') continue;
		try {
			if (tok[0] == "case") { cs = Case{}; cs.id = tok.at(1); open = true; }
			else if (!open) throw std::runtime_error("line outside a case: " + line);
			else if (tok[0] == "clock") {
				ClockSpec c; c.idx = std::stoi(tok.at(1)); auto p = kv(tok, "parent"); c.parent = p == "-" ? -1 : std::stoi(p);
				c.freq = kv(tok, "freq"); c.name = kv(tok, "name"); c.rstname = kv(tok, "rstname");
				c.trig = kv(tok, "trig"); c.psync = kv(tok, "psync"); c.rst = kv(tok, "rst"); c.act = kv(tok, "act");
				c.init = kv(tok, "init"); c.mrt = parseRat(kv(tok, "mrt")); c.mrc = std::stoull(kv(tok, "mrc"));
				if (c.idx != (int)cs.clocks.size()) throw std::runtime_error("clock numbering");
				cs.clocks.push_back(c);
			} else if (tok[0] == "input") { cs.inputs.push_back({ std::stoi(tok.at(1)), std::stoull(kv(tok, "w")), std::stoi(kv(tok, "clk")) }); }
			else if (tok[0] == "reg") {
				RegSpec r; r.idx = std::stoi(tok.at(1)); r.clk = std::stoi(kv(tok, "clk")); r.w = std::stoull(kv(tok, "w")); r.rstval = kv(tok, "rstval"); r.d = kv(tok, "d"); r.en = kv(tok, "en");
				r.scopes = "";
				for (auto &t : tok) if (t.rfind("scopes=", 0) == 0) r.scopes = t.substr(7);
				if (r.idx != (int)cs.regs.size()) throw std::runtime_error("reg numbering");
				cs.regs.push_back(r);
			} else if (tok[0] == "order") { }
			else if (tok[0] == "rstev") { cs.rstevs.push_back({ parseRat(tok.at(1)), std::stoi(tok.at(2)), tok.at(3) == "1" }); }
			else if (tok[0] == "stim") {
				Stim s; s.t = parseRat(tok.at(1));
				for (size_t i = 2; i < tok.size(); i++) { auto p = tok[i].find('='); s.writes.push_back({ std::stoi(tok[i].substr(0, p)), tok[i].substr(p + 1) }); }
				cs.stims.push_back(s);
			} else if (tok[0] == "steps") cs.steps = std::stoull(tok.at(1));
			else if (tok[0] == "end") {
				out << "case " << cs.id << "\n";
				try { runCase(cs, out); } catch (const std::exception &e) { std::string w = e.what(); for (auto &ch : w) if (ch == '\n') ch = ' '; out << "ERROR " << w << "\n"; }
				out << "end\n";
				open = false;
			} else throw std::runtime_error("unknown line: " + line);
		} catch (const std::exception &e) { fprintf(stderr, "case file: %s\n", e.what()); return 2; }
	}
	out << "MAXDEN " << g_maxden << "\n";
	return 0;
}
