// C18 harness: executes an operation file on the REAL gatery containers
// (sim::DefaultBitVectorState = 2 planes, sim::ExtendedBitVectorState = 4 planes) and prints one
// canonical result line per operation (same format as ocaml/C18_driver.ml prints for the Coq model).
//
//   C18_bvs run <opsfile>            result lines on stdout
//   C18_bvs oracle <opsfile>         additionally executes every operation on an independent
//                                    std::vector<bool>-per-plane oracle (NOT the Coq model) and prints
//                                    "ORACLE-MISMATCH ..." lines (search mode of checks/C18.py)
//   C18_bvs info                     compile-time facts the model depends on (BMI specialisations)
//
// Operation file: see checks/C18.py (generator) for the grammar.
#include "vh.h"
#include <gatery/utils/BitManipulation.h>

using namespace gtry;
using namespace gtry::sim;

typedef std::vector<std::vector<bool>> OState;   // oracle: planes x bits

static std::string hexWord(uint64_t w) { char buf[32]; snprintf(buf, sizeof buf, "%llx", (unsigned long long)w); return buf; }

template<class Config>
static std::string dump(const BitVectorState<Config> &s) {
	std::string r = std::to_string(s.size()) + "[";
	for (size_t p = 0; p < Config::NUM_PLANES; p++) {
		if (p) r += "|";
		size_t nw = (s.size() + 63) / 64;
		for (size_t k = 0; k < nw; k++) {
			uint64_t w = s.data((typename Config::Plane)p)[k];
			size_t keep = std::min<size_t>(64, s.size() - 64 * k);
			if (keep < 64) w &= (1ull << keep) - 1;
			if (k) r += ",";
			r += hexWord(w);
		}
	}
	return r + "]";
}

static std::string dumpO(const OState &o) {
	size_t size = o.empty() ? 0 : o[0].size();
	std::string r = std::to_string(size) + "[";
	for (size_t p = 0; p < o.size(); p++) {
		if (p) r += "|";
		size_t nw = (size + 63) / 64;
		for (size_t k = 0; k < nw; k++) {
			uint64_t w = 0;
			for (size_t j = 0; j < 64 && 64 * k + j < size; j++) if (o[p][64 * k + j]) w |= 1ull << j;
			if (k) r += ",";
			r += hexWord(w);
		}
	}
	return r + "]";
}

static uint64_t parseHex64(const std::string &s) { return strtoull(s.c_str(), nullptr, 16); }
static size_t parseSize(const std::string &s) { return s == "max" ? ~0ull : strtoull(s.c_str(), nullptr, 10); }

static BigInt bigOfHex(const std::string &s) {
	bool neg = !s.empty() && s[0] == '-';
	BigInt v(std::string("0x") + (neg ? s.substr(1) : s));
	return neg ? BigInt(-v) : v;
}
static std::string hexOfBig(const BigInt &v) {
	if (v < 0) return "-" + BigInt(-v).str(0, std::ios_base::hex);
	return v.str(0, std::ios_base::hex);
}

// ---------------- oracle helpers (plain arrays of bits) ----------------
// two's complement bit i of the integer given as sign + magnitude hex string
static std::vector<bool> twosBits(const std::string &hex, size_t n) {
	bool neg = !hex.empty() && hex[0] == '-';
	std::string h = neg ? hex.substr(1) : hex;
	std::vector<bool> m(std::max<size_t>(n, h.size() * 4) + 1, false);
	for (size_t i = 0; i < h.size(); i++) {
		char c = h[h.size() - 1 - i];
		unsigned v = (c >= '0' && c <= '9') ? c - '0' : (c >= 'a' && c <= 'f') ? c - 'a' + 10 : c - 'A' + 10;
		for (unsigned j = 0; j < 4; j++) m[4 * i + j] = (v >> j) & 1;
	}
	if (neg) { // -m = ~(m - 1)
		size_t i = 0;
		while (i < m.size() && !m[i]) { m[i] = true; i++; }      // borrow
		if (i < m.size()) m[i] = false;
		for (size_t k = 0; k < m.size(); k++) m[k] = !m[k];
	}
	m.resize(n, neg);
	return m;
}
static std::string hexOfBits(const std::vector<bool> &b) {
	std::string r;
	size_t nd = (b.size() + 3) / 4;
	for (size_t d = nd; d-- > 0;) {
		unsigned v = 0;
		for (unsigned j = 0; j < 4; j++) if (4 * d + j < b.size() && b[4 * d + j]) v |= 1u << j;
		if (v == 0 && r.empty() && d != 0) continue;
		r += "0123456789abcdef"[v];
	}
	if (r.empty()) r = "0";
	return r;
}

static std::vector<uint8_t> bytesOfHex(const std::string &h) {
	std::vector<uint8_t> r;
	if (h == "_") return r;
	for (size_t i = 0; i + 1 < h.size(); i += 2) r.push_back((uint8_t)strtoul(h.substr(i, 2).c_str(), nullptr, 16));
	return r;
}
static std::string hexOfBytes(const std::vector<uint8_t> &b) {
	if (b.empty()) return "_";
	std::string r; char buf[4];
	for (auto x : b) { snprintf(buf, sizeof buf, "%02x", x); r += buf; }
	return r;
}

template<class Config>
struct Runner {
	typedef BitVectorState<Config> St;
	typedef typename Config::Plane Plane;
	enum { NP = Config::NUM_PLANES };
	std::vector<St> regs;
	std::vector<OState> oregs;
	bool oracle;
	std::string seqid;
	size_t idx = 0;
	size_t mismatches = 0;

	Runner(size_t nr, bool oracle, std::string id) : regs(nr), oregs(nr, OState(NP)), oracle(oracle), seqid(id) {}

	void mismatch(const std::string &line, const std::string &what, const std::string &expected, const std::string &observed) {
		mismatches++;
		std::cout << "ORACLE-MISMATCH " << seqid << ":" << idx << " op=\"" << line << "\" " << what
		          << " expected=" << expected << " observed=" << observed << "\n";
	}

	void end() {
		std::cout << seqid << ":E";
		for (auto &r : regs) std::cout << " " << dump(r);
		std::cout << "\n";
	}

	void exec(const std::string &line, const std::vector<std::string> &t) {
		const std::string &name = t[0];
		auto U = [&](size_t i) { return (size_t)strtoull(t[i].c_str(), nullptr, 10); };
		auto Z = [&](size_t i) { return parseSize(t[i]); };
		std::string obs = "-", oobs = "-";
		long target = -1;
		auto B = [&](bool b) { return std::string(b ? "1" : "0"); };
		auto ob = [&](OState &o, size_t p, size_t i) -> bool { return o[p][i]; };
		try {
			if (name == "resize") {
				size_t r = U(1), n = U(2); target = r;
				regs[r].resize(n);
				if (oracle) for (auto &pl : oregs[r]) pl.resize(n, false);
			} else if (name == "get") {
				size_t r = U(1), p = U(2), i = U(3);
				obs = B(regs[r].get((Plane)p, i));
				if (oracle) oobs = B(oregs[r][p][i]);
			} else if (name == "set1") {
				size_t r = U(1), p = U(2), i = U(3); target = r;
				regs[r].set((Plane)p, i);
				if (oracle) oregs[r][p][i] = true;
			} else if (name == "setb") {
				size_t r = U(1), p = U(2), i = U(3); bool b = U(4); target = r;
				regs[r].set((Plane)p, i, b);
				if (oracle) oregs[r][p][i] = b;
			} else if (name == "clear") {
				size_t r = U(1), p = U(2), i = U(3); target = r;
				regs[r].clear((Plane)p, i);
				if (oracle) oregs[r][p][i] = false;
			} else if (name == "toggle") {
				size_t r = U(1), p = U(2), i = U(3); target = r;
				regs[r].toggle((Plane)p, i);
				if (oracle) oregs[r][p][i] = !oregs[r][p][i];
			} else if (name == "setrange") {
				size_t r = U(1), p = U(2), off = U(3), sz = U(4); bool b = U(5); target = r;
				// exercise all three overloads
				if (b && (off & 1)) regs[r].setRange((Plane)p, off, sz);
				else if (!b && (off & 1)) regs[r].clearRange((Plane)p, off, sz);
				else regs[r].setRange((Plane)p, off, sz, b);
				if (oracle) for (size_t i = 0; i < sz; i++) oregs[r][p][off + i] = b;
			} else if (name == "insw" || name == "insns") {
				size_t r = U(1), p = U(2), off = U(3), sz = U(4); uint64_t v = parseHex64(t[5]); target = r;
				if (name == "insw") regs[r].insert((Plane)p, off, sz, v);
				else regs[r].insertNonStraddling((Plane)p, off, sz, v);
				if (oracle) for (size_t i = 0; i < sz; i++) oregs[r][p][off + i] = (v >> i) & 1;
			} else if (name == "extw" || name == "extns") {
				size_t r = U(1), p = U(2), off = U(3), sz = U(4);
				uint64_t v = name == "extw" ? regs[r].extract((Plane)p, off, sz) : regs[r].extractNonStraddling((Plane)p, off, sz);
				obs = hexWord(v);
				if (oracle) { uint64_t e = 0; for (size_t i = 0; i < sz; i++) if (oregs[r][p][off + i]) e |= 1ull << i; oobs = hexWord(e); }
			} else if (name == "copy") {
				size_t rd = U(1), d = U(2), rs = U(3), s = U(4), sz = U(5); target = rd;
				regs[rd].copyRange(d, regs[rs], s, sz);
				if (oracle) for (size_t p = 0; p < NP; p++) for (size_t i = 0; i < sz; i++) oregs[rd][p][d + i] = oregs[rs][p][s + i];
			} else if (name == "cmp") {
				size_t rd = U(1), d = U(2), rs = U(3), s = U(4), sz = U(5);
				obs = B(regs[rd].compareRange(d, regs[rs], s, sz));
				if (oracle) {
					bool eq = true;
					for (size_t i = 0; i < sz; i++) {
						auto &A = oregs[rs]; auto &Bd = oregs[rd];
						if (NP == 2) {
							if (A[1][s + i] != Bd[1][d + i]) eq = false;
							else if (A[1][s + i] && A[0][s + i] != Bd[0][d + i]) eq = false;
						} else {
							bool dc = A[2][s + i] || Bd[2][d + i];
							if (!dc) {
								if (A[3][s + i] != Bd[3][d + i]) eq = false;
								else if (A[1][s + i] != Bd[1][d + i]) eq = false;
								else if (A[1][s + i] && A[0][s + i] != Bd[0][d + i]) eq = false;
							}
						}
					}
					oobs = B(eq);
				}
			} else if (name == "exts") {
				size_t rd = U(1), rs = U(2), s = U(3), sz = U(4); target = rd;
				St tmp = regs[rs].extract(s, sz);
				regs[rd] = tmp;
				if (oracle) { OState o(NP); for (size_t p = 0; p < NP; p++) o[p].assign(oregs[rs][p].begin() + s, oregs[rs][p].begin() + s + sz); oregs[rd] = o; }
			} else if (name == "inss") {
				size_t rd = U(1), rs = U(2), off = U(3), sz = U(4); target = rd;
				regs[rd].insert(regs[rs], off, sz);
				if (oracle) { size_t w = sz ? sz : oregs[rs][0].size(); for (size_t p = 0; p < NP; p++) for (size_t i = 0; i < w; i++) oregs[rd][p][off + i] = oregs[rs][p][i]; }
			} else if (name == "append") {
				size_t rd = U(1), rs = U(2); target = rd;
				regs[rd].append(regs[rs]);
				if (oracle) for (size_t p = 0; p < NP; p++) oregs[rd][p].insert(oregs[rd][p].end(), oregs[rs][p].begin(), oregs[rs][p].end());
			} else if (name == "eq") {
				size_t ra = U(1), rb = U(2);
				bool e = regs[ra] == regs[rb], ne = regs[ra] != regs[rb];
				obs = e == !ne ? B(e) : std::string("INCONSISTENT-EQ-NE");
				if (oracle) oobs = B(oregs[ra] == oregs[rb]);
			} else if (name == "allone" || name == "allzero") {
				size_t r = U(1), p = U(2), s = U(3), sz = Z(4);
				bool v = name == "allone" ? allOne(regs[r], (Plane)p, s, sz) : allZero(regs[r], (Plane)p, s, sz);
				obs = B(v);
				if (oracle) {
					size_t n = std::min(sz, oregs[r][p].size() - s); bool e = true;
					for (size_t i = 0; i < n; i++) if (oregs[r][p][s + i] != (name == "allone")) e = false;
					oobs = B(e);
				}
			} else if (name == "anydef") {
				size_t r = U(1), s = U(2), sz = Z(3);
				obs = B(anyDefined(regs[r], s, sz));
				if (oracle) {
					size_t n = std::min(sz, oregs[r][1].size() - s); bool e = false;
					for (size_t i = 0; i < n; i++) if (oregs[r][1][s + i]) e = true;
					oobs = B(e);
				}
			} else if (name == "cmpval" || name == "eqdef") {
				size_t ra = U(1), sa = U(2), rb = U(3), sb = U(4), sz = U(5);
				bool v = name == "cmpval" ? compareValues(regs[ra], sa, regs[rb], sb, sz) : equalOnDefinedValues(regs[ra], sa, regs[rb], sb, sz);
				obs = B(v);
				if (oracle) {
					bool e = true;
					for (size_t i = 0; i < sz; i++) {
						bool av = oregs[ra][0][sa + i], bv = oregs[rb][0][sb + i], ad = oregs[ra][1][sa + i], bd = oregs[rb][1][sb + i];
						if (name == "cmpval") { if (av != bv) e = false; }
						else { if (ad != bd || (ad && av != bv)) e = false; }
					}
					oobs = B(e);
				}
			} else if (name == "canrep") {
				size_t ra = U(1), rb = U(2), sa = U(3), sb = U(4), sz = Z(5);
				obs = B(canBeReplacedWith(regs[ra], regs[rb], sa, sb, sz));
				if (oracle) {
					size_t n = sz == ~0ull ? oregs[ra][0].size() - sa : sz; bool e = true;
					for (size_t i = 0; i < n; i++) {
						bool av = oregs[ra][0][sa + i], bv = oregs[rb][0][sb + i], ad = oregs[ra][1][sa + i], bd = oregs[rb][1][sb + i];
						if (ad && (!bd || av != bv)) e = false;
					}
					oobs = B(e);
				}
			} else if (name == "merge") {
				size_t rd = U(1), sd = U(2), rs = U(3), ss = U(4), sz = U(5); target = rd;
				mergeUndefinedSelection(regs[rd], sd, regs[rs], ss, sz);
				if (oracle) for (size_t i = 0; i < sz; i++) {
					bool dd = oregs[rd][1][sd + i], sdf = oregs[rs][1][ss + i];
					oregs[rd][1][sd + i] = dd && sdf && oregs[rd][0][sd + i] == oregs[rs][0][ss + i];
				}
			} else if (name == "insbig") {
				size_t r = U(1), off = U(2), sz = U(3); target = r;
				insertBigInt(regs[r], off, sz, bigOfHex(t[4]));
				if (oracle) { auto bits = twosBits(t[4], sz); for (size_t i = 0; i < sz; i++) oregs[r][0][off + i] = bits[i]; }
			} else if (name == "extbig") {
				size_t r = U(1), off = U(2), sz = U(3);
				obs = hexOfBig(extractBigInt(regs[r], off, sz));
				if (oracle) { std::vector<bool> b(oregs[r][0].begin() + off, oregs[r][0].begin() + off + sz); oobs = hexOfBits(b); }
			} else if (name == "extbigall") {
				size_t r = U(1);
				obs = hexOfBig(extractBigInt(regs[r]));
				if (oracle) oobs = hexOfBits(oregs[r][0]);
			} else if (name == "alldef") {
				size_t r = U(1), s = U(2), sz = Z(3);
				obs = B(allDefined(regs[r], s, sz));
				if (oracle) { size_t n = std::min(sz, oregs[r][1].size() - s); bool e = true; for (size_t i = 0; i < n; i++) if (!oregs[r][1][s + i]) e = false; oobs = B(e); }
			} else if (name == "assign") {
				size_t rd = U(1), rs = U(2); target = rd;
				regs[rd] = regs[rs];
				if (oracle) oregs[rd] = oregs[rs];
			} else if (name == "swap") {
				size_t ra = U(1), rb = U(2); target = ra;
				std::swap(regs[ra], regs[rb]);
				if (oracle) std::swap(oregs[ra], oregs[rb]);
			} else if (name == "move") {
				size_t rd = U(1), rs = U(2); target = rd;
				regs[rd] = std::move(regs[rs]);
				regs[rs] = St();
				if (oracle) { oregs[rd] = oregs[rs]; oregs[rs] = OState(NP); }
			} else if (name == "clearresize") {
				size_t r = U(1), n = U(2); target = r;
				regs[r].clear();
				regs[r].resize(n);
				if (oracle) oregs[r] = OState(NP, std::vector<bool>(n, false));
			} else if (name == "head") {
				size_t r = U(1), p = U(2);
				obs = hexWord(regs[r].head((Plane)p));
				if (oracle) { uint64_t e = 0; for (size_t i = 0; i < oregs[r][p].size(); i++) if (oregs[r][p][i]) e |= 1ull << i; oobs = hexWord(e); }
			} else if (name == "alldefns") {
				size_t r = U(1), s = U(2), sz = U(3);
				obs = B(allDefinedNonStraddling(regs[r], s, sz));
				if (oracle) { bool e = true; for (size_t i = 0; i < sz; i++) if (!oregs[r][1][s + i]) e = false; oobs = B(e); }
			} else if (name == "asbytes") {
				size_t r = U(1), p = U(2);
				auto sp = regs[r].asBytes((Plane)p);
				BigInt v = 0;
				for (size_t k = sp.size(); k-- > 0;) v = (v << 8) | BigInt((unsigned)sp[k]);
				obs = hexOfBig(v);
				if (oracle) oobs = hexOfBits(oregs[r][p]);
			} else if (name == "eqbytes") {
				size_t r = U(1);
				auto bytes = bytesOfHex(t[2]);
				size_t n = bytes.size();
				bytes.resize(n + 8, 0xA5);      // the implementation reads up to 7 bytes past the span for a partial last word
				if constexpr (NP == 2) {
					std::span<const std::byte> sp((const std::byte*)bytes.data(), n);
					try {
						bool e = regs[r] == sp, ne = regs[r] != sp;
						obs = e == !ne ? B(e) : std::string("INCONSISTENT-EQ-NE");
					} catch (const std::runtime_error &) { obs = "-1"; }
				}
				if (oracle) {
					if (oregs[r][0].size() != 8 * n) oobs = "-1";
					else { bool e = true; for (size_t i = 0; i < 8 * n; i++) if (!oregs[r][1][i] || oregs[r][0][i] != (((bytes[i / 8]) >> (i % 8)) & 1)) e = false; oobs = B(e); }
				}
			} else if (name == "iterread") {
				size_t r = U(1), p = U(2), off = U(3), sz = U(4);
				auto rg = regs[r].range((Plane)p, off, sz);
				BigInt v = 0; size_t pos = 0;
				for (auto it = rg.first; it != rg.second; ++it) { uint64_t c = *it; v |= BigInt(c) << pos; pos += it.stepWidth(); }
				obs = hexOfBig(v);
				if (oracle) { std::vector<bool> b(oregs[r][p].begin() + off, oregs[r][p].begin() + off + sz); oobs = hexOfBits(b); }
			} else if (name == "iterwrite") {
				size_t r = U(1), p = U(2), off = U(3), sz = U(4); target = r;
				BigInt V = bigOfHex(t[5]);
				auto rg = regs[r].range((Plane)p, off, sz);
				size_t pos = 0;
				for (auto it = rg.first; it != rg.second; ++it) { *it = (uint64_t)((V >> pos) & BigInt(0xFFFFFFFFFFFFFFFFull)); pos += it.stepWidth(); }
				if (oracle) { auto bits = twosBits(t[5], sz); for (size_t i = 0; i < sz; i++) oregs[r][p][off + i] = bits[i]; }
			} else if (name == "bitneg") {
				BigInt v = bigOfHex(t[1]); size_t width = U(2);
				obs = hexOfBig(bitwiseNegation(v, width));
				if (oracle) {
					BigInt m = v < 0 ? BigInt(-v) : v;
					size_t bits = 0; { BigInt x = m; while (x != 0) { x >>= 1; bits++; } }
					size_t L = std::max<size_t>(std::max<size_t>((bits + 63) / 64, 1), (width + 63) / 64);
					oobs = hexOfBig((BigInt(1) << (64 * L)) - 1 - m);
				}
			} else if (name == "pbv") {
				size_t r = U(1); uint64_t v = parseHex64(t[2]); size_t w = U(3); target = r;
				if constexpr (NP == 2) regs[r] = parseBitVector(v, w);
				if (oracle) { OState o(NP, std::vector<bool>(w, false)); for (size_t i = 0; i < w; i++) { o[1][i] = true; o[0][i] = i < 64 && ((v >> i) & 1); } oregs[r] = o; }
			} else if (name == "cdv") {
				size_t r = U(1), w = U(2); uint64_t v = parseHex64(t[3]); target = r;
				if constexpr (NP == 2) { try { regs[r] = createDefaultBitVectorState(w, (size_t)v); obs = "1"; } catch (const std::exception &) { obs = "EXC"; } }
				if (oracle) {
					if (w == 0) oobs = "EXC";
					else { OState o(NP, std::vector<bool>(w, false)); for (size_t i = 0; i < w; i++) { o[1][i] = true; o[0][i] = i < 64 && ((v >> i) & 1); } oregs[r] = o; oobs = "1"; }
				}
			} else if (name == "cdd") {
				size_t r = U(1), w = U(2); auto bytes = bytesOfHex(t[3]); target = r;
				if constexpr (NP == 2) regs[r] = createDefaultBitVectorState(w, (const void*)bytes.data());
				if (oracle) { OState o(NP, std::vector<bool>(w, false)); for (size_t i = 0; i < w; i++) { o[1][i] = true; o[0][i] = (bytes[i / 8] >> (i % 8)) & 1; } oregs[r] = o; }
			} else if (name == "parsebit") {
				size_t r = U(1); target = r;
				if constexpr (NP == 2) {
					try {
						if (t[2] == "true" || t[2] == "false") regs[r] = parseBit(t[2] == "true"); else regs[r] = parseBit(t[2][0]);
						obs = "1";
					} catch (const std::exception &) { obs = "0"; }
				}
				if (oracle) {
					char c = t[2] == "true" ? '1' : t[2] == "false" ? '0' : t[2][0];
					if (c == '0' || c == '1' || c == 'x' || c == 'X') { OState o(NP, std::vector<bool>(1, false)); o[0][0] = c != '0'; o[1][0] = c == '0' || c == '1'; oregs[r] = o; oobs = "1"; }
					else oobs = "0";
				}
			} else if (name == "asdata") {
				size_t r = U(1); auto filler = bytesOfHex(t[2]);
				if constexpr (NP == 2) {
					std::vector<uint8_t> dst(regs[r].size() / 8);
					try {
						asData(regs[r], std::span<std::byte>((std::byte*)dst.data(), dst.size()), std::span<const std::byte>((const std::byte*)filler.data(), filler.size()));
						obs = hexOfBytes(dst);
					} catch (const std::exception &) { obs = "EXC"; }
				}
				if (oracle) {
					size_t n = oregs[r][0].size();
					if (n % 8) oobs = "EXC";
					else {
						std::vector<uint8_t> e(n / 8, 0);
						for (size_t i = 0; i < n; i++) {
							uint8_t f = filler.empty() ? (uint8_t)'X' : filler[(i / 8) % filler.size()];
							bool bit = oregs[r][1][i] ? oregs[r][0][i] : ((f >> (i % 8)) & 1);
							if (bit) e[i / 8] |= 1u << (i % 8);
						}
						oobs = hexOfBytes(e);
					}
				}
			} else if (name == "convext") {
				size_t r = U(1);
				if constexpr (NP == 2) obs = dump(convertToExtended(regs[r]));
				if (oracle) { OState o(4, std::vector<bool>(oregs[r][0].size(), false)); o[0] = oregs[r][0]; o[1] = oregs[r][1]; oobs = dumpO(o); }
			} else if (name == "convdef") {
				size_t r = U(1);
				if constexpr (NP == 4) { auto d = tryConvertToDefault(regs[r]); obs = d ? dump(*d) : std::string("none"); }
				if (oracle) {
					bool any = false; for (size_t p = 2; p < 4; p++) for (bool b : oregs[r][p]) any = any || b;
					if (any) oobs = "none"; else { OState o(2); o[0] = oregs[r][0]; o[1] = oregs[r][1]; oobs = dumpO(o); }
				}
			} else if (name == "print") {
				size_t r = U(1); bool hex = U(2);
				std::stringstream ss; if (hex) ss << std::hex; ss << regs[r];
				obs = "\"" + ss.str() + "\"";
				if (oracle) {
					std::string e; auto &o = oregs[r]; size_t n = o[0].size();
					if (hex && n % 4 == 0) {
						for (size_t d = n / 4; d-- > 0;) { unsigned v = 0; bool def = true; for (unsigned j = 0; j < 4; j++) { if (o[0][4 * d + j]) v |= 1u << j; def = def && o[1][4 * d + j]; } e += def ? "0123456789abcdef"[v] : 'X'; }
					} else for (size_t i = n; i-- > 0;) e += !o[1][i] ? 'X' : o[0][i] ? '1' : '0';
					oobs = "\"" + e + "\"";
				}
			} else if (name == "fmt") {
				size_t r = U(1); unsigned base = U(2); bool drop = U(3);
				std::stringstream ss; formatState(ss, regs[r], base, drop);
				obs = "\"" + ss.str() + "\"";
				if (oracle) {
					// what a reader expects: one upper/lower-case *hex digit* per nibble for base 16
					std::string e; auto &o = oregs[r]; size_t n = o[0].size(); bool dropping = drop;
					if (base == 16 && n % 4 == 0) {
						for (size_t d = n / 4; d-- > 0;) { unsigned v = 0; bool def = true; for (unsigned j = 0; j < 4; j++) { if (o[0][4 * d + j]) v |= 1u << j; def = def && o[1][4 * d + j]; }
							if (!dropping || v != 0 || d == 0) { e += def ? "0123456789ABCDEF"[v] : 'X'; dropping = false; } }
					} else for (size_t i = n; i-- > 0;) { if (!o[1][i]) { e += 'X'; dropping = false; } else if (o[0][i]) { e += '1'; dropping = false; } else if (!dropping || i == 0) e += '0'; }
					oobs = "\"" + e + "\"";
				}
			} else if (name == "fmtr") {
				size_t r = U(1); unsigned base = U(2); size_t off = U(3), sz = U(4);
				std::stringstream ss; formatRange(ss, regs[r], base, off, sz);
				obs = "\"" + ss.str() + "\"";
				if (oracle) {
					unsigned lb = base == 2 ? 1 : base == 8 ? 3 : 4; std::string e; auto &o = oregs[r];
					size_t nd = (sz + lb - 1) / lb;
					for (size_t d = nd; d-- > 0;) { unsigned v = 0; bool def = true; for (unsigned j = 0; j < lb; j++) if (lb * d + j < sz) { if (o[0][off + lb * d + j]) v |= 1u << j; def = def && o[1][off + lb * d + j]; } e += def ? "0123456789ABCDEF"[v] : 'X'; }
					oobs = "\"" + e + "\"";
				}
			} else if (name == "parse") {
				size_t r = U(1); target = r;
				std::string lit = t.size() > 2 ? t[2] : std::string();
				for (size_t i = 3; i < t.size(); i++) lit += " " + t[i];
				if (lit == "_") lit = "";
				if constexpr (NP == 2) {
					try { regs[r] = parseBitVector(lit); obs = "1"; } catch (const std::exception &) { obs = "0"; }
				}
				if (oracle) { oracleParse(r, lit, oobs); }
			} else {
				std::cerr << "bad op line: " << line << "\n"; exit(3);
			}
		} catch (const std::exception &e) {
			obs = "EXC";
		}
		std::cout << seqid << ":" << idx << " " << name << " " << obs << " " << (target >= 0 ? dump(regs[target]) : std::string("-")) << "\n";
		if (oracle) {
			if (obs != oobs) mismatch(line, "result", oobs, obs);
			if (target >= 0) {
				std::string a = dump(regs[target]), b = dumpO(oregs[target]);
				if (a != b) {
					mismatch(line, "contents-after", b, a);
					// re-synchronise the oracle with the real container so that every reported mismatch is a
					// first divergence and not a consequence of an earlier one
					OState o(NP);
					for (size_t p = 0; p < NP; p++) { o[p].resize(regs[target].size()); for (size_t i = 0; i < regs[target].size(); i++) o[p][i] = regs[target].get((Plane)p, i); }
					oregs[target] = o;
				}
			}
		}
		idx++;
	}

	// independent reading of the literal grammar: [width] (b|o|x|d|s) body
	void oracleParse(size_t r, const std::string &lit, std::string &oobs) {
		size_t i = 0; bool hasW = false; unsigned long long width = 0;
		while (i < lit.size() && isdigit((unsigned char)lit[i])) { width = width * 10 + (lit[i] - '0'); hasW = true; i++; }
		if (i >= lit.size()) { oobs = "0"; return; }
		char k = lit[i]; std::string body = lit.substr(i + 1);
		std::vector<bool> val, def;
		auto fail = [&]() { oobs = "0"; };
		if (k == 'b' || k == 'o' || k == 'x') {
			unsigned bps = k == 'b' ? 1 : k == 'o' ? 3 : 4;
			for (size_t j = body.size(); j-- > 0;) {
				char c = body[j]; int v = -1;
				if (c >= '0' && c <= '9') v = c - '0'; else if (k == 'x' && c >= 'a' && c <= 'f') v = c - 'a' + 10; else if (k == 'x' && c >= 'A' && c <= 'F') v = c - 'A' + 10;
				else if (c == 'x' || c == 'X') v = -2;
				if (v == -1 || (v >= 0 && v >= (1 << bps))) return fail();
				for (unsigned b = 0; b < bps; b++) { val.push_back(v >= 0 && ((v >> b) & 1)); def.push_back(v >= 0); }
			}
		} else if (k == 'd') {
			if (body.empty()) { /* strtoull of "" = 0 */ }
			unsigned long long n = 0; bool ovf = false;
			for (char c : body) { if (!isdigit((unsigned char)c)) return fail(); unsigned long long n2 = n * 10 + (c - '0'); if (n > (~0ull - (c - '0')) / 10) ovf = true; n = n2; }
			if (ovf || n == ~0ull) return fail();
			while (n) { val.push_back(n & 1); def.push_back(true); n >>= 1; }
		} else if (k == 's') {
			for (char c : body) for (unsigned b = 0; b < 8; b++) { val.push_back((c >> b) & 1); def.push_back(true); }
		} else return fail();
		size_t w = (hasW && width != 0) ? width : val.size();
		if (hasW && width != 0 && val.size() > width) return fail();
		val.resize(w, false); def.resize(w, true);   // explicit width pads with defined zeros
		oregs[r][0] = val; oregs[r][1] = def; oobs = "1";
	}
};

int main(int argc, char **argv) {
	if (argc >= 2 && std::string(argv[1]) == "info") {
#ifdef __BMI__
		std::cout << "BMI 1\n";
#else
		std::cout << "BMI 0\n";
#endif
#ifdef __BMI2__
		std::cout << "BMI2 1\n";
#else
		std::cout << "BMI2 0\n";
#endif
		std::cout << "sizeof_size_t " << sizeof(size_t) << "\n";
		return 0;
	}
	if (argc >= 2 && std::string(argv[1]) == "probe") {
		// createRandom*DefaultBitVectorState fill whole words; does a later resize() expose those bits?
		std::mt19937 rng(7);
		bool exposed = false;
		for (int k = 0; k < 8 && !exposed; k++) {
			auto t = createRandomDefaultBitVectorState(10, rng);
			DefaultBitVectorState u; u.resize(10); u.copyRange(0, t, 0, 10);
			bool eqBefore = (t == u);
			t.resize(30); u.resize(30);
			if (eqBefore && !(t == u)) exposed = true;
		}
		std::cout << "PROBE random_then_resize_exposes_stale_bits " << (exposed ? 1 : 0) << "\n";
		{	// clear() empties the storage but keeps m_size
			DefaultBitVectorState c; c.resize(70); c.clear();
			std::cout << "PROBE clear_keeps_size " << ((c.size() == 70 && c.getNumBlocks() == 0) ? 1 : 0) << "\n";
		}
		{	// creation helpers that write whole words / bytes: value wider than bitWidth, padding bits of the last byte
			auto a = createDefaultBitVectorState(8, (size_t)0x1FF); a.resize(16);
			std::cout << "PROBE create_value_wider_than_width_exposed_by_resize " << (a.get(DefaultConfig::VALUE, 8) ? 1 : 0) << "\n";
			unsigned char bytes[2] = {0xff, 0xff};
			auto b = createDefaultBitVectorState(13, (const void*)bytes); b.resize(16);
			std::cout << "PROBE create_data_padding_bits_exposed_by_resize " << (b.get(DefaultConfig::VALUE, 13) ? 1 : 0) << "\n";
		}
		return 0;
	}
	if (argc < 3) { std::cerr << "usage: C18_bvs run|oracle <opsfile> | info | probe\n"; return 2; }
	bool oracle = std::string(argv[1]) == "oracle";
	std::ifstream in(argv[2]);
	if (!in) { std::cerr << "cannot open " << argv[2] << "\n"; return 2; }
	std::ios::sync_with_stdio(false);
	std::unique_ptr<Runner<DefaultConfig>> r2;
	std::unique_ptr<Runner<ExtendedConfig>> r4;
	std::string line;
	size_t total = 0;
	while (std::getline(in, line)) {
		std::istringstream is(line);
		std::vector<std::string> t; std::string tok;
		while (is >> tok) t.push_back(tok);
		if (t.empty() || t[0] == "#") continue;
		if (t[0] == "S") {
			if (r2) total += r2->mismatches;
			if (r4) total += r4->mismatches;
			r2.reset(); r4.reset();
			size_t np = strtoull(t[2].c_str(), nullptr, 10), nr = strtoull(t[3].c_str(), nullptr, 10);
			if (np == 2) r2.reset(new Runner<DefaultConfig>(nr, oracle, t[1]));
			else r4.reset(new Runner<ExtendedConfig>(nr, oracle, t[1]));
		} else if (t[0] == "E") {
			if (r2) r2->end(); if (r4) r4->end();
		} else {
			if (r2) r2->exec(line, t); else if (r4) r4->exec(line, t);
		}
	}
	if (r2) total += r2->mismatches;
	if (r4) total += r4->mismatches;
	if (oracle) std::cout << "ORACLE-DONE mismatches=" << total << "\n";
	return 0;
}
