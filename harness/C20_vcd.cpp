// C20 harness: real VCDSink + real FileBasedTestbenchRecorder vs an independent SimulatorCallbacks observer.
//
//   C20_vcd run <casefile> <outdir>
//
// casefile: one case per line, `key=value` tokens:
//   id=<name> nclk=<1|2> f0=<num>/<den> [f1=<num>/<den>] wc=<w> ws=<w> wd=<w> steps=<n> seed=<n>
//   tv=<0|1> allsig=<0|1> wait=<profile 0|1> pows=<0|1|2> end=<num>/<den>
//     wc counter width, ws shift register width, wd data path width (all >= 1, may exceed 64)
//     tv=1     attach the test-bench recorder too (VHDL export into <outdir>/<id>_vhdl) and replay its file
//     allsig=1 VCDSink::addAllSignals() (hidden unnamed signals) in addition to pins and named signals
//     wait     0: ns-scale waits only (needed for tv: sub-ps spacing is outside the recorder's resolution)
//              1: also sub-picosecond WaitFor so that several commits share one VCD tick
//     pows     power-on behaviour of the stimulus process: 0 nothing, 1 set inputs at power-on,
//              2 set inputs at power-on, WaitStable, read outputs (the pattern of the known C20 finding)
//     end      simulated time
//     rp<k>=H|L rt<k>=S|A|N   reset polarity (active high / low) and kind (synchronous / asynchronous / none) of clock k
//     mrc<k>=<n> mrt<k>=<ps>  Clock::setMinResetCycles / setMinResetTime of clock k
//     rn<k>=<name>            custom reset name of clock k (default rst_<k>)
//     der=<0|1|2>             1: a derived clock (clk_0 / 2) sharing clk_0's reset, 2: derived clock with its own reset name
//                             and the OPPOSITE polarity; its domain holds an enable counter with reset value (o_dcnt)
//
// For every case the design (per clock domain: free running counter, enable/clear accumulator, shift register
// without reset, data register, xor network, 1-bit vector, xor bit) is built through the frontend, a seeded
// stimulus process drives the input pins (values with undefined bits included) and reads output pins.
// Outputs in <outdir>:
//   <id>.vcd           written by the real sim::VCDSink
//   <id>.trace         what the observer saw through its own SimulatorCallbacks (signal table, then the
//                      callback sequence from onAfterPowerOn on: T num den | B code v | R text | C values)
//                      values: MSB first over 0,1,X (undefined, VALUE plane 0),W (undefined, VALUE plane 1)
//   <id>.tvlog         callback sequence as the test-bench recorder receives it
//   <id>.testvectors   copy of the real recorder's file
//   <id>.replay        the real file replayed into a FRESH simulation of the same design whose reset pins are driven by the
//                      RST records:  K <record> <time ps> <pin> <expected> <actual> <ok|FAIL>,  RSTREC <record> <time ps> <reset> <level>
#include "vh.h"
#include <gatery/simulation/waveformFormats/VCDSink.h>
#include <gatery/simulation/SimulatorCallbacks.h>
#include <gatery/export/vhdl/VHDLExport.h>
#include <gatery/hlim/postprocessing/ClockPinAllocation.h>
#include <gatery/hlim/Subnet.h>
#include <gatery/hlim/coreNodes/Node_Pin.h>
#include <filesystem>
#include <map>
#include <functional>

using namespace gtry;
using BVS = sim::DefaultBitVectorState;

// ----------------------------------------------------------------------------------------------
struct Params {
	std::string id;
	int nclk = 1;
	std::vector<std::pair<uint64_t, uint64_t>> freq;
	int wc = 8, ws = 8, wd = 8, steps = 10;
	uint64_t seed = 1;
	bool tv = false, allsig = false;
	int wait = 0, pows = 0;
	std::pair<uint64_t, uint64_t> end{1, 1000000};
	char rp[2] = {'H', 'H'}, rt[2] = {'S', 'S'};
	uint64_t mrc[2] = {0, 0}, mrt[2] = {0, 0};
	std::string rn[2];
	int der = 0;
};

static std::pair<uint64_t, uint64_t> parseFrac(const std::string &s) {
	auto p = s.find('/');
	if (p == std::string::npos) return {strtoull(s.c_str(), nullptr, 10), 1};
	return {strtoull(s.substr(0, p).c_str(), nullptr, 10), strtoull(s.substr(p + 1).c_str(), nullptr, 10)};
}

static Params parseCase(const std::string &line) {
	Params p; p.freq.resize(2, {100000000, 1});
	std::istringstream is(line); std::string tok;
	while (is >> tok) {
		auto e = tok.find('='); if (e == std::string::npos) continue;
		std::string k = tok.substr(0, e), v = tok.substr(e + 1);
		if (k == "id") p.id = v; else if (k == "nclk") p.nclk = atoi(v.c_str());
		else if (k == "f0") p.freq[0] = parseFrac(v); else if (k == "f1") p.freq[1] = parseFrac(v);
		else if (k == "wc") p.wc = atoi(v.c_str()); else if (k == "ws") p.ws = atoi(v.c_str()); else if (k == "wd") p.wd = atoi(v.c_str());
		else if (k == "steps") p.steps = atoi(v.c_str()); else if (k == "seed") p.seed = strtoull(v.c_str(), nullptr, 10);
		else if (k == "tv") p.tv = v == "1"; else if (k == "allsig") p.allsig = v == "1";
		else if (k == "wait") p.wait = atoi(v.c_str()); else if (k == "pows") p.pows = atoi(v.c_str());
		else if (k == "end") p.end = parseFrac(v);
		else if (k == "der") p.der = atoi(v.c_str());
		else if (k.size() == 3 && k.substr(0, 2) == "rp" && (k[2] == '0' || k[2] == '1')) p.rp[k[2] - '0'] = v.empty() ? 'H' : v[0];
		else if (k.size() == 3 && k.substr(0, 2) == "rt" && (k[2] == '0' || k[2] == '1')) p.rt[k[2] - '0'] = v.empty() ? 'S' : v[0];
		else if (k.size() == 3 && k.substr(0, 2) == "rn" && (k[2] == '0' || k[2] == '1')) p.rn[k[2] - '0'] = v;
		else if (k.size() == 4 && k.substr(0, 3) == "mrc" && (k[3] == '0' || k[3] == '1')) p.mrc[k[3] - '0'] = strtoull(v.c_str(), nullptr, 10);
		else if (k.size() == 4 && k.substr(0, 3) == "mrt" && (k[3] == '0' || k[3] == '1')) p.mrt[k[3] - '0'] = strtoull(v.c_str(), nullptr, 10);
	}
	return p;
}

// MSB-first text over 0,1,X,W of a state (W: undefined bit whose VALUE plane is set)
static std::string rawBits(const BVS &s) {
	size_t n = s.size(); std::string r(n, '0');
	for (size_t i = 0; i < n; i++) {
		bool d = s.get(sim::DefaultConfig::DEFINED, i), v = s.get(sim::DefaultConfig::VALUE, i);
		r[n - 1 - i] = d ? (v ? '1' : '0') : (v ? 'W' : 'X');
	}
	return r;
}
static std::string extBits(const sim::ExtendedBitVectorState &s) {
	size_t n = s.size(); std::string r(n, '0');
	for (size_t i = 0; i < n; i++) {
		bool d = s.get(sim::ExtendedConfig::DEFINED, i), v = s.get(sim::ExtendedConfig::VALUE, i);
		r[n - 1 - i] = d ? (v ? '1' : '0') : 'X';
	}
	return r;
}

// ----------------------------------------------------------------------------------------------
struct InRef { std::string name; size_t width; hlim::Node_Pin *node; std::function<void(const BVS &)> set; };
struct OutRef { std::string name; size_t width; bool isBit; hlim::Node_Pin *node; std::function<BVS()> read; };

struct Built {
	std::vector<Clock> clocks;
	std::vector<InRef> ins;
	std::vector<OutRef> outs;
};

static void buildDesign(const Params &p, Built &b) {
	for (int k = 0; k < p.nclk; k++) {
		std::string sfx = "_" + std::to_string(k);
		ClockConfig cfg;
		cfg.absoluteFrequency = hlim::ClockRational(p.freq[k].first, p.freq[k].second);
		cfg.name = "clk" + sfx;
		cfg.resetName = p.rn[k].empty() ? "rst" + sfx : p.rn[k];
		cfg.resetActive = p.rp[k] == 'L' ? ClockConfig::ResetActive::LOW : ClockConfig::ResetActive::HIGH;
		cfg.resetType = p.rt[k] == 'A' ? ClockConfig::ResetType::ASYNCHRONOUS : (p.rt[k] == 'N' ? ClockConfig::ResetType::NONE : ClockConfig::ResetType::SYNCHRONOUS);
		Clock clk(cfg);
		if (p.mrc[k]) clk.getClk()->setMinResetCycles(p.mrc[k]);
		if (p.mrt[k]) clk.getClk()->setMinResetTime(hlim::ClockRational(p.mrt[k], 1'000'000'000'000ull));
		b.clocks.push_back(clk);
		ClockScope cs(clk);

		InputPins d = pinIn(BitWidth((size_t)p.wd)).setName("d" + sfx);
		InputPin s = pinIn().setName("s" + sfx);
		InputPin e = pinIn().setName("e" + sfx);
		UInt dU = d; Bit sB = s; Bit eB = e;

		UInt cnt = BitWidth((size_t)p.wc);
		cnt = reg(cnt + 1, 0);
		cnt.setName("cnt" + sfx);

		UInt dC = p.wd >= p.wc ? UInt(dU(0, BitWidth((size_t)p.wc))) : UInt(zext(dU, BitWidth((size_t)p.wc)));
		UInt acc = BitWidth((size_t)p.wc);
		UInt accn = acc;
		IF (eB) accn = acc + dC;
		IF (sB) accn = 0;
		acc = reg(accn, 0);
		acc.setName("acc" + sfx);

		// counter with enable and reset value: stays at 0 while in reset, undefined for ever if it ever leaves reset too early
		UInt ecnt = 4_b;
		UInt ecntn = ecnt;
		IF (eB) ecntn = ecnt + 1;
		ecnt = reg(ecntn, 0);
		ecnt.setName("ecnt" + sfx);
		OutputPins o_ecnt = pinOut(ecnt).setName("o_ecnt" + sfx);
		b.outs.push_back({"o_ecnt" + sfx, 4, false, o_ecnt.node(), [o_ecnt]() { return simu(o_ecnt).eval(); }});

		if (k == 0 && p.der) {
			ClockConfig dcfg;
			dcfg.frequencyMultiplier = hlim::ClockRational(1, 2);
			dcfg.name = "clkd";
			if (p.der == 2) {
				dcfg.resetName = "rstd";
				dcfg.resetActive = p.rp[0] == 'L' ? ClockConfig::ResetActive::HIGH : ClockConfig::ResetActive::LOW;
			}
			Clock dclk = clk.deriveClock(dcfg);
			b.clocks.push_back(dclk);
			ClockScope dcs(dclk);
			UInt dcnt = 3_b;
			dcnt = reg(dcnt + 1, 5);
			dcnt.setName("dcnt");
			OutputPins o_dcnt = pinOut(dcnt).setName("o_dcnt");
			b.outs.push_back({"o_dcnt", 3, false, o_dcnt.node(), [o_dcnt]() { return simu(o_dcnt).eval(); }});
		}

		UInt sr = BitWidth((size_t)p.ws);
		UInt srn = sr << 1;
		srn.lsb() = sB;
		sr = reg(srn);
		sr.setName("sr" + sfx);

		UInt q = reg(dU);
		q.setName("q" + sfx);

		UInt cX = p.wd >= p.wc ? UInt(zext(cnt, BitWidth((size_t)p.wd))) : UInt(cnt(0, BitWidth((size_t)p.wd)));
		UInt x = dU ^ cX;
		x.setName("x" + sfx);

		Bit z = eB ^ cnt[0];
		z.setName("z" + sfx);

		UInt b1 = ~cnt(0, 1_b);
		b1.setName("b1" + sfx);

		OutputPins o_cnt = pinOut(cnt).setName("o_cnt" + sfx);
		OutputPins o_acc = pinOut(acc).setName("o_acc" + sfx);
		OutputPins o_sr = pinOut(sr).setName("o_sr" + sfx);
		OutputPins o_q = pinOut(q).setName("o_q" + sfx);
		OutputPins o_x = pinOut(x).setName("o_x" + sfx);
		OutputPin o_z = pinOut(z).setName("o_z" + sfx);
		OutputPins o_b1 = pinOut(b1).setName("o_b1" + sfx);

		b.ins.push_back({"d" + sfx, (size_t)p.wd, d.node(), [d](const BVS &v) { simu(d) = v; }});
		b.ins.push_back({"s" + sfx, 1, s.node(), [s](const BVS &v) { simu(s) = v; }});
		b.ins.push_back({"e" + sfx, 1, e.node(), [e](const BVS &v) { simu(e) = v; }});
		b.outs.push_back({"o_cnt" + sfx, (size_t)p.wc, false, o_cnt.node(), [o_cnt]() { return simu(o_cnt).eval(); }});
		b.outs.push_back({"o_acc" + sfx, (size_t)p.wc, false, o_acc.node(), [o_acc]() { return simu(o_acc).eval(); }});
		b.outs.push_back({"o_sr" + sfx, (size_t)p.ws, false, o_sr.node(), [o_sr]() { return simu(o_sr).eval(); }});
		b.outs.push_back({"o_q" + sfx, (size_t)p.wd, false, o_q.node(), [o_q]() { return simu(o_q).eval(); }});
		b.outs.push_back({"o_x" + sfx, (size_t)p.wd, false, o_x.node(), [o_x]() { return simu(o_x).eval(); }});
		b.outs.push_back({"o_z" + sfx, 1, true, o_z.node(), [o_z]() { return simu(o_z).eval(); }});
		b.outs.push_back({"o_b1" + sfx, 1, false, o_b1.node(), [o_b1]() { return simu(o_b1).eval(); }});
	}
}

// random pin value, styles aimed at the change detection: defined, all X, mixed, zero
static BVS randomValue(vh::Rng &r, size_t w) {
	std::string s(w, '0');
	switch (r.below(6)) {
		case 0: for (auto &c : s) c = 'X'; break;
		case 1: break;
		case 2: for (auto &c : s) c = "01XX"[r.below(4)]; break;
		case 3: for (auto &c : s) c = "0111"[r.below(4)]; break;
		default: for (auto &c : s) c = r.coin() ? '1' : '0'; break;
	}
	return vh::fromBits(s);
}

static Seconds randomWait(vh::Rng &r, int profile) {
	if (profile == 1) {
		switch (r.below(5)) {
			case 0: return Seconds{1, 3'000'000'000'000ull};        // 1/3 ps
			case 1: return Seconds{7, 2'000'000'000'000ull};        // 3.5 ps
			case 2: return Seconds{1, 10'000'000'000'000ull};       // 0.1 ps
			case 3: return Seconds{12345, 7'000'000'000'000ull};
			default: return Seconds{1 + r.below(40), 1'000'000'000'000ull};
		}
	}
	switch (r.below(3)) {
		case 0: return Seconds{1000 + r.below(30000), 1'000'000'000'000ull};  // 1..31 ns in ps
		case 1: return Seconds{1 + r.below(9), 300'000'000ull};               // multiples of 3.33 ns
		default: return Seconds{2 + r.below(5), 1'000'000'000ull};
	}
}

// the stimulus: identical for every run of a case (all choices from one Rng)
static void addStimulus(sim::ReferenceSimulator &s, const Params &p, const Built &b) {
	s.addSimulationProcess([p, b]() -> SimProcess {
		vh::Rng r(p.seed * 7919 + 13);
		auto doSets = [&]() {
			for (auto &in : b.ins)
				if (r.below(3) == 0)
					in.set(randomValue(r, in.width));
		};
		auto doReads = [&]() {
			if (!p.tv) return;
			for (auto &o : b.outs)
				if (r.below(3) == 0)
					(void)o.read();
		};
		if (p.pows >= 1)
			for (auto &in : b.ins) in.set(randomValue(r, in.width));
		if (p.pows == 2) {
			co_await WaitStable();
			for (auto &o : b.outs) (void)o.read();
		}
		for (int step = 0; step < p.steps; step++) {
			unsigned kind = (unsigned)r.below(6);
			const Clock &c = b.clocks[r.below(b.clocks.size())];
			bool readOnly = false;
			switch (kind) {
				case 0: co_await OnClk(c); break;
				case 1: co_await AfterClk(c); break;
				case 2: co_await WaitFor(randomWait(r, p.wait)); break;
				case 3: co_await WaitStable(); readOnly = true; break;
				case 5: co_await sim::WaitClock(c.getClk(), sim::WaitClock::BEFORE); break;
				default: co_await WaitFor(randomWait(r, p.wait)); break;
			}
			if (!readOnly) {
				if (r.coin()) { doReads(); doSets(); } else { doSets(); doReads(); }
			} else
				doReads();
		}
	});
	if (p.nclk > 1) {
		// a second writer on the other clock: toggles its serial input
		s.addSimulationProcess([p, b]() -> SimProcess {
			vh::Rng r(p.seed * 104729 + 5);
			const InRef *sin = nullptr;
			for (auto &in : b.ins) if (in.name == "s_1") sin = &in;
			for (int step = 0; step < p.steps; step++) {
				co_await OnClk(b.clocks[1]);
				if (sin && r.coin()) sin->set(vh::fromBits(r.coin() ? "1" : "0"));
			}
		});
	}
}

// ----------------------------------------------------------------------------------------------
// access to what the sink registered (signal table, code order of the $dumpvars section)
struct SinkAccess : public sim::VCDSink {
	using sim::VCDSink::VCDSink;
	size_t numSignals() const { return m_id2Signal.size(); }
	hlim::NodePort driver(size_t i) const { return m_id2Signal[i].signalRef.driver; }
	bool isMemory(size_t i) const { return m_id2Signal[i].signalRef.driver.node == nullptr; }
	std::string name(size_t i) const { return m_id2Signal[i].name; }
	bool isBVec(size_t i) const { return m_id2Signal[i].isBVec; }
	bool isHidden(size_t i) const { return m_id2Signal[i].isHidden; }
	std::vector<hlim::Clock *> dumpClockOrder() const { std::vector<hlim::Clock *> r; for (auto &c : m_clock2code) r.push_back(c.first); return r; }
	std::vector<hlim::Clock *> dumpResetOrder() const { std::vector<hlim::Clock *> r; for (auto &c : m_rst2code) r.push_back(c.first); return r; }
};

struct VcdObserver : public sim::SimulatorCallbacks {
	sim::Simulator &simulator;
	SinkAccess &sink;
	std::ostream &out;
	std::map<const hlim::Clock *, size_t> clkCode, rstCode;
	bool active = false;

	VcdObserver(sim::Simulator &s, SinkAccess &k, std::ostream &o, hlim::Circuit &circuit) : simulator(s), sink(k), out(o) {
		// same source of truth as VCDSink's constructor, called independently
		auto pins = hlim::extractClockPins(circuit, hlim::Subnet::allForSimulation(circuit));
		size_t n = sink.numSignals();
		for (size_t i = 0; i < n; i++) {
			size_t w = sink.isMemory(i) ? 0 : hlim::getOutputWidth(sink.driver(i));
			out << "sig " << i << " " << w << " " << (sink.isBVec(i) ? 1 : 0) << " " << (sink.isHidden(i) ? 1 : 0) << " " << sink.name(i) << "\n";
		}
		size_t code = n;
		for (auto &c : pins.clockPins) { clkCode[c.source] = code; out << "code " << code << " clk " << c.source->getName() << "\n"; code++; }
		for (auto &c : pins.resetPins) { rstCode[c.source] = code; out << "code " << code << " rst " << c.source->getResetName() << "\n"; code++; }
	}
	void onAfterPowerOn() override {
		active = true;
		for (auto *c : sink.dumpClockOrder()) {
			auto v = simulator.getValueOfClock(c);
			if (v[sim::DefaultConfig::DEFINED]) out << "B " << clkCode.at(c) << " " << (v[sim::DefaultConfig::VALUE] ? 1 : 0) << "\n";
		}
		for (auto *c : sink.dumpResetOrder()) {
			auto v = simulator.getValueOfReset(c);
			if (v[sim::DefaultConfig::DEFINED]) out << "B " << rstCode.at(c) << " " << (v[sim::DefaultConfig::VALUE] ? 1 : 0) << "\n";
		}
		out << "R $end\n";
	}
	void onNewTick(const hlim::ClockRational &t) override { if (active) out << "T " << t.numerator() << " " << t.denominator() << "\n"; }
	// the LEVEL of the clock / reset signal is read back from the simulator (getValueOfClock / getValueOfReset), the
	// callback parameter is not trusted
	void onClock(const hlim::Clock *c, bool) override { if (!active) return; auto it = clkCode.find(c); if (it != clkCode.end()) out << "B " << it->second << " " << (simulator.getValueOfClock(c)[sim::DefaultConfig::VALUE] ? 1 : 0) << "\n"; }
	void onReset(const hlim::Clock *c, bool) override { if (!active) return; auto it = rstCode.find(c); if (it != rstCode.end()) out << "B " << it->second << " " << (simulator.getValueOfReset(c)[sim::DefaultConfig::VALUE] ? 1 : 0) << "\n"; }
	void onCommitState() override {
		if (!active) return;
		out << "C";
		for (size_t i = 0; i < sink.numSignals(); i++) {
			if (sink.isMemory(i)) { out << " -"; continue; }
			auto v = simulator.getValueOfOutput(sink.driver(i));
			out << " " << (v.size() == 0 ? std::string("-") : rawBits(v));
		}
		out << "\n";
	}
};

struct TvObserver : public sim::SimulatorCallbacks {
	sim::Simulator &simulator;
	std::ostream &out;
	std::map<hlim::NodePort, std::string> outName;   // driver of an output pin -> pin name
	TvObserver(sim::Simulator &s, std::ostream &o, const Built &b, hlim::Circuit &circuit) : simulator(s), out(o) {
		for (auto &op : b.outs) {
			auto drv = op.node->getDriver(0);
			if (outName.count(drv)) outName[drv] += "|" + op.name; else outName[drv] = op.name;
		}
		// reset pins of the design: name, polarity (1 = active high), kind
		auto pins = hlim::extractClockPins(circuit, hlim::Subnet::allForSimulation(circuit));
		for (auto &r : pins.resetPins) {
			auto &a = r.source->getRegAttribs();
			out << "RstDecl " << r.source->getResetName() << " " << (a.resetActive == hlim::RegisterAttributes::Active::HIGH ? 1 : 0) << " "
				<< (a.resetType == hlim::RegisterAttributes::ResetType::ASYNCHRONOUS ? "A" : "S") << "\n";
		}
	}
	void onPowerOn() override { out << "PowerOn\n"; }
	void onNewPhase(size_t ph) override { auto t = simulator.getCurrentSimulationTime(); out << "NewPhase " << ph << " " << t.numerator() << " " << t.denominator() << "\n"; }
	void onAfterMicroTick(size_t) override { out << "AMT\n"; }
	void onCommitState() override { out << "Commit\n"; }
	// second field: the LEVEL the reset signal has now according to Simulator::getValueOfReset; third: the callback parameter
	void onReset(const hlim::Clock *c, bool param) override {
		auto v = simulator.getValueOfReset(c);
		out << "Reset " << c->getResetName() << " " << (v[sim::DefaultConfig::DEFINED] ? (v[sim::DefaultConfig::VALUE] ? "1" : "0") : "X") << " " << (param ? 1 : 0) << "\n";
	}
	void onSimProcOutputOverridden(const hlim::NodePort &o, const sim::ExtendedBitVectorState &st) override {
		auto *pin = dynamic_cast<hlim::Node_Pin *>(o.node);
		out << "Set " << (pin ? pin->getName() : std::string("?")) << " " << extBits(st) << "\n";
	}
	void onSimProcOutputRead(const hlim::NodePort &o, const BVS &st) override {
		auto it = outName.find(o);
		bool isBool = hlim::getOutputConnectionType(o).isBool();
		out << "Read " << (it == outName.end() ? std::string("?") : it->second) << " " << (isBool ? 1 : 0) << " " << rawBits(st) << "\n";
	}
};

// Replay simulator: the reset pins are driven by the RST records of the file, like the generated VHDL interpreter does
// (`<reset> <= v_clk`), not by the simulator's own power-on sequence.
struct ReplaySim : public sim::ReferenceSimulator {
	ReplaySim() : sim::ReferenceSimulator(false) {}
	// forget the reset releases powerOn() scheduled
	void dropScheduledResets() {
		std::vector<sim::Event> keep;
		while (!m_nextEvents.empty()) { if (m_nextEvents.top().type != sim::Event::Type::resetValueChange) keep.push_back(m_nextEvents.top()); m_nextEvents.pop(); }
		for (auto &e : keep) m_nextEvents.push(e);
	}
	// what Event::Type::resetValueChange does, now
	bool driveReset(const std::string &name, bool level) {
		for (size_t i = 0; i < m_program.m_resetSources.size(); i++) {
			auto &src = m_program.m_resetSources[i];
			if (src.pin->getResetName() != name) continue;
			m_dataState.resetState[i].resetHigh = level;
			for (auto dom : src.domains)
				for (auto &cn : dom->clockedNodes)
					cn.changeReset(m_callbackDispatcher, m_dataState, level, m_performanceCounters);
			m_stateNeedsReevaluating = true;
			return true;
		}
		return false;
	}
};

// ----------------------------------------------------------------------------------------------
static void recordRun(const Params &p, const std::filesystem::path &dir) {
	DesignScope design;
	Built b;
	buildDesign(p, b);
	design.postprocess();

	sim::ReferenceSimulator s(false);
	std::ofstream trace(dir / (p.id + ".trace"));
	std::ofstream tvlog;
	std::string vcdName = (dir / (p.id + ".vcd")).string();
	{
		SinkAccess sink(design.getCircuit(), s, vcdName.c_str());
		sink.addAllPins();
		sink.addAllNamedSignals();
		if (p.allsig) sink.addAllSignals();
		VcdObserver vobs(s, sink, trace, design.getCircuit());
		s.addCallbacks(&vobs);

		std::optional<vhdl::VHDLExport> vhd;
		std::optional<TvObserver> tobs;
		if (p.tv) {
			vhd.emplace(dir / (p.id + "_vhdl") / "design.vhd");
			vhd->addTestbenchRecorder(s, "testbench", false);
			vhd->addTestbenchRecorder(s, "tbinline", true);    // the inline recorder: only its reset assignments are looked at
			(*vhd)(design.getCircuit());
			tvlog.open(dir / (p.id + ".tvlog"));
			tobs.emplace(s, tvlog, b, design.getCircuit());
			s.addCallbacks(&*tobs);
		}
		addStimulus(s, p, b);
		s.compileProgram(design.getCircuit());
		s.powerOn();
		s.advance(hlim::ClockRational(p.end.first, p.end.second));
		if (p.tv) {
			auto t = s.getCurrentSimulationTime();
			tvlog << "Destroy " << t.numerator() << " " << t.denominator() << "\n";
			vhd.reset();   // destructor of the recorder flushes
			tvlog.close();
			std::filesystem::copy_file(dir / (p.id + "_vhdl") / "testbench.testvectors", dir / (p.id + ".testvectors"),
				std::filesystem::copy_options::overwrite_existing);
			if (std::filesystem::exists(dir / (p.id + "_vhdl") / "tbinline.vhd"))
				std::filesystem::copy_file(dir / (p.id + "_vhdl") / "tbinline.vhd", dir / (p.id + ".tbinline.vhd"),
					std::filesystem::copy_options::overwrite_existing);
		}
	}   // sink destroyed: file closed
	trace.close();
}

struct TvRec { std::string kind, name, value; uint64_t adv = 0; };

static std::vector<TvRec> loadTestvectors(const std::filesystem::path &f) {
	std::ifstream in(f); std::vector<TvRec> r; std::string k;
	while (std::getline(in, k)) {
		TvRec rec; rec.kind = k;
		if (k == "ADV") { std::string n; std::getline(in, n); rec.adv = strtoull(n.c_str(), nullptr, 10); }
		else if (k == "SET" || k == "CHECK" || k == "RST") { std::getline(in, rec.name); std::getline(in, rec.value); }
		else { rec.kind = "BAD:" + k; }
		r.push_back(rec);
	}
	return r;
}

// std_match of the generated VHDL: '-' in the expectation matches anything, 0/1 must be met by a defined equal bit
static bool stdMatch(const std::string &expected, const std::string &actual) {
	if (expected.size() != actual.size()) return false;
	for (size_t i = 0; i < expected.size(); i++) {
		if (expected[i] == '-') continue;
		if (expected[i] != actual[i]) return false;
	}
	return true;
}

static void replayRun(const Params &p, const std::filesystem::path &dir) {
	auto recs = loadTestvectors(dir / (p.id + ".testvectors"));
	std::ofstream out(dir / (p.id + ".replay"));
	DesignScope design;
	Built b;
	buildDesign(p, b);
	design.postprocess();
	ReplaySim s;
	size_t fails = 0, checks = 0;
	// Replay semantics = the interpreter loop the recorder writes into testbench.vhd: `wait for n ps`, then the records act
	// at that time.  In VHDL a test-bench action at time t precedes the register updates caused by a clock edge at the same t
	// (they happen one delta cycle later), and the recorder relies on this: records of the BEFORE phase of a tick are written
	// with the tick's own time.  WaitFor of the reference simulator resumes AFTER the registers of that time, so the replay
	// process acts half a picosecond early (all events of these runs lie on or just above the picosecond grid): same order
	// with respect to every clock event as in the VHDL interpreter.  Records at time 0 act at power-on.
	s.addSimulationProcess([&]() -> SimProcess {
		uint64_t now = 0;       // file time (sum of ADV)
		bool shifted = false;   // process time == now - 1/2 ps
		for (size_t i = 0; i < recs.size(); i++) {
			auto &r = recs[i];
			if (r.kind == "ADV") {
				if (r.adv == 0) co_await WaitFor(Seconds{0, 1});
				else if (!shifted) { co_await WaitFor(Seconds{2 * r.adv - 1, 2'000'000'000'000ull}); shifted = true; }
				else co_await WaitFor(Seconds{r.adv, 1'000'000'000'000ull});
				now += r.adv;
			}
			else if (r.kind == "SET") {
				bool found = false;
				for (auto &in : b.ins) if (in.name == r.name) { in.set(vh::fromBits(r.value)); found = true; }
				if (!found) { out << "BADPIN " << i << " " << r.name << "\n"; fails++; }
			} else if (r.kind == "CHECK") {
				bool found = false;
				for (auto &o : b.outs) if (o.name == r.name) {
					std::string actual = vh::bits(o.read());
					bool ok = stdMatch(r.value, actual);
					checks++; if (!ok) fails++;
					out << "K " << i << " " << now << " " << r.name << " " << r.value << " " << actual << " " << (ok ? "ok" : "FAIL") << "\n";
					found = true;
				}
				if (!found) { out << "BADPIN " << i << " " << r.name << "\n"; fails++; }
			} else if (r.kind == "RST") {
				// the record carries the LEVEL of the reset signal (the interpreter assigns it to the port as it is)
				bool ok = (r.value == "0" || r.value == "1") && s.driveReset(r.name, r.value == "1");
				out << "RSTREC " << i << " " << now << " " << r.name << " " << r.value << (ok ? " ok" : " BAD") << "\n";
				if (!ok) fails++;
			} else { out << "BADREC " << i << " " << r.kind << "\n"; fails++; }
		}
	});
	s.compileProgram(design.getCircuit());
	s.powerOn();               // asserts every reset (the declared initial value of the reset signals in testbench.vhd)
	s.dropScheduledResets();   // from here on only the file moves them
	s.advance(hlim::ClockRational(p.end.first, p.end.second) + hlim::ClockRational(1, 1'000'000'000ull));
	out << "SUMMARY checks=" << checks << " fails=" << fails << "\n";
}

int main(int argc, char **argv) {
	if (argc < 4 || std::string(argv[1]) != "run") { std::cerr << "usage: C20_vcd run <casefile> <outdir>\n"; return 2; }
	std::ifstream cf(argv[2]);
	std::filesystem::path dir(argv[3]);
	std::filesystem::create_directories(dir);
	std::string line;
	int rc = 0;
	while (std::getline(cf, line)) {
		if (line.empty() || line[0] == '#') continue;
		Params p = parseCase(line);
		try {
			recordRun(p, dir);
			if (p.tv) replayRun(p, dir);
			std::cout << "done " << p.id << "\n";
		} catch (const std::exception &e) {
			std::cout << "EXCEPTION " << p.id << " " << e.what() << "\n";
			rc = 3;
		}
	}
	return rc;
}
