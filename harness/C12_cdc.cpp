// C12 harness: builds multi-clock designs from line-based design programs through the real
// frontend, runs the REAL inferClockDomains / detectUnguardedCDCCrossings on the
// un-postprocessed circuit, dumps the abstract netlist + real domain map + real flagged set,
// then runs DesignScope::postprocess() (recording accept / reject) and dumps the same again for
// the post-processed circuit.
//
// usage: C12_cdc <programs.txt> <dump.txt>
//
// Program language (one design = "design <name>" ... "end"); every signal is a 4 bit UInt:
//   clock <c> root <freqHz> <name>
//   clock <c> default             DesignScope's built-in default clock
//   clock <c> derive <parent> same|rst|attr|name|mult|nophase
//   area_begin <name> | area_end
//   pin <s> <c|->                 input pin created inside ClockScope(c) / with its clock detached (domain UNKNOWN)
//   const <s> <value>
//   op <s> xor|add|sub|not|mux|cat|and|or <a> [<b> [<c>]]
//   fwd <s>                       UInt declared with width only (read before it is assigned)
//   bind <s> <src>                assign the forward declared signal
//   reg <s> <c> <src> <rst:0|1> <en|->    register clocked by c, optional reset value / enable signal
//   cdc <s> <src> <csrc> <cdst>   allowClockDomainCrossing(src, csrc, cdst)
//   out <c|-> <src>               output pin inside ClockScope(c) / with its clock detached
//   mem <m> <words> <noconf:0|1> [ext <readLatency>]      "ext": MemType::EXTERNAL with that read latency
//   mrd <s> <m> <addr> <c>        asynchronous read port created inside ClockScope(c)
//   mwr <m> <c> <addr> <data> [<en>|-]   write port clocked by c, optionally inside IF(en[0])
//   ext [se] in <s>:<c>|<s>@<c> ... out <s>:<c>|<s>@<c> ... clkout <c>:<parent> ...
//                                 ExternalModule: input ports fed by signal s, declared for clock c through
//                                 PinConfig::clockOverride (":") or through the active ClockScope ("@"); output ports
//                                 defining signal s on clock c; clockOut(parent, name) defining clock c; "se" = hasSideEffects
//   clk2sig <s> <c>               Clock::clkSignal() (bit replicated to 4 bits)
//   clkdrive <c> <s> both|exp|sim   Clock::overrideClkWith(bit 0 of s) in both views / export view only / simulation view only
#include "vh.h"
#include <gatery/hlim/postprocessing/CDCDetection.h>
#include <gatery/hlim/Subnet.h>
#include <gatery/hlim/Clock.h>
#include <gatery/hlim/NodeGroup.h>
#include <gatery/frontend/ExternalModule.h>
#include <gatery/hlim/supportNodes/Node_CDC.h>
#include <gatery/hlim/supportNodes/Node_MemPort.h>
#include <gatery/hlim/supportNodes/Node_Memory.h>
#include <gatery/hlim/coreNodes/Node_Register.h>
#include <gatery/hlim/coreNodes/Node_Pin.h>
#include <gatery/hlim/coreNodes/Node_Signal2Clk.h>
#include <gatery/hlim/coreNodes/Node_Signal2Rst.h>
#include <map>
#include <memory>
#include <set>

using namespace gtry;

static std::map<std::string, size_t> g_names;   // clock name -> small integer (per design)

static size_t nameId(const std::string &s) {
	auto it = g_names.find(s);
	if (it != g_names.end()) return it->second;
	size_t id = g_names.size();
	g_names[s] = id;
	return id;
}

// ExternalModule::Node_External_Exposed is a private nested class; this TU is compiled with -fno-access-control
using ExtNode = gtry::ExternalModule::Node_External_Exposed;

static const char *kindOf(const hlim::BaseNode *n) {
	if (dynamic_cast<const ExtNode*>(n)) return "ext";
	if (dynamic_cast<const hlim::Node_CDC*>(n)) return "cdc";
	if (dynamic_cast<const hlim::Node_MemPort*>(n)) return "memport";
	if (dynamic_cast<const hlim::Node_Signal2Clk*>(n)) return "sig2clk";
	if (dynamic_cast<const hlim::Node_Signal2Rst*>(n)) return "sig2rst";
	if (dynamic_cast<const hlim::Node_Register*>(n)) return "reg";
	if (dynamic_cast<const hlim::Node_Pin*>(n)) return "pin";
	return "other";
}

static void dumpCircuit(hlim::Circuit &circuit, const std::string &design, const char *phase, std::ostream &out)
{
	out << "dump " << design << " " << phase << "\n";
	std::map<const hlim::Clock*, size_t> clkIdx;
	for (size_t i = 0; i < circuit.getClocks().size(); i++) clkIdx[circuit.getClocks()[i].get()] = i;
	auto clkStr = [&](const hlim::Clock *c) -> std::string {
		if (c == nullptr) return "-";
		auto it = clkIdx.find(c);
		if (it == clkIdx.end()) return "?";
		return std::to_string(it->second);
	};
	for (size_t i = 0; i < circuit.getClocks().size(); i++) {
		hlim::Clock *c = circuit.getClocks()[i].get();
		auto f = c->absoluteFrequency();
		out << "clock " << i << " parent=" << clkStr(c->getParentClock())
			<< " selfsim=" << (c->isSelfDriven(true, true) ? 1 : 0)
			<< " selfexp=" << (c->isSelfDriven(false, true) ? 1 : 0)
			<< " name=" << nameId(c->getName())
			<< " fnum=" << f.numerator() << " fden=" << f.denominator()
			<< " phase=" << (c->getPhaseSynchronousWithParent() ? 1 : 0)
			<< " pinsrc=" << clkStr(c->getClockPinSource()) << "\n";
	}
	std::map<const hlim::BaseNode*, size_t> nodeIdx;
	for (size_t i = 0; i < circuit.getNodes().size(); i++) nodeIdx[circuit.getNodes()[i].get()] = i;
	for (size_t i = 0; i < circuit.getNodes().size(); i++) {
		hlim::BaseNode *n = circuit.getNodes()[i].get();
		out << "node " << i << " id=" << n->getId() << " kind=" << kindOf(n) << " type=" << n->getTypeName()
			<< " grp=" << (n->getGroup() ? n->getGroup()->getName() : std::string("-"))
			<< " nout=" << n->getNumOutputPorts() << " clocks=";
		for (size_t k = 0; k < n->getClocks().size(); k++) out << (k ? "," : "") << clkStr(n->getClocks()[k]);
		out << " ins=";
		for (size_t k = 0; k < n->getNumInputPorts(); k++) {
			auto d = n->getDriver(k);
			if (k) out << ",";
			if (d.node == nullptr) out << "-";
			else {
				auto it = nodeIdx.find(d.node);
				if (it == nodeIdx.end()) out << "?"; else out << it->second << "." << d.port;
			}
		}
		out << " inclk=";
		if (auto *e = dynamic_cast<const ExtNode*>(n)) {
			for (size_t k = 0; k < e->m_inClock.size(); k++) out << (k ? "," : "") << clkStr(e->m_inClock[k]);
			out << " outclk=";
			for (size_t k = 0; k < e->m_outClockRelations.size(); k++) {
				auto &r = e->m_outClockRelations[k];
				out << (k ? "," : "");
				if (r.dependentClocks.size() == 1 && r.dependentInputs.empty()) out << clkStr(r.dependentClocks[0]); else out << "?";
			}
		} else
			out << " outclk=";
		out << "\n";
		for (size_t o = 0; o < n->getNumOutputPorts(); o++) {
			out << "rel " << i << " " << o << " deps=";
			try {
				auto r = n->getOutputClockRelation(o);
				for (size_t k = 0; k < r.dependentInputs.size(); k++) out << (k ? "," : "") << r.dependentInputs[k];
				out << " clks=";
				for (size_t k = 0; k < r.dependentClocks.size(); k++) out << (k ? "," : "") << clkStr(r.dependentClocks[k]);
			} catch (const std::exception &e) {
				out << "! clks=!";
			}
			out << "\n";
		}
	}
	// the real inference
	try {
		utils::UnstableMap<hlim::NodePort, hlim::SignalClockDomain> domains;
		hlim::inferClockDomains(circuit, domains);
		for (size_t i = 0; i < circuit.getNodes().size(); i++) {
			hlim::BaseNode *n = circuit.getNodes()[i].get();
			for (size_t o = 0; o < n->getNumOutputPorts(); o++) {
				auto it = domains.find(hlim::NodePort{.node = n, .port = o});
				out << "dom " << i << " " << o << " ";
				if (it == domains.end()) out << "N";
				else switch (it->second.type) {
					case hlim::SignalClockDomain::UNKNOWN: out << "U"; break;
					case hlim::SignalClockDomain::CONSTANT: out << "K"; break;
					case hlim::SignalClockDomain::CLOCK: out << "C" << clkStr(it->second.clk); break;
				}
				out << "\n";
			}
		}
		size_t extra = 0;
		for (auto &p : domains.anyOrder()) if (!nodeIdx.contains(p.first.node)) extra++;
		out << "domextra " << extra << "\n";
	} catch (const std::exception &e) {
		out << "infererror " << typeid(e).name() << "\n";
	}
	// the real detection
	try {
		std::set<size_t> flagged;
		hlim::detectUnguardedCDCCrossings(circuit, hlim::ConstSubnet::all(circuit), [&](const hlim::BaseNode *n) {
			flagged.insert(nodeIdx.at(n));
		});
		out << "flagged";
		for (auto f : flagged) out << " " << f;
		out << "\n";
	} catch (const std::exception &e) {
		out << "detecterror " << typeid(e).name() << "\n";
	}
	out << "enddump\n";
}

struct Interp {
	std::map<int, std::unique_ptr<Clock>> clocks;
	std::map<int, std::unique_ptr<UInt>> sigs;
	std::map<int, std::unique_ptr<Memory<UInt>>> mems;
	std::map<int, size_t> memLatency;
	std::vector<std::unique_ptr<Area>> areas;
	std::vector<std::unique_ptr<ExternalModule>> exts;
	size_t pinCtr = 0;

	Clock &clk(const std::string &s) { return *clocks.at(std::stoi(s)); }
	UInt &sig(const std::string &s) { return *sigs.at(std::stoi(s)); }
	void def(const std::string &s, UInt v) { sigs[std::stoi(s)] = std::make_unique<UInt>(v); }

	void exec(const std::vector<std::string> &t) {
		const std::string &c = t[0];
		if (c == "clock") {
			if (t[2] == "default") {	// the design's built-in default clock (the ClockScope active outside any explicit scope)
				clocks[std::stoi(t[1])] = std::make_unique<Clock>(ClockScope::getClk());
			} else if (t[2] == "root") {
				clocks[std::stoi(t[1])] = std::make_unique<Clock>(ClockConfig{
					.absoluteFrequency = hlim::ClockRational{(std::uint64_t)std::stoull(t[3]), 1}, .name = t[4] });
			} else {
				Clock &p = clk(t[3]);
				ClockConfig cfg;
				const std::string &v = t[4];
				if (v == "same") {}
				else if (v == "rst") cfg.resetType = ClockConfig::ResetType::ASYNCHRONOUS;
				else if (v == "attr") cfg.resetActive = ClockConfig::ResetActive::LOW;
				else if (v == "name") cfg.name = std::string("renamed_") + t[1];
				else if (v == "mult") cfg.frequencyMultiplier = hlim::ClockRational{2, 1};
				else if (v == "nophase") cfg.phaseSynchronousWithParent = false;
				else throw std::runtime_error("bad derive variant " + v);
				clocks[std::stoi(t[1])] = std::make_unique<Clock>(p.deriveClock(cfg));
			}
		} else if (c == "area_begin") {
			areas.push_back(std::make_unique<Area>(t[1], true));
		} else if (c == "area_end") {
			areas.back()->leave();
			areas.pop_back();
		} else if (c == "pin") {
			std::string nm = "in" + std::to_string(pinCtr++);
			if (t[2] == "-") {	// pin without any clock (only reachable through the hlim API: DesignScope has a default clock)
				auto p = pinIn(4_b); p.setName(nm); p.node()->setClockDomain(nullptr);
				UInt v = p; def(t[1], v);
			}
			else { ClockScope cs(clk(t[2])); UInt v = pinIn(4_b).setName(nm); def(t[1], v); }
		} else if (c == "const") {
			UInt v = ConstUInt(std::stoull(t[2]) & 15, 4_b);
			def(t[1], v);
		} else if (c == "op") {
			const std::string &o = t[2];
			UInt r = 4_b;
			if (o == "xor") r = sig(t[3]) ^ sig(t[4]);
			else if (o == "and") r = sig(t[3]) & sig(t[4]);
			else if (o == "or") r = sig(t[3]) | sig(t[4]);
			else if (o == "add") r = sig(t[3]) + sig(t[4]);
			else if (o == "sub") r = sig(t[3]) - sig(t[4]);
			else if (o == "not") r = ~sig(t[3]);
			else if (o == "cat") r = cat(sig(t[3])(0, 2_b), sig(t[4])(2, 2_b));
			else if (o == "mux") {
				r = sig(t[4]);
				IF (sig(t[3])[0]) r = sig(t[5]);
			} else throw std::runtime_error("bad op " + o);
			def(t[1], r);
		} else if (c == "fwd") {
			sigs[std::stoi(t[1])] = std::make_unique<UInt>(4_b);
		} else if (c == "bind") {
			sig(t[1]) = sig(t[2]);
		} else if (c == "reg") {
			ClockScope cs(clk(t[2]));
			UInt r = 4_b;
			bool rst = t[4] == "1";
			if (t[5] == "-") {
				if (rst) r = reg(sig(t[3]), 0); else r = reg(sig(t[3]));
			} else {
				Bit en = sig(t[5])[0];
				ENIF (en) {
					if (rst) r = reg(sig(t[3]), 0); else r = reg(sig(t[3]));
				}
			}
			def(t[1], r);
		} else if (c == "cdc") {
			UInt r = allowClockDomainCrossing(sig(t[2]), clk(t[3]), clk(t[4]));
			def(t[1], r);
		} else if (c == "out") {
			std::string nm = "out" + std::to_string(pinCtr++);
			if (t[1] == "-") { auto p = pinOut(sig(t[2])); p.setName(nm); p.node()->setClockDomain(nullptr); }
			else { ClockScope cs(clk(t[1])); pinOut(sig(t[2])).setName(nm); }
		} else if (c == "mem") {
			auto m = std::make_unique<Memory<UInt>>(std::stoull(t[2]), UInt(4_b));
			if (t[3] == "1") m->noConflicts();
			if (t.size() > 5 && t[4] == "ext") {		// MemType::EXTERNAL: replaced by io pins during post-processing
				memLatency[std::stoi(t[1])] = std::stoull(t[5]);
				m->setType(MemType::EXTERNAL, std::stoull(t[5]));
				m->setName("xmem" + t[1]);
			}
			mems[std::stoi(t[1])] = std::move(m);
		} else if (c == "mrd") {
			ClockScope cs(clk(t[4]));
			UInt v = (*mems.at(std::stoi(t[2])))[sig(t[3])];
			// read latency registers of an external memory (absorbed by the memory group)
			for (size_t i = 0; i < memLatency[std::stoi(t[2])]; i++)
				v = reg(v, {.allowRetimingBackward = true});
			def(t[1], v);
		} else if (c == "mwr") {
			ClockScope cs(clk(t[2]));
			if (t.size() > 5 && t[5] != "-") {			// conditional write: the condition becomes the port's wrEnable
				IF (sig(t[5])[0])
					(*mems.at(std::stoi(t[1])))[sig(t[3])] = sig(t[4]);
			} else
				(*mems.at(std::stoi(t[1])))[sig(t[3])] = sig(t[4]);
		} else if (c == "clkdrive") {
			// clock net driven by logic: in both views, or in one view only (the idiom of ExternalModule::addClockOut / IBUFDS:
			// an unassigned dummy whose export (or simulation) value is overridden)
			Bit s = sig(t[2])[0];
			if (t[3] == "both") clk(t[1]).overrideClkWith(s);
			else {
				Bit dummy;
				if (t[3] == "exp") dummy.exportOverride(s);
				else if (t[3] == "sim") dummy.simulationOverride(s);
				else throw std::runtime_error("bad clkdrive mode " + t[3]);
				clk(t[1]).overrideClkWith(dummy);
			}
		} else if (c == "ext") {
			exts.push_back(std::make_unique<ExternalModule>("ExtEntity" + std::to_string(exts.size()), "work"));
			ExternalModule &m = *exts.back();
			size_t k = 0;
			for (size_t a = 1; a < t.size(); a++) {
				if (t[a] == "se") { m.hasSideEffects(true); continue; }
				const std::string &arg = t.at(++a);
				size_t sep = arg.find_first_of(":@");
				if (sep == std::string::npos) throw std::runtime_error("bad ext argument " + arg);
				std::string lhs = arg.substr(0, sep), rhs = arg.substr(sep + 1);
				bool viaScope = arg[sep] == '@';
				std::string pn = "p" + std::to_string(k++);
				if (t[a-1] == "in") {
					if (viaScope) { ClockScope cs(clk(rhs)); m.in(pn, 4_b) = (BVec) sig(lhs); }
					else m.in(pn, 4_b, PinConfig{ .clockOverride = clk(rhs) }) = (BVec) sig(lhs);
				} else if (t[a-1] == "out") {
					BVec o = 4_b;
					if (viaScope) { ClockScope cs(clk(rhs)); o = m.out(pn, 4_b); }
					else o = m.out(pn, 4_b, PinConfig{ .clockOverride = clk(rhs) });
					def(lhs, (UInt) o);
				} else if (t[a-1] == "clkout") {
					clocks[std::stoi(lhs)] = std::make_unique<Clock>(m.clockOut(clk(rhs), "co_" + lhs));
				} else
					throw std::runtime_error("bad ext keyword " + t[a-1]);
			}
		} else if (c == "clk2sig") {
			Bit b = clk(t[2]).clkSignal();
			UInt v = cat(b, b, b, b);
			def(t[1], v);
		} else
			throw std::runtime_error("unknown statement " + c);
	}
};

static std::string oneLine(std::string s) {
	for (auto &ch : s) if (ch == '\n' || ch == '\r') ch = ' ';
	if (s.size() > 160) s.resize(160);
	return s;
}

static void runDesign(const std::string &name, const std::vector<std::vector<std::string>> &prog, std::ostream &out)
{
	g_names.clear();
	DesignScope design;
	bool built = false;
	try {
		Interp in;
		for (auto &t : prog) in.exec(t);
		while (!in.areas.empty()) { in.areas.back()->leave(); in.areas.pop_back(); }
		built = true;
	} catch (const std::exception &e) {
		out << "builderror " << name << " " << oneLine(e.what()) << "\n";
	}
	if (!built) return;

	dumpCircuit(design.getCircuit(), name, "pre", out);

	std::string verdict = "accept";
	try {
		design.postprocess();
	} catch (const utils::DesignError &e) {
		std::string w = e.what();
		if (w.find("Unintentional clock domain crossing") != std::string::npos) verdict = "reject";
		else verdict = "other design-error " + oneLine(w);
	} catch (const std::exception &e) {
		verdict = std::string("other exception ") + oneLine(e.what());
	}
	out << "verdict " << name << " " << verdict << "\n";
	dumpCircuit(design.getCircuit(), name, "post", out);
}

int main(int argc, char **argv)
{
	if (argc < 3) { std::cerr << "usage: C12_cdc <programs> <dump>\n"; return 2; }
	std::ifstream in(argv[1]);
	std::ofstream out(argv[2]);
	if (!in || !out) { std::cerr << "cannot open files\n"; return 2; }
	std::string line, name;
	std::vector<std::vector<std::string>> prog;
	size_t n = 0;
	while (std::getline(in, line)) {
		std::istringstream ss(line);
		std::vector<std::string> t;
		std::string w;
		while (ss >> w) t.push_back(w);
		if (t.empty() || t[0][0] == '#') continue;
		if (t[0] == "design") { name = t.size() > 1 ? t[1] : "?"; prog.clear(); }
		else if (t[0] == "end") { runDesign(name, prog, out); n++; }
		else prog.push_back(t);
	}
	out << "done " << n << "\n";
	return 0;
}
