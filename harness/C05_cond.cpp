// C05 harness: reads the program file written by checks/C05.py, INTERPRETS the program AST by
// constructing the real frontend objects (ConditionalScope constructors exactly as the
// IF / ELSE / ELSEIF macros do, UInt / Bit variables, slice / bit / dynamic slice aliases),
// simulates the circuit before and after design.postprocess() for every input vector and prints
//   <pid> <k> IR F <sig>=<bits>;... R <tmp>:<guard>:<bits>;...      (un-postprocessed)
//   <pid> <k> IP ...                                                (postprocessed)
//   <pid> <k> OR ...   an independent plain-integer software execution of the same AST
//                      (the search oracle; "U" when it meets an undefined value)
#include "vh.h"
#include <gatery/frontend/ConditionalScope.h>
#include <memory>
#include <optional>

using namespace gtry;

// ------------------------------------------------------------------ AST
struct Ex { std::string op; int a = 0, b = 0; std::string bits; std::vector<Ex> kids; std::string spell; int pw = 0; };
struct Sel { std::string kind; int a = 0, b = 0; Ex idx; std::string spell; int pw = 0; };
struct St;
struct Br { int type = 0; /* 0 IF, 1 ELSEIF, 2 ELSE, 3 ELSE IF (with a space) */ Ex c; std::vector<St> body; };
struct St { char kind = 0; int x = 0; bool isBit = false; int w = 0; int tmp = 0; Ex e; std::vector<Sel> path; std::vector<Br> brs; };
struct Pin { bool isBit; int w; };
struct Prog { std::string id; std::vector<Pin> pins; std::vector<St> body; std::vector<std::vector<std::string>> vecs; };

typedef std::vector<std::string> Toks;

static Toks toks(const std::string &l) { std::istringstream is(l); Toks t; std::string s; while (is >> s) t.push_back(s); return t; }
[[noreturn]] static void die(const std::string &m) { fprintf(stderr, "C05_cond: %s\n", m.c_str()); exit(3); }

static Ex pExpr(const Toks &t, size_t &i)
{
	if (i >= t.size()) die("expr eof");
	Ex e; e.op = t[i++];
	if (e.op == "in" || e.op == "s") e.a = atoi(t.at(i++).c_str());
	else if (e.op == "cu" || e.op == "cb") e.bits = t.at(i++);
	else if (e.op == "not") e.kids.push_back(pExpr(t, i));
	else if (e.op == "and" || e.op == "or" || e.op == "xor" || e.op == "add" || e.op == "eq") { e.kids.push_back(pExpr(t, i)); e.kids.push_back(pExpr(t, i)); }
	else if (e.op == "sl") { e.kids.push_back(pExpr(t, i)); e.a = atoi(t.at(i++).c_str()); e.b = atoi(t.at(i++).c_str()); }
	else if (e.op == "bit") { e.kids.push_back(pExpr(t, i)); e.a = atoi(t.at(i++).c_str()); }
	else if (e.op == "slx") { e.op = "sl"; e.spell = t.at(i++); e.pw = atoi(t.at(i++).c_str()); e.kids.push_back(pExpr(t, i)); e.a = atoi(t.at(i++).c_str()); e.b = atoi(t.at(i++).c_str()); }
	else if (e.op == "bitx") { e.op = "bit"; e.spell = t.at(i++); e.pw = atoi(t.at(i++).c_str()); e.kids.push_back(pExpr(t, i)); e.a = atoi(t.at(i++).c_str()); }
	else if (e.op == "dpartx") { e.op = "dpart"; e.spell = t.at(i++); e.a = atoi(t.at(i++).c_str()); e.b = atoi(t.at(i++).c_str()); e.kids.push_back(pExpr(t, i)); e.kids.push_back(pExpr(t, i)); }
	else if (e.op == "wsc") { e.kids.push_back(pExpr(t, i)); e.kids.push_back(pExpr(t, i)); }
	else if (e.op == "muxw") { e.a = atoi(t.at(i++).c_str()); e.kids.push_back(pExpr(t, i)); e.kids.push_back(pExpr(t, i)); }
	else if (e.op == "dsl" || e.op == "dbit" || e.op == "dpart") { e.a = atoi(t.at(i++).c_str()); e.b = atoi(t.at(i++).c_str()); e.kids.push_back(pExpr(t, i)); e.kids.push_back(pExpr(t, i)); }
	else die("expr token " + e.op);
	return e;
}

static Sel pSel(const Toks &t, size_t &i)
{
	Sel s; s.kind = t.at(i++);
	if (s.kind == "st") { s.a = atoi(t.at(i++).c_str()); s.b = atoi(t.at(i++).c_str()); }
	else if (s.kind == "sb") { s.a = atoi(t.at(i++).c_str()); }
	else if (s.kind == "sx") { s.kind = "st"; s.spell = t.at(i++); s.pw = atoi(t.at(i++).c_str()); s.a = atoi(t.at(i++).c_str()); s.b = atoi(t.at(i++).c_str()); }
	else if (s.kind == "bx") { s.kind = "sb"; s.spell = t.at(i++); s.pw = atoi(t.at(i++).c_str()); s.a = atoi(t.at(i++).c_str()); }
	else if (s.kind == "dpx") { s.kind = "dp"; s.spell = t.at(i++); s.a = atoi(t.at(i++).c_str()); s.b = atoi(t.at(i++).c_str()); s.idx = pExpr(t, i); }
	else if (s.kind == "ds" || s.kind == "db" || s.kind == "dp") { s.a = atoi(t.at(i++).c_str()); s.b = atoi(t.at(i++).c_str()); s.idx = pExpr(t, i); }
	else die("sel " + s.kind);
	return s;
}

static std::vector<St> pBlock(const std::vector<Toks> &L, size_t &li);

static St pStmt(const std::vector<Toks> &L, size_t &li)
{
	const Toks &t = L[li++]; size_t i = 1; St s; s.kind = t[0][0];
	if (t[0] == "D") { s.x = atoi(t.at(i++).c_str()); s.isBit = t.at(i++) == "b"; s.w = atoi(t.at(i++).c_str()); s.e = pExpr(t, i); }
	else if (t[0] == "DD") { s.kind = 'E'; s.x = atoi(t.at(i++).c_str()); s.isBit = t.at(i++) == "b"; s.w = atoi(t.at(i++).c_str()); s.tmp = atoi(t.at(i++).c_str()); s.e.bits = t.at(i++); }
	else if (t[0] == "A") { s.x = atoi(t.at(i++).c_str()); int np = atoi(t.at(i++).c_str()); for (int k = 0; k < np; k++) s.path.push_back(pSel(t, i)); s.e = pExpr(t, i); }
	else if (t[0] == "R") { s.tmp = atoi(t.at(i++).c_str()); s.x = atoi(t.at(i++).c_str()); }
	else if (t[0] == "IF") {
		s.kind = 'I';
		Br b; b.type = 0; b.c = pExpr(t, i); b.body = pBlock(L, li); s.brs.push_back(b);
		for (;;) {
			if (li >= L.size()) die("IF without END");
			const Toks &m = L[li];
			if (m[0] == "END") { li++; break; }
			else if (m[0] == "ELIF" || m[0] == "ELSP") { li++; size_t j = 1; Br e; e.type = (m[0] == "ELIF") ? 1 : 3; e.c = pExpr(m, j); e.body = pBlock(L, li); s.brs.push_back(e); }
			else if (m[0] == "ELSE") { li++; Br e; e.type = 2; e.body = pBlock(L, li); s.brs.push_back(e); if (li >= L.size() || L[li][0] != "END") die("ELSE without END"); li++; break; }
			else die("chain marker " + m[0]);
		}
	} else die("stmt " + t[0]);
	return s;
}

static std::vector<St> pBlock(const std::vector<Toks> &L, size_t &li)
{
	std::vector<St> r;
	while (li < L.size()) {
		const std::string &k = L[li][0];
		if (k == "ELIF" || k == "ELSP" || k == "ELSE" || k == "END") break;
		r.push_back(pStmt(L, li));
	}
	return r;
}

// ------------------------------------------------------------------ interpretation with real frontend objects
struct Val { std::shared_ptr<Bit> b; std::shared_ptr<UInt> u; };
struct Var { int id; std::unique_ptr<Bit> b; std::unique_ptr<UInt> u; };
struct ReadOut { int tmp; bool isBit; std::optional<OutputPin> pb; std::optional<OutputPins> pu; std::optional<OutputPin> guard; };

// ---- every spelling the BaseBitVector / SliceableBitVector API offers for a static sub-range, a single bit and a
// dynamic part; all spellings of one (offset, width) / bit index must behave identically, on vectors and on aliases
static UInt &applyStatic(UInt &v, const std::string &sp, int off, int w)
{
	int pw = (int)v.size();
	UInt *r = nullptr;
	if (sp.empty() || sp == "call") r = &v((size_t)off, BitWidth((uint64_t)w));
	else if (sp == "sel_slice") r = &v(Selection::Slice((size_t)off, (size_t)w));
	else if (sp == "sel_range") r = &v(Selection::Range(off, off + w));
	else if (sp == "sel_range_sz") r = &v(Selection::Range((size_t)off, (size_t)(off + w)));
	else if (sp == "sel_rangeincl") r = &v(Selection::RangeIncl(off, off + w - 1));
	else if (sp == "sel_from") r = &v(Selection::From(off));
	else if (sp == "sel_fromneg") r = &v(Selection::From(-w));
	else if (sp == "sel_all") r = &v(Selection::All());
	else if (sp == "sel_symbol") r = &v(Selection::Symbol(off / w, BitWidth((uint64_t)w)));
	else if (sp == "upper") r = &v.upper(BitWidth((uint64_t)w));
	else if (sp == "upper_reduce") r = &v.upper(BitReduce{(uint64_t)off});
	else if (sp == "lower") r = &v.lower(BitWidth((uint64_t)w));
	else if (sp == "lower_reduce") r = &v.lower(BitReduce{(uint64_t)(pw - w)});
	else if (sp == "call_reduce") r = &v((size_t)off, BitReduce{(uint64_t)(pw - w)});
	else if (sp == "word") r = &v.word((size_t)(off / w), BitWidth((uint64_t)w));
	else if (sp == "part") r = &v.part((size_t)(pw / w), (size_t)(off / w));
	else if (sp == "parts_idx") r = &v.parts((size_t)(pw / w))[(size_t)(off / w)];
	else if (sp == "parts_at") r = &v.parts((size_t)(pw / w)).at((size_t)(off / w));
	else die("static slice spelling " + sp);
	if ((int)r->size() != w) die("spelling " + sp + " produced width " + std::to_string(r->size()) + " instead of " + std::to_string(w));
	return *r;
}

static Bit &applyBit(UInt &v, const std::string &sp, int i)
{
	int pw = (int)v.size();
	if (sp.empty() || sp == "index") return v[(size_t)i];
	if (sp == "index_int") return v[(int)i];
	if (sp == "index_neg") return v[(int)(i - pw)];
	if (sp == "at") return v.at((size_t)i);
	if (sp == "lsb") { if (i != 0) die("lsb spelling"); return v.lsb(); }
	if (sp == "msb") { if (i != pw - 1) die("msb spelling"); return v.msb(); }
	if (sp == "front") { if (i != 0) die("front spelling"); return v.front(); }
	if (sp == "back") { if (i != pw - 1) die("back spelling"); return v.back(); }
	if (sp == "iter") return *(v.begin() + i);
	if (sp == "riter") return *(v.rbegin() + (pw - 1 - i));
	die("bit spelling " + sp);
}

static UInt &applyDynPart(UInt &v, const std::string &sp, int parts, const UInt &idx)
{
	if (sp.empty() || sp == "part") return v.part((size_t)parts, idx);
	if (sp == "parts_idx") return v.parts((size_t)parts)[idx];
	if (sp == "parts_at") return v.parts((size_t)parts).at(idx);
	die("dynamic part spelling " + sp);
}

struct Builder {
	std::vector<std::unique_ptr<Bit>> pinBits; std::vector<std::unique_ptr<UInt>> pinVecs;
	std::vector<std::optional<InputPin>> inB; std::vector<std::optional<InputPins>> inU;
	std::vector<Var> vars;
	std::vector<ReadOut> reads;

	Var *find(int id) { for (size_t i = vars.size(); i-- > 0;) if (vars[i].id == id) return &vars[i]; return nullptr; }

	// The object an accessor is applied to: a bare variable reference is the C++ variable itself, a slice form of
	// such an object is the ALIAS the API hands out (x(4,4_b).lsb() works on the alias, not on a copy), anything
	// else is a temporary kept alive in [keep].  Indices of dynamic accesses are taken the same way.
	UInt *vecRef(const Ex &e, std::vector<Val> &keep)
	{
		if (e.op == "s") { Var *v = find(e.a); if (v && v->u) return v->u.get(); }
		if (e.op == "sl") { UInt *b = vecRef(e.kids[0], keep); return &applyStatic(*b, e.spell, e.a, e.b); }
		if (e.op == "dsl") { UInt *b = vecRef(e.kids[0], keep); UInt *i = vecRef(e.kids[1], keep); return &(*b)(*i, BitWidth((uint64_t)e.b)); }
		if (e.op == "dpart") { UInt *b = vecRef(e.kids[0], keep); UInt *i = vecRef(e.kids[1], keep); return &applyDynPart(*b, e.spell, e.a, *i); }
		keep.push_back(eval(e));
		if (!keep.back().u) die("accessor needs a UInt operand");
		return keep.back().u.get();
	}

	Val eval(const Ex &e)
	{
		Val r;
		if (e.op == "in") {
			// a named copy of the pin: every evaluation is a fresh signal node (the model's NIn node)
			if (pinBits[e.a]) { r.b.reset(new Bit(*pinBits[e.a])); r.b->setName("i" + std::to_string(e.a)); }
			else { r.u.reset(new UInt(*pinVecs[e.a])); r.u->setName("i" + std::to_string(e.a)); }
		} else if (e.op == "cu") {
			std::string s = std::to_string(e.bits.size()) + "b" + e.bits;
			r.u.reset(new UInt(s.c_str()));
		} else if (e.op == "cb") {
			r.b.reset(new Bit(e.bits[0] == 'X' ? 'x' : e.bits[0]));
		} else if (e.op == "s") {
			Var *v = find(e.a); if (!v) die("unknown signal in expr");
			if (v->b) r.b.reset(new Bit(*v->b)); else r.u.reset(new UInt(*v->u));
		} else if (e.op == "not") {
			Val a = eval(e.kids[0]);
			if (a.b) r.b.reset(new Bit(~*a.b)); else r.u.reset(new UInt(~*a.u));
		} else if (e.op == "and" || e.op == "or" || e.op == "xor") {
			Val a = eval(e.kids[0]); Val b = eval(e.kids[1]);
			if (a.b) {
				if (e.op == "and") r.b.reset(new Bit(*a.b & *b.b)); else if (e.op == "or") r.b.reset(new Bit(*a.b | *b.b)); else r.b.reset(new Bit(*a.b ^ *b.b));
			} else {
				if (e.op == "and") r.u.reset(new UInt(*a.u & *b.u)); else if (e.op == "or") r.u.reset(new UInt(*a.u | *b.u)); else r.u.reset(new UInt(*a.u ^ *b.u));
			}
		} else if (e.op == "add") {
			Val a = eval(e.kids[0]); Val b = eval(e.kids[1]);
			r.u.reset(new UInt(*a.u + *b.u));
		} else if (e.op == "eq") {
			Val a = eval(e.kids[0]); Val b = eval(e.kids[1]);
			if (a.b) r.b.reset(new Bit(*a.b == *b.b)); else r.b.reset(new Bit(*a.u == *b.u));
		} else if (e.op == "sl" || e.op == "dsl" || e.op == "dpart") {
			std::vector<Val> keep;
			UInt *al = vecRef(e, keep);
			r.u.reset(new UInt(*al));
		} else if (e.op == "bit") {
			std::vector<Val> keep;
			UInt *b = vecRef(e.kids[0], keep);
			Bit &al = applyBit(*b, e.spell, e.a);
			r.b.reset(new Bit(al));
		} else if (e.op == "dbit") {
			std::vector<Val> keep;
			UInt *b = vecRef(e.kids[0], keep); UInt *i = vecRef(e.kids[1], keep);
			Bit &al = (*b)[*i];
			r.b.reset(new Bit(al));
		} else if (e.op == "wsc") {
			// a helper whose evaluation opens and closes a conditional scope (like abs(), muxWord(), shr() do
			// internally) but whose value is its second operand in every situation: r = v; IF (c) r = v;
			Val c = eval(e.kids[0]); Val v = eval(e.kids[1]);
			if (v.b) { r.b.reset(new Bit(*v.b)); IF (*c.b) { const Bit &rv = *v.b; *r.b = rv; } }
			else { r.u.reset(new UInt(*v.u)); IF (*c.b) { const UInt &rv = *v.u; *r.u = rv; } }
		} else if (e.op == "muxw") {
			// a library helper that uses IF internally (SignalMiscOp.cpp muxWord)
			Val sel = eval(e.kids[0]); Val arr = eval(e.kids[1]);
			r.u.reset(new UInt(muxWord(*sel.b, *arr.u)));
		} else die("eval " + e.op);
		return r;
	}

	void popVars(size_t mark) { while (vars.size() > mark) vars.pop_back(); }

	void runBlock(const std::vector<St> &b) { for (const St &s : b) runStmt(s); }

	void runStmt(const St &s)
	{
		switch (s.kind) {
		case 'D': {
			Val v = eval(s.e);
			Var nv; nv.id = s.x;
			if (s.isBit) {
				// two C++ spellings of a declaration with initialiser; both must behave the same
				if (s.x & 1) nv.b.reset(new Bit(*v.b)); else { nv.b.reset(new Bit()); const Bit &rv = *v.b; *nv.b = rv; }
			} else {
				if (s.x & 1) nv.u.reset(new UInt(*v.u)); else { nv.u.reset(new UInt(BitWidth((uint64_t)s.w))); const UInt &rv = *v.u; *nv.u = rv; }
			}
			vars.push_back(std::move(nv));
		} break;
		case 'E': {
			// declaration with a default value: a Node_Default looped through the variable's own signal node
			Var nv; nv.id = s.x;
			if (s.isBit) { nv.b.reset(new Bit()); *nv.b = BitDefault(s.e.bits[0]); }
			else { nv.u.reset(new UInt(BitWidth((uint64_t)s.w))); std::string lit = std::to_string(s.e.bits.size()) + "b" + s.e.bits; 
				// UInt hides SliceableBitVector::operator=(const UIntDefault&) behind its own operator= overloads (and
				// `UInt x = UIntDefault(..)` asserts valid() on the not yet sized vector): call the base operator on a sized vector
				static_cast<UInt::Base&>(*nv.u) = UIntDefault(lit.c_str()); }
			vars.push_back(std::move(nv));
		} break;
		case 'A': {
			Val rhs = eval(s.e);
			std::vector<Val> keep;
			std::vector<UInt*> idx(s.path.size(), nullptr);
			for (size_t k = 0; k < s.path.size(); k++) if (s.path[k].kind[0] == 'd') idx[k] = vecRef(s.path[k].idx, keep);
			Var *v = find(s.x); if (!v) die("unknown signal in assignment");
			if (v->b) { const Bit &rv = *rhs.b; *v->b = rv; break; }
			UInt *cur = v->u.get(); Bit *bit = nullptr;
			for (size_t k = 0; k < s.path.size(); k++) {
				const Sel &p = s.path[k];
				if (p.kind == "st") cur = &applyStatic(*cur, p.spell, p.a, p.b);
				else if (p.kind == "sb") bit = &applyBit(*cur, p.spell, p.a);
				else if (p.kind == "ds") cur = &(*cur)(*idx[k], BitWidth((uint64_t)p.b));
				else if (p.kind == "db") bit = &(*cur)[*idx[k]];
				else if (p.kind == "dp") cur = &applyDynPart(*cur, p.spell, p.a, *idx[k]);
			}
			if (bit) { const Bit &rv = *rhs.b; *bit = rv; } else { const UInt &rv = *rhs.u; *cur = rv; }
		} break;
		case 'R': {
			Var *v = find(s.x); if (!v) die("unknown signal in read");
			ReadOut ro; ro.tmp = s.tmp; ro.isBit = (bool)v->b;
			std::string nm = "rd" + std::to_string(reads.size());
			if (v->b) { Bit snap = *v->b; ro.pb.emplace(pinOut(snap).setName(nm)); }
			else { UInt snap = *v->u; ro.pu.emplace(pinOut(snap).setName(nm)); }
			if (ConditionalScope::get()) { Bit g = ConditionalScope::globalEnable(); ro.guard.emplace(pinOut(g).setName(nm + "_g")); }
			reads.push_back(std::move(ro));
		} break;
		case 'I': {
			for (const Br &br : s.brs) {
				size_t mark = vars.size();
				if (br.type == 0) {
					Val c = eval(br.c);
					IF (*c.b) { runBlock(br.body); popVars(mark); }
				} else if (br.type == 1) {
					// ELSEIF(x) without its leading  else { HCL_ASSERT(false); } -- x is evaluated INSIDE the braced
					// initializer list, after ElseCase{}, exactly like the macro does (x may open scopes itself)
					if (gtry::ConditionalScope ___condScope{ConditionalScope::ElseCase{}, *eval(br.c).b}) { runBlock(br.body); popVars(mark); }
				} else if (br.type == 3) {
					// ELSE IF (x) { .. }  written with a space: the IF scope lives inside the ELSE scope
					if (gtry::ConditionalScope ___condScope{ConditionalScope::ElseCase{}}) {
						Val c = eval(br.c);
						IF (*c.b) { runBlock(br.body); popVars(mark); }
					}
				} else {
					// ELSE
					if (gtry::ConditionalScope ___condScope{ConditionalScope::ElseCase{}}) { runBlock(br.body); popVars(mark); }
				}
			}
		} break;
		default: die("stmt kind");
		}
	}
};

// ------------------------------------------------------------------ independent plain-integer execution
struct Undef {};
struct OV { uint64_t v; int w; };
static uint64_t mask(int w) { return w >= 64 ? ~0ull : ((1ull << w) - 1); }

static bool hasDefaults(const std::vector<St> &b) { for (const St &s : b) { if (s.kind == 'E') return true; for (const Br &br : s.brs) if (hasDefaults(br.body)) return true; } return false; }
static void collectDefaults(const std::vector<St> &b, std::vector<OV> &d) {
	for (const St &s : b) {
		if (s.kind == 'E') { OV v{0, (int)s.e.bits.size()}; for (char c : s.e.bits) v.v = (v.v << 1) | (c == '1'); if ((int)d.size() <= s.tmp) d.resize(s.tmp + 1, OV{0, 0}); d[s.tmp] = v; }
		for (const Br &br : s.brs) collectDefaults(br.body, d);
	}
}

// Structural dependency analysis on the AST (independent of the Coq model's graph exploration): which
// default nodes does the FINAL driver of every defaulted variable depend on.  Every branch is walked; an
// assignment inside a scope the variable was not declared in depends on the old value and on the full
// condition (all enclosing conditions and the earlier conditions of the chain), a partial assignment on the
// old value and the index.  A default node whose variable's final driver depends on the node itself keeps
// its constant ("loopy"), otherwise it shows the variable's final value; nodes are resolved in creation
// order and a node already resolved to its constant no longer forwards dependencies.
struct Taint {
	struct TV { int id; uint64_t t; int depth; int dk; };
	std::vector<TV> env;
	std::vector<uint64_t> finalT;
	std::vector<bool> haveFinal;

	TV *find(int id) { for (size_t i = env.size(); i-- > 0;) if (env[i].id == id) return &env[i]; return nullptr; }
	uint64_t te(const Ex &e) { uint64_t t = 0; if (e.op == "wsc") return te(e.kids[1]); if (e.op == "s") { TV *v = find(e.a); if (v) t |= v->t; } for (const Ex &k : e.kids) t |= te(k); return t; }
	void leave(size_t mark) {
		for (size_t i = mark; i < env.size(); i++) if (env[i].dk >= 0) {
			if ((int)finalT.size() <= env[i].dk) { finalT.resize(env[i].dk + 1, 0); haveFinal.resize(env[i].dk + 1, false); }
			finalT[env[i].dk] = env[i].t; haveFinal[env[i].dk] = true;
		}
		env.resize(mark);
	}
	void block(const std::vector<St> &b, int depth, uint64_t full)
	{
		for (const St &s : b) switch (s.kind) {
		case 'D': env.push_back({s.x, te(s.e), depth, -1}); break;
		case 'E': env.push_back({s.x, s.tmp < 64 ? (1ull << s.tmp) : 0, depth, s.tmp}); break;
		case 'A': {
			uint64_t t = te(s.e);
			TV *v = find(s.x); if (!v) die("taint: unknown signal");
			if (!s.path.empty()) { t |= v->t; for (const Sel &p : s.path) if (p.kind[0] == 'd') t |= te(p.idx); }
			if (depth > v->depth) t |= v->t | full;
			v->t = t;
		} break;
		case 'R': break;
		case 'I': {
			uint64_t chain = 0;
			for (const Br &br : s.brs) {
				uint64_t f;
				if (br.type == 2) f = chain | full;
				else { uint64_t c = te(br.c); f = c | chain | full; chain |= c; }
				size_t mark = env.size();
				block(br.body, depth + 1, f);
				leave(mark);
			}
		} break;
		}
	}
	// loopy[k]
	std::vector<bool> classify(const std::vector<St> &prog, size_t n)
	{
		block(prog, 0, 0); leave(0);
		finalT.resize(n, 0); haveFinal.resize(n, false);
		std::vector<bool> loopy(n, true);
		for (size_t k = 0; k < n; k++) {
			uint64_t R = finalT[k], done = 0;
			for (bool ch = true; ch;) {
				ch = false;
				for (size_t j = 0; j < n; j++) if (((R >> j) & 1) && !((done >> j) & 1) && j != k) {
					done |= 1ull << j; ch = true;
					if (j < k && loopy[j]) continue;          // already bypassed to its constant
					R |= finalT[j];
				}
			}
			loopy[k] = (R >> k) & 1;
		}
		return loopy;
	}
};

struct Oracle {
	const std::vector<OV> *in = nullptr;
	struct EV { int first; OV second; int dk; };
	std::vector<EV> env;
	std::vector<std::pair<int, OV>> reads;
	std::vector<OV> rho;                       // value of every default node in this run
	std::vector<std::optional<OV>> finals;     // value of every defaulted variable when it dies

	OV *find(int id) { for (size_t i = env.size(); i-- > 0;) if (env[i].first == id) return &env[i].second; return nullptr; }
	void leave(size_t mark) {
		for (size_t i = mark; i < env.size(); i++) if (env[i].dk >= 0) { if ((int)finals.size() <= env[i].dk) finals.resize(env[i].dk + 1); finals[env[i].dk] = env[i].second; }
		env.resize(mark);
	}

	OV ev(const Ex &e)
	{
		if (e.op == "in") return (*in)[e.a];
		if (e.op == "cu" || e.op == "cb") { OV r{0, (int)e.bits.size()}; for (char c : e.bits) { if (c != '0' && c != '1') throw Undef(); r.v = (r.v << 1) | (c == '1'); } return r; }
		if (e.op == "s") { OV *v = find(e.a); if (!v) die("oracle: unknown signal"); return *v; }
		if (e.op == "not") { OV a = ev(e.kids[0]); return OV{~a.v & mask(a.w), a.w}; }
		if (e.op == "and") { OV a = ev(e.kids[0]), b = ev(e.kids[1]); return OV{a.v & b.v, a.w}; }
		if (e.op == "or") { OV a = ev(e.kids[0]), b = ev(e.kids[1]); return OV{a.v | b.v, a.w}; }
		if (e.op == "xor") { OV a = ev(e.kids[0]), b = ev(e.kids[1]); return OV{a.v ^ b.v, a.w}; }
		if (e.op == "add") { OV a = ev(e.kids[0]), b = ev(e.kids[1]); return OV{(a.v + b.v) & mask(a.w), a.w}; }
		if (e.op == "eq") { OV a = ev(e.kids[0]), b = ev(e.kids[1]); return OV{a.v == b.v ? 1ull : 0ull, 1}; }
		if (e.op == "sl") { OV a = ev(e.kids[0]); if (e.a + e.b > a.w) throw Undef(); return OV{(a.v >> e.a) & mask(e.b), e.b}; }
		if (e.op == "bit") { OV a = ev(e.kids[0]); if (e.a >= a.w) throw Undef(); return OV{(a.v >> e.a) & 1, 1}; }
		if (e.op == "wsc") return ev(e.kids[1]);
		if (e.op == "muxw") { OV sel = ev(e.kids[0]), a = ev(e.kids[1]); int h = a.w / 2; return OV{(sel.v & 1) ? (a.v >> h) & mask(h) : a.v & mask(h), h}; }
		if (e.op == "dsl" || e.op == "dbit" || e.op == "dpart") {
			OV a = ev(e.kids[0]), i = ev(e.kids[1]);
			uint64_t maxi; int mul, w;
			if (e.op == "dsl") { maxi = (1ull << e.a) - 1; mul = 1; w = e.b; }
			else if (e.op == "dbit") { maxi = std::min<uint64_t>(a.w - 1, (1ull << e.a) - 1); mul = 1; w = 1; }
			else { int partW = a.w / e.a; maxi = e.a - 1; mul = partW; w = partW; }
			if (i.v > maxi) throw Undef();
			int off = (int)i.v * mul;
			if (off + w > a.w) throw Undef();          // bits beyond the vector read as undefined
			return OV{(a.v >> off) & mask(w), w};
		}
		die("oracle ev " + e.op);
	}

	// value of `cur` after  cur path[k..] = nw
	OV write(OV cur, const std::vector<Sel> &path, const std::vector<OV> &idx, size_t k, OV nw)
	{
		if (k == path.size()) return nw;
		const Sel &p = path[k];
		int off, w;
		if (p.kind == "st") { off = p.a; w = p.b; }
		else if (p.kind == "sb") { off = p.a; w = 1; }
		else {
			uint64_t i = idx[k].v; uint64_t maxi; int mul;
			if (p.kind == "ds") { maxi = (1ull << p.a) - 1; mul = 1; w = p.b; }            // x(idx, w_b): every value of idx selects
			else if (p.kind == "db") { maxi = std::min<uint64_t>(cur.w - 1, (1ull << p.a) - 1); mul = 1; w = 1; }   // x[idx]
			else { int partW = cur.w / p.a; maxi = p.a - 1; mul = partW; w = partW; }      // x.part(parts, idx)
			if (i > maxi) throw Undef();                                                   // no such position: undefined
			off = (int)i * mul;
		}
		if (off >= cur.w) die("oracle: slice offset outside of the vector");
		int wIn = std::min(w, cur.w - off);                  // a slice sticking out at the top is truncated
		OV sub{(cur.v >> off) & mask(wIn), w};
		OV sub2 = write(sub, path, idx, k + 1, nw);
		uint64_t m = mask(wIn) << off;
		return OV{(cur.v & ~m) | ((sub2.v << off) & m), cur.w};
	}

	void block(const std::vector<St> &b) { for (const St &s : b) stmt(s); }
	void scoped(const std::vector<St> &b) { size_t mark = env.size(); block(b); leave(mark); }

	void stmt(const St &s)
	{
		switch (s.kind) {
		case 'D': { OV v = ev(s.e); env.push_back({s.x, v, -1}); } break;
		case 'E': { if ((size_t)s.tmp >= rho.size()) die("oracle: default numbering"); env.push_back({s.x, rho[s.tmp], s.tmp}); } break;
		case 'A': {
			OV rhs = ev(s.e); std::vector<OV> idx;
			for (const Sel &p : s.path) idx.push_back(p.kind[0] == 'd' ? ev(p.idx) : OV{0, 0});
			OV *v = find(s.x); if (!v) die("oracle: unknown signal");
			*v = write(*v, s.path, idx, 0, rhs);
		} break;
		case 'R': { OV *v = find(s.x); if (!v) die("oracle: unknown signal"); reads.push_back({s.tmp, *v}); } break;
		case 'I': {
			for (const Br &br : s.brs) {
				if (br.type == 2) { scoped(br.body); break; }
				OV c = ev(br.c);
				if (c.v & 1) { scoped(br.body); break; }
			}
		} break;
		default: die("oracle stmt");
		}
	}
};

static std::string bitsOf(OV v) { std::string r(v.w, '0'); for (int i = 0; i < v.w; i++) if ((v.v >> i) & 1) r[v.w - 1 - i] = '1'; return r; }

// ------------------------------------------------------------------ one program
static void runProgram(const Prog &P)
{
	size_t nv = P.vecs.size();
	std::vector<std::string> raw(nv), post(nv);
	std::string err;
	try {
		DesignScope design;
		Clock clock({ .absoluteFrequency = 100'000'000 });
		ClockScope cs(clock);
		Builder B;
		for (size_t i = 0; i < P.pins.size(); i++) {
			std::string nm = "in" + std::to_string(i);
			B.pinBits.emplace_back(); B.pinVecs.emplace_back(); B.inB.emplace_back(); B.inU.emplace_back();
			if (P.pins[i].isBit) { B.inB[i].emplace(pinIn().setName(nm)); B.pinBits[i].reset(new Bit(*B.inB[i])); }
			else { B.inU[i].emplace(pinIn(BitWidth((uint64_t)P.pins[i].w)).setName(nm)); B.pinVecs[i].reset(new UInt(*B.inU[i])); }
		}
		B.runBlock(P.body);
		// final values of all variables still in scope, innermost declaration first
		struct Fin { int id; std::optional<OutputPin> pb; std::optional<OutputPins> pu; };
		std::vector<Fin> fins;
		for (size_t i = B.vars.size(); i-- > 0;) {
			Fin f; f.id = B.vars[i].id; std::string nm = "fin" + std::to_string(i);
			if (B.vars[i].b) f.pb.emplace(pinOut(*B.vars[i].b).setName(nm)); else f.pu.emplace(pinOut(*B.vars[i].u).setName(nm));
			fins.push_back(std::move(f));
		}
		auto simulate = [&](std::vector<std::string> &out) {
			sim::ReferenceSimulator s(false);
			s.addSimulationProcess([&]() -> SimProcess {
				for (size_t k = 0; k < nv; k++) {
					for (size_t i = 0; i < P.pins.size(); i++) {
						if (P.pins[i].isBit) simu(*B.inB[i]) = vh::fromBits(P.vecs[k][i]); else simu(*B.inU[i]) = vh::fromBits(P.vecs[k][i]);
					}
					co_await WaitFor({ 1, 1000000000 });
					std::string r = "F ";
					for (size_t i = 0; i < fins.size(); i++) {
						if (i) r += ";";
						r += std::to_string(fins[i].id) + "=" + (fins[i].pb ? vh::bits(simu(*fins[i].pb).eval()) : vh::bits(simu(*fins[i].pu).eval()));
					}
					r += " R ";
					for (size_t i = 0; i < B.reads.size(); i++) {
						if (i) r += ";";
						const ReadOut &ro = B.reads[i];
						r += std::to_string(ro.tmp) + ":" + (ro.guard ? vh::bits(simu(*ro.guard).eval()) : std::string("1")) + ":" +
							(ro.isBit ? vh::bits(simu(*ro.pb).eval()) : vh::bits(simu(*ro.pu).eval()));
					}
					out[k] = r;
				}
				s.abort();
			});
			s.compileProgram(design.getCircuit());
			s.powerOn();
			s.advance({ 1, 1 });
		};
		// Node_Default cannot be simulated: programs with defaulted declarations are observed after postprocessing only
		if (!hasDefaults(P.body)) simulate(raw);
		design.postprocess();
		simulate(post);
	} catch (const std::exception &e) {
		err = e.what();
		for (char &c : err) if (c == '\n' || c == '\r') c = ' ';
		if (err.size() > 300) err.resize(300);
	}
	{
		// the oracle's own classification of the default nodes (compared with the model's by the check)
		std::vector<OV> dfl0; collectDefaults(P.body, dfl0);
		if (!dfl0.empty() && dfl0.size() <= 60) {
			Taint T; std::vector<bool> loopy = T.classify(P.body, dfl0.size());
			std::cout << P.id << " - OD ";
			for (size_t j = 0; j < loopy.size(); j++) std::cout << (j ? "," : "") << j << ":" << (loopy[j] ? "loopy" : "final");
			std::cout << "\n";
		}
	}
	for (size_t k = 0; k < nv; k++) {
		if (!err.empty() && ((raw[k].empty() && !hasDefaults(P.body)) || post[k].empty())) std::cout << P.id << " " << k << " IX EXCEPTION " << err << "\n";
		if (!raw[k].empty()) std::cout << P.id << " " << k << " IR " << raw[k] << "\n";
		if (!post[k].empty()) std::cout << P.id << " " << k << " IP " << post[k] << "\n";
		// the oracle
		std::vector<OV> in;
		bool undef = false;
		for (size_t i = 0; i < P.pins.size(); i++) {
			OV v{0, (int)P.vecs[k][i].size()};
			for (char c : P.vecs[k][i]) { if (c != '0' && c != '1') undef = true; v.v = (v.v << 1) | (c == '1'); }
			in.push_back(v);
		}
		Oracle O; O.in = &in;
		std::vector<OV> dfl; collectDefaults(P.body, dfl);
		if (!undef && dfl.size() > 60) undef = true;
		if (!undef) {
			try {
				if (dfl.empty()) O.block(P.body);
				else {
					Taint T; std::vector<bool> loopy = T.classify(P.body, dfl.size());
					std::vector<OV> rho = dfl;                 // any start value: a non-loopy final does not depend on its own node
					bool consistent = false;
					for (size_t pass = 0; pass < 2 * dfl.size() + 3 && !consistent; pass++) {
						O = Oracle(); O.in = &in; O.rho = rho;
						O.block(P.body); O.finals.resize(dfl.size());
						for (size_t i = 0; i < O.env.size(); i++) if (O.env[i].dk >= 0) O.finals[O.env[i].dk] = O.env[i].second;
						consistent = true;
						for (size_t j = 0; j < dfl.size(); j++) if (!loopy[j] && O.finals[j] && O.finals[j]->v != rho[j].v) { rho[j] = *O.finals[j]; consistent = false; }
					}
					if (!consistent) undef = true;
				}
			} catch (const Undef &) { undef = true; }
		}
		if (undef) { std::cout << P.id << " " << k << " OR U\n"; continue; }
		std::string r = "F ";
		for (size_t i = O.env.size(), n = 0; i-- > 0; n++) { if (n) r += ";"; r += std::to_string(O.env[i].first) + "=" + bitsOf(O.env[i].second); }
		r += " R ";
		for (size_t i = 0; i < O.reads.size(); i++) { if (i) r += ";"; r += std::to_string(O.reads[i].first) + ":1:" + bitsOf(O.reads[i].second); }
		std::cout << P.id << " " << k << " OR " << r << "\n";
	}
}

int main(int argc, char **argv)
{
	if (argc < 2) die("usage: C05_cond <program file>");
	std::ifstream f(argv[1]); if (!f) die("cannot open input");
	std::vector<Toks> lines; std::string l;
	while (std::getline(f, l)) { Toks t = toks(l); if (!t.empty()) lines.push_back(t); }
	size_t li = 0;
	while (li < lines.size()) {
		if (lines[li][0] != "P") die("expected P");
		Prog P; P.id = lines[li][1]; li++;
		while (li < lines.size() && lines[li][0] == "pin") { P.pins.push_back({lines[li][1] == "b", atoi(lines[li][2].c_str())}); li++; }
		std::vector<Toks> body;
		while (li < lines.size() && lines[li][0] != "V") body.push_back(lines[li++]);
		if (li >= lines.size()) die("no V");
		li++;
		while (li < lines.size() && lines[li][0] == "I") { P.vecs.emplace_back(lines[li].begin() + 1, lines[li].end()); li++; }
		if (li >= lines.size() || lines[li][0] != "E") die("no E");
		li++;
		size_t bi = 0; P.body = pBlock(body, bi);
		if (bi != body.size()) die("trailing lines in program " + P.id);
		runProgram(P);
	}
	return 0;
}
