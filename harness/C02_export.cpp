// C02 harness: design program -> real frontend -> design.postprocess() -> real VHDL export
// (+ test-bench recorder) and, for the SAME circuit object, the netlist dump and real
// reference-simulator traces.
//
//   C02_export run    <programs> <nstim> <cycles> <outdir> [single|entity|partition]
//   C02_export replay <programs> <stimfile> 0     <outdir> [single|entity|partition]
//
// per design `id`:
//   <outdir>/<id>.net            dump of the circuit that was exported (after postprocess + export)
//   <outdir>/<id>.trace          nd::runTrace traces (trace 0 is fully defined, 1 some X, 2 mostly X)
//   <outdir>/<id>/*.vhd          the exported VHDL (all files of the chosen output mode)
//   <outdir>/<id>/files.txt      the exporter's own list of source files in compile order
//   <outdir>/<id>/testbench.testvectors  SET/CHECK/ADV/RST stream recorded by the exporter's
//                                FileBasedTestbenchRecorder from a simulation process that applies
//                                the stimuli of trace 0 and reads every output pin each cycle
//   <outdir>/<id>.tbtrace        what that simulation process itself read (cross-check)
// A design that cannot be built/exported gets "SKIP <id> <reason>" in .net/.trace.
#include "netdump.h"
#include <gatery/export/vhdl/VHDLExport.h>
#include <gatery/export/vhdl/AST.h>
#include <gatery/frontend/SynthesisTool.h>
#include <gatery/hlim/coreNodes/Node_Pin.h>
#include <filesystem>

using namespace gtry;

static std::string randBits(vh::Rng &rng, size_t w, int mode) {
	std::string s(w, '0');
	for (auto &c : s) {
		uint64_t r = rng.below(100);
		if (mode == 0) c = (r & 1) ? '1' : '0';
		else if (mode == 1) c = r < 15 ? 'X' : (r & 1) ? '1' : '0';
		else c = r < 60 ? 'X' : (r & 1) ? '1' : '0';
	}
	return s;
}

// design-program extensions used only by C02 (memories, tristate pins, extra clocks settings)
class Interp2 : public nd::Interp {
public:
	std::vector<std::unique_ptr<Memory<UInt>>> mems;
	std::map<std::string, size_t> memIdx;
	std::vector<std::unique_ptr<Memory<Bit>>> bmems;
	std::map<std::string, size_t> bmemIdx;
	virtual void stmt(const std::vector<std::string> &t) override {
		const std::string &op = t[0];
		auto setU = [&](const std::string &n, const UInt &v) { auto p = std::make_shared<nd::Val>(); p->v.emplace<UInt>(v); b.vars[n] = p; };
		if (op == "mem") {            // mem NAME depth width
			mems.push_back(std::make_unique<Memory<UInt>>(std::stoull(t[2]), UInt(BitWidth(std::stoull(t[3])))));
			mems.back()->setName(t[1]);
			if (t.size() > 4 && t[4] == "zero") mems.back()->initZero();
			memIdx[t[1]] = mems.size() - 1;
		} else if (op == "memwrite") { // memwrite MEM ADDR DATA [COND]
			auto &m = *mems.at(memIdx.at(t[1]));
			if (t.size() > 4) { IF (asB(t[4])) m[asU(t[2])] = asU(t[3]); }
			else m[asU(t[2])] = asU(t[3]);
		} else if (op == "memread") {  // memread NAME MEM ADDR
			auto &m = *mems.at(memIdx.at(t[2]));
			UInt x = m[asU(t[3])];
			setU(t[1], x);
		} else if (op == "memb") {      // memb NAME depth            (memory of single Bit words)
			bmems.push_back(std::make_unique<Memory<Bit>>(std::stoull(t[2]), Bit{}));
			bmems.back()->setName(t[1]);
			bmemIdx[t[1]] = bmems.size() - 1;
		} else if (op == "membwrite") { // membwrite MEM ADDR DATABIT [COND]
			auto &m = *bmems.at(bmemIdx.at(t[1]));
			if (t.size() > 4) { IF (asB(t[4])) m[asU(t[2])] = asB(t[3]); }
			else m[asU(t[2])] = asB(t[3]);
		} else if (op == "membread") {  // membread NAME MEM ADDR
			auto &m = *bmems.at(bmemIdx.at(t[2]));
			Bit x = m[asU(t[3])];
			auto p = std::make_shared<nd::Val>(); p->v.emplace<Bit>(x); b.vars[t[1]] = p;
		} else if (op == "tristate") { // tristate PINNAME DATA ENABLE READBACKNAME
			UInt x = tristatePin(asU(t[2]), asB(t[3])).setName(t[1]);
			setU(t[4], x);
		} else nd::Interp::stmt(t);
	}
};

static void setPin(sim::Simulator &sim, hlim::Node_Pin *pin, const std::string &s) {
	size_t w = pin->getConnectionType().width;
	sim::ExtendedBitVectorState st; st.resize(w);
	for (size_t k = 0; k < w; k++) {
		char ch = k < s.size() ? s[s.size() - 1 - k] : 'X';
		st.set(sim::ExtendedConfig::DEFINED, k, ch == '0' || ch == '1');
		st.set(sim::ExtendedConfig::VALUE, k, ch == '1');
		st.set(sim::ExtendedConfig::DONT_CARE, k, false);
		st.set(sim::ExtendedConfig::HIGH_IMPEDANCE, k, false);
	}
	sim.simProcSetInputPin(pin, st);
}

int main(int argc, char **argv) {
	if (argc < 6) { std::cerr << "usage: C02_export run|replay <programs> <nstim|stimfile> <cycles> <outdir> [single|entity|partition]\n"; return 2; }
	std::string mode = argv[1];
	std::ifstream pin(argv[2]);
	std::map<std::string, std::vector<std::vector<std::string>>> fixedStim;
	size_t nStim = 0, cycles = 0;
	if (mode == "replay") {
		std::ifstream sf(argv[3]); std::string line;
		while (std::getline(sf, line)) {
			std::istringstream ls(line); std::string id, rest; ls >> id >> rest;
			std::vector<std::vector<std::string>> st;
			std::istringstream cs(rest); std::string cyc;
			while (std::getline(cs, cyc, ';')) {
				std::vector<std::string> pins; std::istringstream ps(cyc); std::string pv;
				while (std::getline(ps, pv, ',')) pins.push_back(pv == "e" ? std::string("") : pv);
				st.push_back(pins);
			}
			fixedStim[id] = st;
		}
	} else { nStim = std::stoull(argv[3]); cycles = std::stoull(argv[4]); }
	std::string outdir = argv[5];
	std::string omode = argc > 6 ? argv[6] : "single";
	auto programs = nd::readPrograms(pin);
	uint64_t seed = vh::envSeed();
	size_t done = 0;
	const hlim::ClockRational period(1, 100'000'000);
	for (auto &prog : programs) {
		std::string base = outdir + "/" + prog.id;
		std::filesystem::remove_all(base);
		std::filesystem::create_directories(base);
		std::ofstream net(base + ".net"), trace(base + ".trace"), tbtrace(base + ".tbtrace");
		try {
			DesignScope design;
			// optional per-design clock settings (first statement):  clockcfg <sync|async|none> <high|low> [falling]
			ClockConfig cfg; cfg.absoluteFrequency = hlim::ClockRational(100'000'000);
			for (auto &st : prog.stmts) if (st[0] == "clockcfg") {
				cfg.resetType = st[1] == "async" ? ClockConfig::ResetType::ASYNCHRONOUS : st[1] == "none" ? ClockConfig::ResetType::NONE : ClockConfig::ResetType::SYNCHRONOUS;
				if (st.size() > 2) cfg.resetActive = st[2] == "low" ? ClockConfig::ResetActive::LOW : ClockConfig::ResetActive::HIGH;
				if (st.size() > 3 && st[3] == "falling") cfg.triggerEvent = ClockConfig::TriggerEvent::FALLING;
			}
			Clock clock(cfg);
			ClockScope cs(clock);
			Interp2 in;
			nd::Program p2 = prog;
			p2.stmts.erase(std::remove_if(p2.stmts.begin(), p2.stmts.end(), [](auto &s){ return s[0] == "clockcfg"; }), p2.stmts.end());
			in.run(p2);
			if (in.dropAll) { in.b.vars.clear(); }
			design.postprocess();

			// ---- stimuli (function of seed, design id, index only) ----
			auto pins = nd::findPins(design.getCircuit());
			std::vector<std::vector<std::vector<std::string>>> stims;
			if (mode == "replay") {
				auto it = fixedStim.find(prog.id);
				if (it != fixedStim.end()) stims.push_back(it->second);
			} else for (size_t k = 0; k < nStim; k++) {
				vh::Rng rng(seed * 1000003ull + std::hash<std::string>{}(prog.id) * 31ull + k);
				std::vector<std::vector<std::string>> stim(cycles);
				for (auto &cyc : stim) for (auto *p : pins.ins) cyc.push_back(randBits(rng, p->getConnectionType().width, (int)(k % 3)));
				stims.push_back(stim);
			}

			// ---- export with the test-bench recorder attached to a simulator driven by a simulation process ----
			{
				sim::ReferenceSimulator sim(false);
				vhdl::VHDLExport vhdl(std::filesystem::path(base) / "design.vhd");
				if (omode == "entity") vhdl.outputMode(vhdl::OutputMode::FILE_PER_ENTITY);
				else if (omode == "partition") vhdl.outputMode(vhdl::OutputMode::FILE_PER_PARTITION);
				else vhdl.outputMode(vhdl::OutputMode::SINGLE_FILE);
				vhdl.addTestbenchRecorder(sim, "testbench", false);
				vhdl(design.getCircuit());
				{
					std::ofstream fl(base + "/files.txt");
					for (auto &f : SynthesisTool::sourceFiles(vhdl, true, false)) fl << f.string() << "\n";
				}
				// the dump is taken from the circuit object the exporter has just serialised
				nd::dumpNetlist(design.getCircuit(), net, prog.id, true);

				if (!stims.empty()) {
					const auto &stim = stims[0];
					auto *simp = &sim;
					auto *tb = &tbtrace;
					sim.addSimulationProcess([=, &stim]() -> SimProcess {
						co_await WaitFor(period / 4ull);
						for (size_t cyc = 0; cyc < stim.size(); cyc++) {
							for (size_t i = 0; i < pins.ins.size(); i++)
								setPin(*simp, pins.ins[i], i < stim[cyc].size() ? stim[cyc][i] : std::string());
							co_await WaitFor(Seconds{0});
							*tb << "cy " << cyc << " out";
							for (auto *p : pins.outs) {
								auto drv = p->getDriver(0);
								if (drv.node == nullptr || p->getConnectionType().width == 0) { *tb << " e"; continue; }
								*tb << " " << nd::bitsOrE(simp->simProcGetValueOfOutput(drv));
							}
							*tb << "\n";
							co_await WaitFor(period);
						}
					});
					sim.compileProgram(design.getCircuit());
					sim.powerOn();
					sim.advance(period / 4ull + period * (uint64_t)stim.size() + period / 8ull);
				} else {
					sim.compileProgram(design.getCircuit());
					sim.powerOn();
				}
				// VHDLExport's destructor flushes the recorder
			}
			for (size_t k = 0; k < stims.size(); k++)
				nd::runTrace(design.getCircuit(), period, stims[k], trace, prog.id + " " + (mode == "replay" ? std::string("replay") : std::to_string(k)));
			done++;
		} catch (const std::exception &e) {
			std::string msg = e.what(); for (auto &c : msg) if (c == '\n') c = ' ';
			trace << "SKIP " << prog.id << " " << msg.substr(0, 400) << "\n";
			net << "SKIP " << prog.id << "\n";
		}
	}
	std::cerr << "exported " << done << " designs\n";
	return 0;
}
