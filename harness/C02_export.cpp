// C02 harness: design program -> real frontend -> design.postprocess() -> real VHDL export
// (+ test-bench recorder) and, for the SAME circuit object, the netlist dump and real
// reference-simulator traces.
//
//   C02_export run    <programs> <nstim> <cycles> <outdir> [single|entity|partition]
//   C02_export replay <programs> <stimfile> 0     <outdir> [single|entity|partition]
//
// per design `id`:
//   <outdir>/<id>.net            dump of the circuit that was exported (after postprocess + export)
//   <outdir>/<id>.trace          nd::runTrace traces (trace 0 is fully defined, 1 some X, 2 mostly X)
//   <outdir>/<id>/*.vhd          the exported VHDL (all files of the chosen output mode)
//   <outdir>/<id>/files.txt      the exporter's own list of source files in compile order
//   <outdir>/<id>/testbench.testvectors  SET/CHECK/ADV/RST stream recorded by the exporter's
//                                FileBasedTestbenchRecorder from a simulation process that applies
//                                the stimuli of trace 0 and reads every output pin each cycle
//   <outdir>/<id>.meta           the `meta` line of the half-period traces (always written)
//   <outdir>/<id>.tbtrace        `timing start= step= gap=` (seconds, num/den: round k happens at start + k*step, the next simulator event
//                                gap later) and per SET/CHECK round of that simulation process the values it read; the k-th CHECK group of testbench.testvectors must lie,
//                                by its accumulated ADV time, in [t - 1 ps, next]  (time base of the recorder does not drift)
//   <outdir>/<id>.htrace         HALF-PERIOD traces (own runner below): inputs change and outputs are sampled at T/4 + k*T/2,
//                                i.e. between every two clock edges, so that the edge a register is clocked on is observable;
//                                events carry the exported port names (`E`/`e` clock pin rising/falling, `R1@rst`/`R0@rst` level of
//                                reset pin `rst`); first line after `trace`: `meta classic=0|1 clkport=<name> edges=<R|F|B...>`
//                                (classic = single clock pin, rising edge only, ONE reset kind/polarity/pin for all clocked nodes: what the certificate checker's
//                                circuit model covers).  The recorded test vectors use the half-period stimulus 0 as well.
// design-program extensions:  clockcfg <sync|async|none> <high|low> [falling] [hz=<f>]  |  longrun N [tight]  |  rootclock NAME div=N [name=X] ...  (second ROOT clock, own pin, unnamed = "sysclk" again)
//                             |  clockdef NAME [from=CLK] [mult=N|div=N (own pin, keeps the parent's name)] [name=X] [rising|falling|both] [sync|async|none] [high|low] [rst RESETNAME]
//                             (a clock derived from the design clock on the SAME clock pin)  |  clk NAME ... endclk (ClockScope)
// A design that cannot be built/exported gets "SKIP <id> <reason>" in .net/.trace.
#include "netdump.h"
#include <gatery/export/vhdl/VHDLExport.h>
#include <gatery/export/vhdl/AST.h>
#include <gatery/export/vhdl/Entity.h>
#include <gatery/export/vhdl/NamespaceScope.h>
#include <gatery/frontend/SynthesisTool.h>
#include <gatery/hlim/coreNodes/Node_Pin.h>
#include <filesystem>

using namespace gtry;

static std::string randBits(vh::Rng &rng, size_t w, int mode) {
	std::string s(w, '0');
	for (auto &c : s) {
		uint64_t r = rng.below(100);
		if (mode == 0) c = (r & 1) ? '1' : '0';
		else if (mode == 1) c = r < 15 ? 'X' : (r & 1) ? '1' : '0';
		else c = r < 60 ? 'X' : (r & 1) ? '1' : '0';
	}
	return s;
}

// design-program extensions used only by C02 (memories, tristate pins, extra clocks settings)
class Interp2 : public nd::Interp {
public:
	std::vector<std::unique_ptr<Memory<UInt>>> mems;
	std::map<std::string, size_t> memIdx;
	Clock *mainClock = nullptr;
	std::map<std::string, std::unique_ptr<Clock>> clocks;
	std::vector<std::unique_ptr<ClockScope>> clockStack;
	std::vector<std::unique_ptr<Memory<Bit>>> bmems;
	std::map<std::string, size_t> bmemIdx;
	virtual void stmt(const std::vector<std::string> &t) override {
		const std::string &op = t[0];
		auto setU = [&](const std::string &n, const UInt &v) { auto p = std::make_shared<nd::Val>(); p->v.emplace<UInt>(v); b.vars[n] = p; };
		if (op == "clockdef") {
			ClockConfig cfg;
			Clock *parent = mainClock;
			for (size_t i = 2; i < t.size(); i++) {
				if (t[i] == "falling") cfg.triggerEvent = ClockConfig::TriggerEvent::FALLING;
				else if (t[i] == "rising") cfg.triggerEvent = ClockConfig::TriggerEvent::RISING;
				else if (t[i] == "both") cfg.triggerEvent = ClockConfig::TriggerEvent::RISING_AND_FALLING;
				else if (t[i] == "sync") cfg.resetType = ClockConfig::ResetType::SYNCHRONOUS;
				else if (t[i] == "async") cfg.resetType = ClockConfig::ResetType::ASYNCHRONOUS;
				else if (t[i] == "none") cfg.resetType = ClockConfig::ResetType::NONE;
				else if (t[i] == "high") cfg.resetActive = ClockConfig::ResetActive::HIGH;
				else if (t[i] == "low") cfg.resetActive = ClockConfig::ResetActive::LOW;
				else if (t[i] == "rst" && i + 1 < t.size()) cfg.resetName = t[++i];
				else if (t[i].rfind("mult=", 0) == 0) cfg.frequencyMultiplier = hlim::ClockRational(std::stoull(t[i].substr(5)), 1);   // own clock PIN, keeps the parent's name
				else if (t[i].rfind("div=", 0) == 0) cfg.frequencyMultiplier = hlim::ClockRational(1, std::stoull(t[i].substr(4)));
				else if (t[i].rfind("name=", 0) == 0) cfg.name = t[i].substr(5);
				else if (t[i].rfind("from=", 0) == 0) parent = t[i].substr(5) == "main" ? mainClock : clocks.at(t[i].substr(5)).get();
				else throw std::runtime_error("clockdef option " + t[i]);
			}
			clocks[t[1]] = std::make_unique<Clock>(parent->deriveClock(cfg));
		} else if (op == "rootclock") {   // rootclock NAME div=N [name=X] [falling] [sync|async|none] [high|low] [rst RESETNAME]: a second ROOT clock of 100 MHz / N (unnamed = "sysclk" again)
			ClockConfig cfg; cfg.absoluteFrequency = hlim::ClockRational(100'000'000);
			for (size_t i = 2; i < t.size(); i++) {
				if (t[i].rfind("div=", 0) == 0) cfg.absoluteFrequency = hlim::ClockRational(100'000'000, std::stoull(t[i].substr(4)));
				else if (t[i].rfind("name=", 0) == 0) cfg.name = t[i].substr(5);
				else if (t[i] == "falling") cfg.triggerEvent = ClockConfig::TriggerEvent::FALLING;
				else if (t[i] == "sync") cfg.resetType = ClockConfig::ResetType::SYNCHRONOUS;
				else if (t[i] == "async") cfg.resetType = ClockConfig::ResetType::ASYNCHRONOUS;
				else if (t[i] == "none") cfg.resetType = ClockConfig::ResetType::NONE;
				else if (t[i] == "high") cfg.resetActive = ClockConfig::ResetActive::HIGH;
				else if (t[i] == "low") cfg.resetActive = ClockConfig::ResetActive::LOW;
				else if (t[i] == "rst" && i + 1 < t.size()) cfg.resetName = t[++i];
				else throw std::runtime_error("rootclock option " + t[i]);
			}
			clocks[t[1]] = std::make_unique<Clock>(cfg);
		} else if (op == "clk") {
			clockStack.push_back(std::make_unique<ClockScope>(*clocks.at(t[1])));
		} else if (op == "endclk") {
			if (clockStack.empty()) throw std::runtime_error("endclk");
			clockStack.pop_back();
		} else if (op == "cdc") {       // cdc NAME SRC FROMCLK TOCLK   (marks an intended crossing; "main" = design clock)
			auto &from = t[3] == "main" ? *mainClock : *clocks.at(t[3]);
			auto &to = t[4] == "main" ? *mainClock : *clocks.at(t[4]);
			nd::Val &a = get(t[2]);
			auto p = std::make_shared<nd::Val>();
			if (a.isBit()) p->v.emplace<Bit>(allowClockDomainCrossing(a.b(), from, to)); else p->v.emplace<UInt>(allowClockDomainCrossing(a.u(), from, to));
			b.vars[t[1]] = p;
		} else if (op == "mem") {            // mem NAME depth width
			mems.push_back(std::make_unique<Memory<UInt>>(std::stoull(t[2]), UInt(BitWidth(std::stoull(t[3])))));
			mems.back()->setName(t[1]);
			// options (same spelling as harness/netdump.h):  zero | noconf | exact | fill=<depth*width bits MSB first, 0/1/X; word 0 = least
			// significant bits> | lat=<n> (read latency hint: the n registers behind a read port become the memory's read latency registers)
			for (size_t i = 4; i < t.size(); i++) {
				auto &m = *mems.back();
				if (t[i] == "zero") m.initZero();
				else if (t[i] == "noconf") m.noConflicts();
				else if (t[i] == "exact") m.undefinedReadAddrBehavior(hlim::Node_Memory::UndefinedReadAddrBehavior::EXACT);
				else if (t[i].rfind("lat=", 0) == 0) m.setType(MemType::MEDIUM, std::stoull(t[i].substr(4)));
				else if (t[i].rfind("fill=", 0) == 0) {
					std::string bits = t[i].substr(5);
					if (bits.size() != std::stoull(t[2]) * std::stoull(t[3])) throw std::runtime_error("fill= length");
					sim::DefaultBitVectorState st; st.resize(bits.size());
					for (size_t k = 0; k < bits.size(); k++) { char ch = bits[bits.size() - 1 - k]; st.set(sim::DefaultConfig::DEFINED, k, ch == '0' || ch == '1'); st.set(sim::DefaultConfig::VALUE, k, ch == '1'); }
					m.fillPowerOnState(st);
				} else throw std::runtime_error("mem option " + t[i]);
			}
			memIdx[t[1]] = mems.size() - 1;
		} else if (op == "regb") {     // regb NAME SRC [en C] : register that may be retimed backwards (into a memory's read latency)
			std::unique_ptr<EnableScope> es; if (t.size() > 4 && t[3] == "en") es = std::make_unique<EnableScope>(asB(t[4]));
			UInt x = reg(asU(t[2]), {.allowRetimingBackward = true});
			setU(t[1], x);
		} else if (op == "memwrite") { // memwrite MEM ADDR DATA [COND]
			auto &m = *mems.at(memIdx.at(t[1]));
			if (t.size() > 4) { IF (asB(t[4])) m[asU(t[2])] = asU(t[3]); }
			else m[asU(t[2])] = asU(t[3]);
		} else if (op == "memread") {  // memread NAME MEM ADDR
			auto &m = *mems.at(memIdx.at(t[2]));
			UInt x = m[asU(t[3])];
			setU(t[1], x);
		} else if (op == "memb") {      // memb NAME depth            (memory of single Bit words)
			bmems.push_back(std::make_unique<Memory<Bit>>(std::stoull(t[2]), Bit{}));
			bmems.back()->setName(t[1]);
			bmemIdx[t[1]] = bmems.size() - 1;
		} else if (op == "membwrite") { // membwrite MEM ADDR DATABIT [COND]
			auto &m = *bmems.at(bmemIdx.at(t[1]));
			if (t.size() > 4) { IF (asB(t[4])) m[asU(t[2])] = asB(t[3]); }
			else m[asU(t[2])] = asB(t[3]);
		} else if (op == "membread") {  // membread NAME MEM ADDR
			auto &m = *bmems.at(bmemIdx.at(t[2]));
			Bit x = m[asU(t[3])];
			auto p = std::make_shared<nd::Val>(); p->v.emplace<Bit>(x); b.vars[t[1]] = p;
		} else if (op == "tristate") { // tristate PINNAME DATA ENABLE READBACKNAME
			UInt x = tristatePin(asU(t[2]), asB(t[3])).setName(t[1]);
			setU(t[4], x);
		} else nd::Interp::stmt(t);
	}
};

static void setPin(sim::Simulator &sim, hlim::Node_Pin *pin, const std::string &s) {
	size_t w = pin->getConnectionType().width;
	sim::ExtendedBitVectorState st; st.resize(w);
	for (size_t k = 0; k < w; k++) {
		char ch = k < s.size() ? s[s.size() - 1 - k] : 'X';
		st.set(sim::ExtendedConfig::DEFINED, k, ch == '0' || ch == '1');
		st.set(sim::ExtendedConfig::VALUE, k, ch == '1');
		st.set(sim::ExtendedConfig::DONT_CARE, k, false);
		st.set(sim::ExtendedConfig::HIGH_IMPEDANCE, k, false);
	}
	sim.simProcSetInputPin(pin, st);
}

struct NamedObserver : public sim::SimulatorCallbacks {
	std::map<const hlim::Clock*, std::string> resetNames;
	std::vector<std::string> events;
	virtual void onReset(const hlim::Clock *clock, bool level) override {
		auto it = resetNames.find(clock);
		events.push_back(std::string("R") + (level ? "1" : "0") + "@" + (it == resetNames.end() ? std::string("?") : it->second));
	}
	std::map<const hlim::Clock*, std::string> clockNames;     // exported port name per clock pin (events are named only with several pins)
	virtual void onClock(const hlim::Clock *clock, bool risingEdge) override {
		std::string e = risingEdge ? "E" : "e";
		if (clockNames.size() > 1) { auto it = clockNames.find(clock); e += "@" + (it == clockNames.end() ? std::string("?") : it->second); }
		events.push_back(e);
	}
};

// like nd::runTrace, but one sample per `step` (= half period of the fastest clock pin), first sample at step/2
static void runHalfTrace(hlim::Circuit &circuit, hlim::ClockRational step, const std::vector<std::vector<std::string>> &stim, std::ostream &o,
                         const std::string &tag, const std::string &meta, const std::map<const hlim::Clock*, std::string> &resetNames,
                         const std::map<const hlim::Clock*, std::string> &clockNames) {
	nd::Pins pins = nd::findPins(circuit);
	sim::ReferenceSimulator sim(false);
	NamedObserver obs; obs.resetNames = resetNames; obs.clockNames = clockNames;
	sim.addCallbacks(&obs);
	sim.compileProgram(circuit);
	sim.powerOn();
	o << "trace " << tag << "\nmeta " << meta << "\npins in";
	for (auto *p : pins.ins) o << " " << p->getName() << ":" << p->getConnectionType().width;
	o << " out";
	for (auto *p : pins.outs) o << " " << p->getName() << ":" << p->getConnectionType().width;
	o << "\n";
	sim.advance(step / 2ull);
	for (size_t cyc = 0; cyc < stim.size(); cyc++) {
		o << "ev";
		for (auto &e : obs.events) o << " " << e;
		obs.events.clear();
		o << "\n";
		for (size_t i = 0; i < pins.ins.size(); i++) setPin(sim, pins.ins[i], i < stim[cyc].size() ? stim[cyc][i] : std::string());
		sim.reevaluate();
		o << "cy " << cyc << " in";
		for (size_t i = 0; i < pins.ins.size(); i++) o << " " << (i < stim[cyc].size() && !stim[cyc][i].empty() ? stim[cyc][i] : std::string("e"));
		o << " out";
		for (auto *p : pins.outs) {
			auto drv = p->getDriver(0);
			if (drv.node == nullptr) { o << " " << (p->getConnectionType().width ? std::string(p->getConnectionType().width, 'X') : std::string("e")); continue; }
			o << " " << nd::bitsOrE(sim.getValueOfOutput(drv));
		}
		o << "\n";
		sim.advance(step);
	}
	o << "endtrace\n";
}

int main(int argc, char **argv) {
	if (argc < 6) { std::cerr << "usage: C02_export run|replay <programs> <nstim|stimfile> <cycles> <outdir> [single|entity|partition]\n"; return 2; }
	std::string mode = argv[1];
	std::ifstream pin(argv[2]);
	std::map<std::string, std::vector<std::vector<std::string>>> fixedStim;
	std::set<std::string> halfStim;     // replay stimuli given as "H:<stim>" are half-period stimuli
	size_t nStim = 0, cycles = 0;
	if (mode == "replay") {
		std::ifstream sf(argv[3]); std::string line;
		while (std::getline(sf, line)) {
			std::istringstream ls(line); std::string id, rest; ls >> id >> rest;
			if (rest.rfind("H:", 0) == 0) { rest = rest.substr(2); halfStim.insert(id); }
			std::vector<std::vector<std::string>> st;
			std::istringstream cs(rest); std::string cyc;
			while (std::getline(cs, cyc, ';')) {
				std::vector<std::string> pins; std::istringstream ps(cyc); std::string pv;
				while (std::getline(ps, pv, ',')) pins.push_back(pv == "e" ? std::string("") : pv);
				st.push_back(pins);
			}
			fixedStim[id] = st;
		}
	} else { nStim = std::stoull(argv[3]); cycles = std::stoull(argv[4]); }
	std::string outdir = argv[5];
	std::string omode = argc > 6 ? argv[6] : "single";
	auto programs = nd::readPrograms(pin);
	uint64_t seed = vh::envSeed();
	size_t done = 0;
	for (auto &prog : programs) {
		std::string base = outdir + "/" + prog.id;
		std::filesystem::remove_all(base);
		std::filesystem::create_directories(base);
		std::ofstream net(base + ".net"), trace(base + ".trace"), tbtrace(base + ".tbtrace"), htrace(base + ".htrace");
		try {
			DesignScope design;
			// optional per-design clock settings (first statement):  clockcfg <sync|async|none> <high|low> [falling]
			ClockConfig cfg; cfg.absoluteFrequency = hlim::ClockRational(100'000'000);
			for (auto &st : prog.stmts) if (st[0] == "clockcfg") {
				cfg.resetType = st[1] == "async" ? ClockConfig::ResetType::ASYNCHRONOUS : st[1] == "none" ? ClockConfig::ResetType::NONE : ClockConfig::ResetType::SYNCHRONOUS;
				if (st.size() > 2) cfg.resetActive = st[2] == "low" ? ClockConfig::ResetActive::LOW : ClockConfig::ResetActive::HIGH;
				for (size_t i = 3; i < st.size(); i++) {
					if (st[i] == "falling") cfg.triggerEvent = ClockConfig::TriggerEvent::FALLING;
					else if (st[i].rfind("hz=", 0) == 0) cfg.absoluteFrequency = hlim::ClockRational(std::stoull(st[i].substr(3)));   // e.g. hz=300000000: period not a whole number of ps
				}
			}
			// long recording for the exporter's test-bench recorder:  longrun N [tight]  (N clock cycles, one SET/CHECK round per cycle
			// shortly after the rising edge; `tight`: an extra wake-up T/64 later makes the recorder's flush interval short)
			size_t longrun = 0; bool tight = false;
			for (auto &st : prog.stmts) if (st[0] == "longrun") { longrun = std::stoull(st[1]); tight = st.size() > 2 && st[2] == "tight"; }
			const hlim::ClockRational period = hlim::ClockRational(1) / *cfg.absoluteFrequency;
			Clock clock(cfg);
			ClockScope cs(clock);
			Interp2 in;
			in.mainClock = &clock;
			nd::Program p2 = prog;
			p2.stmts.erase(std::remove_if(p2.stmts.begin(), p2.stmts.end(), [](auto &s){ return s[0] == "clockcfg" || s[0] == "longrun"; }), p2.stmts.end());
			in.run(p2);
			in.clockStack.clear();
			if (in.dropAll) { in.b.vars.clear(); }
			design.postprocess();

			// ---- stimuli (function of seed, design id, index only) ----
			auto pins = nd::findPins(design.getCircuit());
			std::vector<std::vector<std::vector<std::string>>> stims;
			if (mode == "replay") {
				auto it = fixedStim.find(prog.id);
				if (it != fixedStim.end()) stims.push_back(it->second);
			} else for (size_t k = 0; k < nStim; k++) {
				vh::Rng rng(seed * 1000003ull + std::hash<std::string>{}(prog.id) * 31ull + k);
				std::vector<std::vector<std::string>> stim(cycles);
				for (auto &cyc : stim) for (auto *p : pins.ins) cyc.push_back(randBits(rng, p->getConnectionType().width, (int)(k % 3)));
				stims.push_back(stim);
			}

			// which clocking does the design use?
			std::set<const hlim::Clock*> clkPins, rstPins; std::string edges;
			std::set<std::tuple<int, int, const hlim::Clock*>> rstCfgs;   // (reset kind, polarity, reset pin) per clocked node
			for (auto &n : design.getCircuit().getNodes())
				for (auto *c : n->getClocks()) if (c) {
					clkPins.insert(c->getClockPinSource());
					if (c->getRegAttribs().resetType != hlim::RegisterAttributes::ResetType::NONE) rstPins.insert(c->getResetPinSource());
					rstCfgs.insert({(int)c->getRegAttribs().resetType, (int)c->getRegAttribs().resetActive, c->getResetPinSource()});
					char e = c->getTriggerEvent() == hlim::Clock::TriggerEvent::RISING ? 'R' : c->getTriggerEvent() == hlim::Clock::TriggerEvent::FALLING ? 'F' : 'B';
					if (edges.find(e) == std::string::npos) edges += e;
				}
			bool classic = clkPins.size() <= 1 && rstPins.size() <= 1 && rstCfgs.size() <= 1 && (edges.empty() || edges == "R");
			std::map<const hlim::Clock*, std::string> resetNames;
			std::string clkPort = "-";
			std::map<const hlim::Clock*, std::string> clockNames;
			// sampling step: half period of the fastest clock pin; slower pins get proportionally more samples (at most 8x)
			hlim::ClockRational step = period / 2ull, slowest = period / 2ull;
			for (auto *c : clkPins) { auto h = hlim::ClockRational(1, 2) / c->absoluteFrequency(); if (h < step) step = h; if (h > slowest) slowest = h; }
			size_t ratio = (size_t)((slowest / step).numerator() / (slowest / step).denominator());
			const size_t nSamples = 2 * cycles * std::min<size_t>(std::max<size_t>(ratio, 1), 8);

			// half-period stimuli (2*cycles samples); in replay mode only if the stimulus was given as H:
			std::vector<std::vector<std::vector<std::string>>> hstims;
			bool replayHalf = mode == "replay" && halfStim.count(prog.id);
			if (replayHalf) { hstims = stims; stims.clear(); }
			else if (mode != "replay") for (size_t k = 0; k < nStim; k++) {
				vh::Rng rng(seed * 7000003ull + std::hash<std::string>{}(prog.id) * 37ull + k);
				std::vector<std::vector<std::string>> stim(nSamples);
				for (auto &cyc : stim) for (auto *p : pins.ins) cyc.push_back(randBits(rng, p->getConnectionType().width, (int)(k % 3)));
				hstims.push_back(stim);
			}
			// ---- export with the test-bench recorder attached to a simulator driven by a simulation process ----
			{
				sim::ReferenceSimulator sim(false);
				vhdl::VHDLExport vhdl(std::filesystem::path(base) / "design.vhd");
				if (omode == "entity") vhdl.outputMode(vhdl::OutputMode::FILE_PER_ENTITY);
				else if (omode == "partition") vhdl.outputMode(vhdl::OutputMode::FILE_PER_PARTITION);
				else vhdl.outputMode(vhdl::OutputMode::SINGLE_FILE);
				vhdl.addTestbenchRecorder(sim, "testbench", false);
				vhdl(design.getCircuit());
				{
					std::ofstream fl(base + "/files.txt");
					for (auto &f : SynthesisTool::sourceFiles(vhdl, true, false)) fl << f.string() << "\n";
				}
				// the dump is taken from the circuit object the exporter has just serialised
				nd::dumpNetlist(design.getCircuit(), net, prog.id, true);
				// names the exporter gave to the clock / reset ports of the root entity
				{
					auto *root = vhdl.getAST()->getRootEntity();
					for (auto *c : root->getClocks()) if (c->isSelfDriven(false, true)) { clockNames[c] = root->getNamespaceScope().getClock(c).name; if (clkPort == "-") clkPort = clockNames[c]; }
					for (auto *c : root->getResets()) if (c->isSelfDriven(false, false)) resetNames[c] = root->getNamespaceScope().getReset(c).name;
				}

				const bool tvHalf = !hstims.empty();
				const bool tvLong = longrun > 0 && mode != "replay";
				const hlim::ClockRational tvStep = tvLong ? period : tvHalf ? step : period;
				const hlim::ClockRational tvStart = tvLong ? period / 64ull : tvHalf ? step / 2ull : period / 4ull;
				// time from a SET/CHECK round to the next simulator event (clock edge or wake-up of this process): the recorder spreads
				// the round's records over exactly that interval
				const hlim::ClockRational tvGap = tvLong ? (tight ? period / 64ull : period / 2ull - period / 64ull) : tvHalf ? step / 2ull : period / 4ull;
				std::vector<std::vector<std::string>> longStim;
				if (tvLong) {
					vh::Rng rng(seed * 9000011ull + std::hash<std::string>{}(prog.id) * 41ull);
					longStim.resize(longrun);
					for (auto &cyc : longStim) for (auto *p : pins.ins) cyc.push_back(randBits(rng, p->getConnectionType().width, 0));
				}
				if (!stims.empty() || tvHalf || tvLong) {
					const auto &stim = tvLong ? longStim : tvHalf ? hstims[0] : stims[0];
					auto *simp = &sim;
					auto *tb = &tbtrace;
					tbtrace << "timing start=" << tvStart.numerator() << "/" << tvStart.denominator() << " step=" << tvStep.numerator() << "/" << tvStep.denominator()
					        << " gap=" << tvGap.numerator() << "/" << tvGap.denominator() << "\n";
					sim.addSimulationProcess([=, &stim]() -> SimProcess {
						co_await WaitFor(tvStart);
						for (size_t cyc = 0; cyc < stim.size(); cyc++) {
							for (size_t i = 0; i < pins.ins.size(); i++)
								setPin(*simp, pins.ins[i], i < stim[cyc].size() ? stim[cyc][i] : std::string());
							co_await WaitFor(Seconds{0});
							// exact simulator time of this round and of the next simulator event, in fs (num/den), for the time-base check
							// (round `cyc` happens at start + cyc*step, the next simulator event at + gap: see the `timing` line; computed exactly in python)
							*tb << "cy " << cyc << " out";
							for (auto *p : pins.outs) {
								auto drv = p->getDriver(0);
								if (drv.node == nullptr || p->getConnectionType().width == 0) { *tb << " e"; continue; }
								*tb << " " << nd::bitsOrE(simp->simProcGetValueOfOutput(drv));
							}
							*tb << "\n";
							if (tvLong && tight) { co_await WaitFor(tvGap); co_await WaitFor(tvStep - tvGap); }
							else co_await WaitFor(tvStep);
						}
					});
					sim.compileProgram(design.getCircuit());
					sim.powerOn();
					sim.advance(tvStart + tvStep * (uint64_t)stim.size() + tvStep / 4ull);
				} else {
					sim.compileProgram(design.getCircuit());
					sim.powerOn();
				}
				// VHDLExport's destructor flushes the recorder
			}
			{
				std::string cps;
				for (auto &c : clockNames) cps += (cps.empty() ? "" : ",") + c.second;
				std::string meta = std::string("classic=") + (classic ? "1" : "0") + " clkport=" + clkPort + " clkports=" + (cps.empty() ? std::string("-") : cps) + " edges=" + (edges.empty() ? std::string("-") : edges) + " resets=";
				bool first = true;
				for (auto &r : resetNames) { meta += (first ? "" : ",") + r.second + ":" + (r.first->getRegAttribs().resetActive == hlim::RegisterAttributes::Active::HIGH ? "1" : "0"); first = false; }
				if (first) meta += "-";
				std::ofstream(base + ".meta") << meta << "\n";
				for (size_t k = 0; k < hstims.size(); k++)
					runHalfTrace(design.getCircuit(), step, hstims[k], htrace, prog.id + " " + (mode == "replay" ? std::string("replay") : "h" + std::to_string(k)), meta, resetNames, clockNames);
			}
			for (size_t k = 0; k < stims.size(); k++)
				nd::runTrace(design.getCircuit(), period, stims[k], trace, prog.id + " " + (mode == "replay" ? std::string("replay") : std::to_string(k)));
			done++;
		} catch (const std::exception &e) {
			std::string msg = e.what(); for (auto &c : msg) if (c == '\n') c = ' ';
			trace << "SKIP " << prog.id << " " << msg.substr(0, 400) << "\n";
			net << "SKIP " << prog.id << "\n";
		}
	}
	std::cerr << "exported " << done << " designs\n";
	return 0;
}
