// Netlist dumper + design-program interpreter + trace runner shared by the circuit-level
// checks (C01, C08, C09, C11, ...).  See DESIGN.md Appendix A/B.
#pragma once
#include "vh.h"
#include <gatery/hlim/GraphTools.h>
#include <gatery/hlim/NodeGroup.h>
#include <gatery/hlim/Clock.h>
#include <gatery/hlim/coreNodes/Node_Pin.h>
#include <gatery/hlim/coreNodes/Node_Register.h>
#include <gatery/hlim/coreNodes/Node_Arithmetic.h>
#include <gatery/hlim/coreNodes/Node_Compare.h>
#include <gatery/hlim/coreNodes/Node_Shift.h>
#include <gatery/hlim/coreNodes/Node_Rewire.h>
#include <gatery/hlim/coreNodes/Node_Multiplexer.h>
#include <gatery/hlim/coreNodes/Node_PriorityConditional.h>
#include <gatery/hlim/supportNodes/Node_Attributes.h>
#include <gatery/hlim/supportNodes/Node_CDC.h>
#include <gatery/hlim/supportNodes/Node_RegHint.h>
#include <gatery/hlim/supportNodes/Node_RetimingBlocker.h>
#include <gatery/hlim/supportNodes/Node_ExportOverride.h>
#include <gatery/hlim/supportNodes/Node_Default.h>
#include <gatery/hlim/supportNodes/Node_Memory.h>
#include <gatery/hlim/supportNodes/Node_MemPort.h>
#include <variant>

namespace nd {
using namespace gtry;
using namespace gtry::hlim;

inline std::string bitsOrE(const sim::DefaultBitVectorState &s) { return s.size() ? vh::bits(s) : std::string("e"); }

inline std::string drvStr(const NodePort &np) {
	if (np.node == nullptr) return "-";
	return std::to_string(np.node->getId()) + "." + std::to_string(np.port);
}

// one line per node:  N <id> <kind + params> | <input drivers...>
inline void dumpNode(Circuit &circuit, BaseNode *n, std::ostream &o) {
	o << "N " << n->getId() << " ";
	auto outW = [&](size_t p) { return n->getOutputConnectionType(p).width; };
	if (auto *l = dynamic_cast<Node_Logic*>(n)) {
		static const char *ops[] = {"AND","NAND","OR","NOR","XOR","EQ","NOT"};
		o << "logic " << ops[(int)l->getOp()] << " " << outW(0);
	} else if (auto *a = dynamic_cast<Node_Arithmetic*>(n)) {
		static const char *ops[] = {"ADD","SUB","MUL","DIV","REM"};
		o << "arith " << ops[(int)a->getOp()] << " " << outW(0);
	} else if (auto *c = dynamic_cast<Node_Compare*>(n)) {
		static const char *ops[] = {"EQ","NEQ","LT","GT","LEQ","GEQ"};
		o << "cmp " << ops[(int)c->getOp()];
	} else if (auto *s = dynamic_cast<Node_Shift*>(n)) {
		static const char *fills[] = {"ZERO","ONE","LAST","ROTATE"};
		o << "shift " << (s->getDirection() == Node_Shift::dir::left ? "LEFT" : "RIGHT") << " " << fills[(int)s->getFillMode()] << " " << outW(0);
	} else if (auto *r = dynamic_cast<Node_Rewire*>(n)) {
		const auto &op = r->getOp();
		o << "rewire " << op.ranges.size();
		for (const auto &rg : op.ranges) {
			o << " " << rg.subwidth << " ";
			switch (rg.source) {
				case Node_Rewire::OutputRange::INPUT: o << "I " << rg.inputIdx << " " << rg.inputOffset; break;
				case Node_Rewire::OutputRange::CONST_ZERO: o << "Z 0 0"; break;
				case Node_Rewire::OutputRange::CONST_ONE: o << "O 0 0"; break;
				default: o << "U 0 0"; break;
			}
		}
	} else if (auto *m = dynamic_cast<Node_Multiplexer*>(n)) {
		o << "mux " << (m->getNumInputPorts() - 1) << " " << outW(0);
	} else if (auto *p = dynamic_cast<Node_PriorityConditional*>(n)) {
		o << "prio " << p->getNumChoices() << " " << outW(0);
	} else if (auto *c = dynamic_cast<Node_Constant*>(n)) {
		o << "const " << bitsOrE(c->getValue());
	} else if (dynamic_cast<Node_Signal*>(n)) { o << "fwd SIGNAL " << outW(0);
	} else if (dynamic_cast<Node_Attributes*>(n)) { o << "fwd ATTRIBUTES " << outW(0);
	} else if (dynamic_cast<Node_CDC*>(n)) { o << "fwd CDC " << outW(0);
	} else if (dynamic_cast<Node_RegHint*>(n)) { o << "fwd REGHINT " << outW(0);
	} else if (dynamic_cast<Node_RetimingBlocker*>(n)) { o << "fwd RETIMING_BLOCKER " << outW(0);
	} else if (dynamic_cast<Node_ExportOverride*>(n)) { o << "fwd EXPORT_OVERRIDE " << outW(0);
	} else if (auto *p = dynamic_cast<Node_Pin*>(n)) {
		std::string nm = p->getName().empty() ? std::string("_") : p->getName();
		for (auto &ch : nm) if (isspace((unsigned char)ch)) ch = '_';
		o << "pin " << p->getConnectionType().width << " " << (p->isInputPin() ? 1 : 0) << (p->isOutputPin() ? 1 : 0) << " " << nm;
	} else if (auto *rg = dynamic_cast<Node_Register*>(n)) {
		auto *clk = rg->getClocks()[0];
		const char *rt = "NONE"; bool activeHigh = true;
		if (clk) {
			auto &ra = clk->getRegAttribs();
			rt = ra.resetType == RegisterAttributes::ResetType::SYNCHRONOUS ? "SYNC" : ra.resetType == RegisterAttributes::ResetType::ASYNCHRONOUS ? "ASYNC" : "NONE";
			activeHigh = ra.resetActive == RegisterAttributes::Active::HIGH;
		}
		std::string rv = "-";
		if (rg->hasResetValue()) {
			try { rv = bitsOrE(evaluateStatically(circuit, rg->getDriver(Node_Register::RESET_VALUE))); } catch (...) { rv = "?"; }
		}
		o << "reg " << outW(0) << " " << rt << " " << (activeHigh ? 1 : 0) << " " << rv << " " << (clk ? (int)clk->getId() : -1);
	} else if (auto *mem = dynamic_cast<Node_Memory*>(n)) {
		// mem <size in bits> <power-on contents MSB-first 01X or -> <E|U undefined read address behaviour> <noConflicts>
		o << "mem " << mem->getSize() << " " << (mem->getSize() ? vh::bits(mem->getPowerOnState()) : std::string("-")) << " "
		  << (mem->undefinedReadAddrBehavior() == Node_Memory::UndefinedReadAddrBehavior::EXACT ? "E" : "U") << " " << mem->noConflicts();
	} else if (auto *mp = dynamic_cast<Node_MemPort*>(n)) {
		// memport <word width> <address width> <memory node id> <isRead> <isWrite> <previous write ports, closest first, comma separated or ->
		auto ad = mp->getDriver((size_t)Node_MemPort::Inputs::address);
		size_t aw = ad.node ? ad.node->getOutputConnectionType(ad.port).width : 0;
		o << "memport " << mp->getBitWidth() << " " << aw << " " << (mp->getMemory() ? (long long)mp->getMemory()->getId() : -1) << " "
		  << mp->isReadPort() << " " << mp->isWritePort() << " ";
		// Node_MemPort::getPrevWritePorts() (protected): walk the orderAfter chain, keep the write ports, closest first
		std::vector<Node_MemPort*> prev;
		for (auto *pn = dynamic_cast<Node_MemPort*>(mp->getDriver((size_t)Node_MemPort::Inputs::orderAfter).node); pn != nullptr;
		     pn = dynamic_cast<Node_MemPort*>(pn->getDriver((size_t)Node_MemPort::Inputs::orderAfter).node))
			if (pn->isWritePort()) prev.push_back(pn);
		if (prev.empty()) o << "-";
		for (size_t i = 0; i < prev.size(); i++) o << (i ? "," : "") << prev[i]->getId();
	} else {
		std::string tn = n->getTypeName(); for (auto &ch : tn) if (isspace((unsigned char)ch)) ch = '_';
		o << "opaque " << (tn.empty() ? "unknown" : tn) << " " << n->getNumOutputPorts();
		for (size_t i = 0; i < n->getNumOutputPorts(); i++) o << " " << outW(i);
		o << " side=" << n->hasSideEffects();
	}
	o << " |";
	for (size_t i = 0; i < n->getNumInputPorts(); i++) o << " " << drvStr(n->getDriver(i));
	o << "\n";
}

// structural facts for C09/C11: flags, group, consumer lists in storage order
inline void dumpNodeMeta(BaseNode *n, std::ostream &o) {
	o << "M " << n->getId() << " named=" << !n->getName().empty() << " ref=" << n->hasRef() << " grp=" << (n->getGroup() ? (long long)n->getGroup()->getId() : -1) << " clocks";
	for (auto *c : n->getClocks()) o << " " << (c ? (long long)c->getId() : -1);
	o << "\n";
	for (size_t p = 0; p < n->getNumOutputPorts(); p++) {
		o << "U " << n->getId() << " " << p;
		for (auto &c : n->getDirectlyDriven(p)) o << " " << c.node->getId() << "." << c.port;
		o << "\n";
	}
}

inline void dumpNetlist(Circuit &circuit, std::ostream &o, const std::string &tag, bool meta = false) {
	o << "netlist " << tag << "\n";
	for (auto &c : circuit.getClocks()) {
		auto &ra = c->getRegAttribs();
		auto f = c->absoluteFrequency();
		o << "clock " << c->getId() << " f=" << f.numerator() << "/" << f.denominator()
		  << " trig=" << (int)c->getTriggerEvent() << " rst=" << (int)ra.resetType << " active=" << (int)ra.resetActive
		  << " init=" << ra.initializeRegs << " pinsrc=" << c->getClockPinSource()->getId() << "\n";
	}
	std::vector<BaseNode*> nodes;
	for (auto &n : circuit.getNodes()) nodes.push_back(n.get());
	std::sort(nodes.begin(), nodes.end(), [](BaseNode *a, BaseNode *b){ return a->getId() < b->getId(); });
	for (auto *n : nodes) { dumpNode(circuit, n, o); if (meta) dumpNodeMeta(n, o); }
	o << "endnetlist\n";
}

// ---------------------------------------------------------------------------------------------
// design programs
// ---------------------------------------------------------------------------------------------
enum class E4 { A, B, C, D };     // a 2-bit enumeration for Enum<E4> signals
struct Val { std::variant<std::monostate, UInt, Bit, Enum<E4>> v; bool isBit() const { return v.index() == 2; } bool isEnum() const { return v.index() == 3; }
             UInt &u() { return std::get<UInt>(v); } Bit &b() { return std::get<Bit>(v); } Enum<E4> &e() { return std::get<Enum<E4>>(v); } };
// a compound signal: registered member-wise (reg(compound)), members carry their attached reset values
struct S3 { UInt a; Bit b; Enum<E4> e; };
}
BOOST_HANA_ADAPT_STRUCT(nd::S3, a, b, e);
namespace nd {

struct Program { std::string id; std::vector<std::vector<std::string>> stmts; };

inline std::vector<Program> readPrograms(std::istream &in) {
	std::vector<Program> res; std::string line;
	while (std::getline(in, line)) {
		std::istringstream ls(line); std::vector<std::string> t; std::string w;
		while (ls >> w) t.push_back(w);
		if (t.empty() || t[0][0] == '#') continue;
		if (t[0] == "design") { res.emplace_back(); res.back().id = t.size() > 1 ? t[1] : "?"; continue; }
		if (res.empty()) continue;
		res.back().stmts.push_back(t);
	}
	return res;
}

struct Built {
	std::map<std::string, std::shared_ptr<Val>> vars;
	std::vector<std::string> inNames, outNames;
};

// Interprets a design program through the real frontend. Throws on malformed programs.
class Interp {
public:
	Built b;
	std::vector<std::unique_ptr<ConditionalScope>> scopes;
	std::vector<std::unique_ptr<GroupScope>> groupStack;
	std::map<std::string, std::shared_ptr<Memory<UInt>>> mems;
	std::map<std::string, gtry::Clock> dclocks;                         // derived clocks (same clock pin as the design clock)
	std::vector<std::unique_ptr<ClockScope>> clkStack;
	bool dropAll = false;

	Val &get(const std::string &n) { auto it = b.vars.find(n); if (it == b.vars.end()) throw std::runtime_error("unknown var " + n); return *it->second; }
	UInt asU(const std::string &n) { Val &v = get(n); if (v.isBit()) return zext(UInt(cat(v.b())), 1_b); return v.u(); }
	Bit asB(const std::string &n) { Val &v = get(n); if (v.isBit()) return v.b(); return v.u().lsb(); }

	void run(const Program &p) {
		size_t pc = 0;
		block(p, pc, 0);
	}

	// executes statements until the matching elif/else/endif of the given depth
	void block(const Program &p, size_t &pc, int depth) {
		while (pc < p.stmts.size()) {
			const auto &t = p.stmts[pc];
			const std::string &op = t[0];
			if (op == "elif" || op == "else" || op == "endif") { if (depth == 0) throw std::runtime_error("stray " + op); return; }
			if (op == "if") { pc++; ifchain(p, pc, t[1], depth); continue; }
			stmt(t);
			pc++;
		}
	}
	// the condition object itself (not a copy) when the variable is a Bit: `IF (b)` in user code passes b by reference,
	// and the scope bookkeeping compares condition PORTS
	struct CondRef { Bit tmp; const Bit *p; };
	void condOf(const std::string &n, CondRef &c) { Val &v = get(n); if (v.isBit()) c.p = &v.b(); else { c.tmp = v.u().lsb(); c.p = &c.tmp; } }

	void ifchain(const Program &p, size_t &pc, const std::string &condName, int depth) {
		// IF (cond) { ... } ELSEIF (c) { ... } ELSE { ... }  built from the same constructors the macros use
		{
			CondRef cr; condOf(condName, cr);
			ConditionalScope sc(*cr.p);
			block(p, pc, depth + 1);
		}
		while (pc < p.stmts.size()) {
			const auto &t = p.stmts[pc];
			if (t[0] == "elif") {
				pc++;
				CondRef cr; condOf(t[1], cr);
				ConditionalScope sc(ConditionalScope::ElseCase{}, *cr.p);
				block(p, pc, depth + 1);
			} else if (t[0] == "else") {
				pc++;
				{
					ConditionalScope sc(ConditionalScope::ElseCase{});
					block(p, pc, depth + 1);
				}
				if (pc >= p.stmts.size() || p.stmts[pc][0] != "endif") throw std::runtime_error("else without endif");
				pc++;
				return;
			} else if (t[0] == "endif") { pc++; return; }
			else throw std::runtime_error("bad if chain");
		}
		throw std::runtime_error("missing endif");
	}

	static BitWidth bw(const std::string &s) { return BitWidth(std::stoull(s)); }

	virtual ~Interp() = default;
	// subclasses may handle additional statements and delegate the rest to Interp::stmt
	virtual void stmt(const std::vector<std::string> &t) {
		const std::string &op = t[0];
		// copy-construct in place (== `UInt name = expr;` in user code); never move a signal object: moving has its own semantics
		auto setU = [&](const std::string &n, const UInt &v) { auto p = std::make_shared<Val>(); p->v.emplace<UInt>(v); b.vars[n] = p; };
		auto setB = [&](const std::string &n, const Bit &v) { auto p = std::make_shared<Val>(); p->v.emplace<Bit>(v); b.vars[n] = p; };
		if (op == "in") { UInt x = pinIn(bw(t[2])).setName(t[1]); setU(t[1], x); b.inNames.push_back(t[1]); }
		else if (op == "inb") { Bit x = pinIn().setName(t[1]); setB(t[1], x); b.inNames.push_back(t[1]); }
		else if (op == "lit") {
			if (t[2] == "b") { Bit x = t[3] == "1" ? Bit('1') : t[3] == "0" ? Bit('0') : Bit('x'); setB(t[1], x); }
			else { std::string v = t[3] == "e" ? std::string("") : t[3]; std::string ls = std::to_string(v.size()) + "b" + v; UInt x = v.empty() ? UInt(0_b) : UInt(ls.c_str()); setU(t[1], x); }
		}
		else if (op == "toenum") {     // toenum NAME SRC [rst K] : Enum<E4> signal from a 2-bit UInt, optionally with an ATTACHED reset value (Enum::resetValue)
			auto p = std::make_shared<Val>(); p->v.emplace<Enum<E4>>(asU(t[2]));
			if (t.size() > 4 && t[3] == "rst") p->e().resetValue((E4)std::stoi(t[4]));
			b.vars[t[1]] = p;
		}
		else if (op == "ofenum") { UInt x = get(t[2]).e().numericalValue(); setU(t[1], x); }
		else if (op == "bitrst") {     // bitrst NAME SRC 0|1 : a Bit with an ATTACHED reset value (Bit::resetValue)
			auto p = std::make_shared<Val>(); p->v.emplace<Bit>(asB(t[2])); p->b().resetValue(t[3] == "1"); b.vars[t[1]] = p;
		}
		else if (op == "regs") {       // regs NAME SRC : reg(SRC, RegisterSettings{}) - the reset value is the one attached to the signal object (if any)
			Val &a = get(t[2]);
			auto p = std::make_shared<Val>();
			if (a.isEnum()) p->v.emplace<Enum<E4>>(reg(a.e(), RegisterSettings{}));
			else if (a.isBit()) p->v.emplace<Bit>(reg(a.b(), RegisterSettings{}));
			else p->v.emplace<UInt>(reg(a.u(), RegisterSettings{}));
			b.vars[t[1]] = p;
		}
		else if (op == "regst") {      // regst RA RB RE A B E : the three signals packed into a struct (member-wise copies), reg(struct), unpacked again
			S3 in{ get(t[4]).u(), get(t[5]).b(), get(t[6]).e() };
			S3 r = reg(in, RegisterSettings{});
			setU(t[1], r.a); setB(t[2], r.b);
			auto p = std::make_shared<Val>(); p->v.emplace<Enum<E4>>(r.e); b.vars[t[3]] = p;
		}
		else if (op == "not") { Val &a = get(t[2]); if (a.isBit()) setB(t[1], ~a.b()); else setU(t[1], ~a.u()); }
		else if (op == "bin") {
			const std::string &o = t[2]; Val &a = get(t[3]); Val &c = get(t[4]);
			if (a.isBit() && c.isBit() && (o == "and" || o == "or" || o == "xor" || o == "nand" || o == "nor" || o == "xnor" || o == "eq" || o == "ne")) {
				Bit x = a.b(), y = c.b();
				if (o == "and") setB(t[1], x & y); else if (o == "or") setB(t[1], x | y); else if (o == "xor") setB(t[1], x ^ y);
				else if (o == "nand") setB(t[1], lnand(x, y)); else if (o == "nor") setB(t[1], lnor(x, y)); else if (o == "xnor") setB(t[1], lxnor(x, y));
				else if (o == "eq") setB(t[1], x == y); else setB(t[1], x != y);
			} else {
				UInt x = asU(t[3]), y = asU(t[4]);
				if (o == "and") setU(t[1], x & y); else if (o == "or") setU(t[1], x | y); else if (o == "xor") setU(t[1], x ^ y);
				else if (o == "nand") setU(t[1], lnand(x, y)); else if (o == "nor") setU(t[1], lnor(x, y)); else if (o == "xnor") setU(t[1], lxnor(x, y));
				else if (o == "add") setU(t[1], x + y); else if (o == "sub") setU(t[1], x - y); else if (o == "mul") setU(t[1], x * y);
				else if (o == "eq") setB(t[1], x == y); else if (o == "ne") setB(t[1], x != y);
				else if (o == "lt") setB(t[1], x < y); else if (o == "gt") setB(t[1], x > y); else if (o == "le") setB(t[1], x <= y); else if (o == "ge") setB(t[1], x >= y);
				else if (o == "shl") setU(t[1], zshl(x, y)); else if (o == "shr") setU(t[1], zshr(x, y));
				else if (o == "rotl") setU(t[1], rotl(x, y)); else if (o == "rotr") setU(t[1], rotr(x, y));
				else if (o == "cat") setU(t[1], cat(x, y));
				else throw std::runtime_error("unknown bin op " + o);
			}
		}
		else if (op == "slice") { UInt a = asU(t[2]); setU(t[1], a(std::stoull(t[3]), bw(t[4]))); }
		else if (op == "bit") { UInt a = asU(t[2]); setB(t[1], a[(size_t)std::stoull(t[3])]); }
		else if (op == "zext") { setU(t[1], zext(asU(t[2]), bw(t[3]))); }
		else if (op == "oext") { setU(t[1], oext(asU(t[2]), bw(t[3]))); }
		else if (op == "sext") { setU(t[1], sext(asU(t[2]), bw(t[3]))); }
		else if (op == "mux") {
			Val &s = get(t[2]);
			if (s.isBit()) {
				if (get(t[3]).isBit() && get(t[4]).isBit()) setB(t[1], mux(s.b(), { get(t[3]).b(), get(t[4]).b() }));
				else setU(t[1], mux(s.b(), { asU(t[3]), asU(t[4]) }));
			} else {
				std::vector<UInt> tab; for (size_t i = 3; i < t.size(); i++) tab.push_back(asU(t[i]));
				setU(t[1], mux(s.u(), tab));
			}
		}
		else if (op == "var" && get(t[2]).isEnum()) { auto p = std::make_shared<Val>(); p->v.emplace<Enum<E4>>(get(t[2]).e()); b.vars[t[1]] = p; }
		else if (op == "var") { Val &a = get(t[2]); if (a.isBit()) { Bit x = a.b(); setB(t[1], x); } else { UInt x = a.u(); setU(t[1], x); } }
		else if (op == "loopvar") { auto p = std::make_shared<Val>(); p->v.emplace<UInt>(bw(t[2])); b.vars[t[1]] = p; }
		else if (op == "close") { Val &d = get(t[1]); d.u() = asU(t[2]); }
		else if (op == "set") { Val &d = get(t[1]); if (d.isBit()) d.b() = asB(t[2]); else d.u() = asU(t[2]); }
		else if (op == "setslice") { Val &d = get(t[1]); d.u()(std::stoull(t[2]), bw(t[3])) = asU(t[4]); }
		else if (op == "setbit") { Val &d = get(t[1]); d.u()[(size_t)std::stoull(t[2])] = asB(t[3]); }
		else if (op == "reg") {
			// reg NAME SRC [rst LIT] [en C]
			std::string rst, en;
			for (size_t i = 3; i + 1 < t.size(); i += 2) { if (t[i] == "rst") rst = t[i + 1]; else if (t[i] == "en") en = t[i + 1]; }
			std::unique_ptr<EnableScope> es; if (!en.empty()) es = std::make_unique<EnableScope>(asB(en));
			Val &a = get(t[2]);
			if (a.isBit()) { if (rst.empty()) setB(t[1], reg(a.b())); else setB(t[1], reg(a.b(), rst == "1" ? '1' : '0')); }
			else { if (rst.empty()) setU(t[1], reg(a.u())); else { std::string ls = std::to_string(rst.size()) + "b" + rst; UInt rv(ls.c_str()); setU(t[1], reg(a.u(), rv)); } }
		}
		else if (op == "namebit") {    // namebit X I NAME : names the ALIAS bit X[I] (x[i].setName(..)), not a copy of it; I = msb names X.msb()
			Val &a = get(t[1]);
			if (t[2] == "msb") a.u().msb().setName(t[3]); else a.u()[(size_t)std::stoull(t[2])].setName(t[3]);
		}
		else if (op == "name" && get(t[1]).isEnum()) { get(t[1]).e().setName(t[2]); }
		else if (op == "name") { Val &a = get(t[1]); if (a.isBit()) a.b().setName(t[2]); else a.u().setName(t[2]); }
		else if (op == "area") { groupStack.push_back(std::make_unique<GroupScope>(t.size() > 2 && t[2] == "entity" ? GroupScope::GroupType::ENTITY : GroupScope::GroupType::AREA, t[1])); }
		else if (op == "endarea") { if (groupStack.empty()) throw std::runtime_error("endarea"); groupStack.pop_back(); }
		else if (op == "out") { Val &a = get(t[2]); if (a.isBit()) pinOut(a.b()).setName(t[1]); else pinOut(a.u()).setName(t[1]); b.outNames.push_back(t[1]); }
		else if (op == "drop") { b.vars.erase(t[1]); }
		else if (op == "dropall") { dropAll = true; }
		else if (op == "dclk") {       // dclk NAME [falling|both] [rst=sync|async|none] [act=low|high] [rstname=X] : derived from the current clock, same pin
			ClockConfig cfg;
			for (size_t i = 2; i < t.size(); i++) {
				if (t[i] == "falling") cfg.triggerEvent = ClockConfig::TriggerEvent::FALLING;
				else if (t[i] == "both") cfg.triggerEvent = ClockConfig::TriggerEvent::RISING_AND_FALLING;
				else if (t[i] == "rst=sync") cfg.resetType = ClockConfig::ResetType::SYNCHRONOUS;
				else if (t[i] == "rst=async") cfg.resetType = ClockConfig::ResetType::ASYNCHRONOUS;
				else if (t[i] == "rst=none") cfg.resetType = ClockConfig::ResetType::NONE;
				else if (t[i] == "act=low") cfg.resetActive = ClockConfig::ResetActive::LOW;
				else if (t[i] == "act=high") cfg.resetActive = ClockConfig::ResetActive::HIGH;
				else if (t[i].rfind("rstname=", 0) == 0) cfg.resetName = t[i].substr(8);
				else throw std::runtime_error("dclk option " + t[i]);
			}
			dclocks.emplace(t[1], ClockScope::getClk().deriveClock(cfg));
		}
		else if (op == "clk") { clkStack.push_back(std::make_unique<ClockScope>(dclocks.at(t[1]))); }
		else if (op == "endclk") { if (clkStack.empty()) throw std::runtime_error("endclk"); clkStack.pop_back(); }
		else if (op == "xovr") {       // xovr NAME a b : NAME = a, with b as export override (simulation keeps a)
			Val &a = get(t[2]); Val &c = get(t[3]);
			if (a.isBit()) { Bit x = a.b(); x.exportOverride(c.b()); setB(t[1], x); }
			else { UInt x = a.u(); x.exportOverride(asU(t[3])); setU(t[1], x); }
		}
		else if ((op == "tap" || op == "attr") && get(t[1]).isEnum()) { /* not offered for enum signals here */ }
		else if (op == "attrp" && get(t[2]).isEnum()) { auto p = std::make_shared<Val>(); p->v.emplace<Enum<E4>>(get(t[2]).e()); b.vars[t[1]] = p; }
		else if (op == "tap") { Val &a = get(t[1]); if (a.isBit()) tap(a.b()); else tap(a.u()); }
		else if (op == "attrp") {      // attrp NAME SRC : NAME = attribute(SRC, ...) - the signal routed THROUGH the attribute node
			Val &a = get(t[2]); SignalAttributes at; at.maxFanout = 4;
			if (a.isBit()) { Bit x = attribute(a.b(), at); setB(t[1], x); } else { UInt x = attribute(a.u(), at); setU(t[1], x); }
		}
		else if (op == "attr") { Val &a = get(t[1]); SignalAttributes at; at.maxFanout = 8; if (a.isBit()) attribute(a.b(), at); else attribute(a.u(), at); }
		else if (op == "mem") {        // mem NAME depth width [noconf] [zero]
			auto m = std::make_shared<Memory<UInt>>(std::stoull(t[2]), UInt(bw(t[3])));
			m->setName(t[1]);
			for (size_t i = 4; i < t.size(); i++) {
				if (t[i] == "noconf") m->noConflicts(); else if (t[i] == "zero") m->initZero();
				else if (t[i].rfind("fill=", 0) == 0) {      // fill=<depth*width bits, MSB first, 0/1/X>: power-on contents (word 0 = least significant bits)
					std::string bits = t[i].substr(5);
					sim::DefaultBitVectorState st; st.resize(bits.size());
					for (size_t k = 0; k < bits.size(); k++) { char ch = bits[bits.size() - 1 - k]; st.set(sim::DefaultConfig::DEFINED, k, ch == '0' || ch == '1'); st.set(sim::DefaultConfig::VALUE, k, ch == '1'); }
					m->fillPowerOnState(st);
				}
				else if (t[i] == "exact") m->undefinedReadAddrBehavior(hlim::Node_Memory::UndefinedReadAddrBehavior::EXACT);   // merge all candidate words of a partially undefined read address
			}
			mems[t[1]] = m;
		}
		else if (op == "memwrite") {   // memwrite MEM ADDR DATA   (conditional when inside if-scopes)
			(*mems.at(t[1]))[asU(t[2])] = asU(t[3]);
		}
		else if (op == "memread") {    // memread NAME MEM ADDR
			UInt x = (*mems.at(t[2]))[asU(t[3])];
			setU(t[1], x);
		}
		else if (op == "memreadf") {   // memreadf NAME MEM ADDR : forward-declared signal, bound to the read port afterwards (its signal node hangs DIRECTLY on the port)
			auto &m = *mems.at(t[2]);
			auto p = std::make_shared<Val>(); p->v.emplace<UInt>(m.wordSize()); b.vars[t[1]] = p;
			p->u() = m[asU(t[3])];
		}
		else if (op == "membind") {    // membind NAME MEM ADDR : binds the FORWARD-DECLARED signal NAME (loopvar) to a read port; its earlier consumers hang on NAME's signal node
			get(t[1]).u() = (*mems.at(t[2]))[asU(t[3])];
		}
		else if (op == "stimkey" || op == "clockcfg") { /* read by the main program */ }
		else if (op == "comment") { /* comments attach to subsequently created nodes */ }
		else throw std::runtime_error("unknown statement " + op);
	}
};

// ---------------------------------------------------------------------------------------------
// trace runner on the real reference simulator
// ---------------------------------------------------------------------------------------------
struct Pins { std::vector<Node_Pin*> ins, outs; };

inline Pins findPins(Circuit &c) {
	Pins p;
	std::vector<Node_Pin*> all;
	for (auto &n : c.getNodes()) if (auto *pin = dynamic_cast<Node_Pin*>(n.get())) all.push_back(pin);
	std::sort(all.begin(), all.end(), [](Node_Pin *a, Node_Pin *b){ return a->getName() < b->getName() || (a->getName() == b->getName() && a->getId() < b->getId()); });
	for (auto *pin : all) { if (pin->isInputPin()) p.ins.push_back(pin); else if (pin->isOutputPin()) p.outs.push_back(pin); }
	return p;
}

struct ResetObserver : public sim::SimulatorCallbacks {
	std::vector<std::string> events;
	virtual void onReset(const hlim::Clock *clock, bool resetAsserted) override { events.push_back(std::string("R") + (resetAsserted ? "1" : "0")); }
	virtual void onClock(const hlim::Clock *clock, bool risingEdge) override { events.push_back(risingEdge ? "E" : "e"); }
};

// stimulus: per cycle, per input pin (sorted by name) an MSB-first 01X string
inline void runTrace(Circuit &circuit, hlim::ClockRational period, const std::vector<std::vector<std::string>> &stim, std::ostream &o, const std::string &tag) {
	Pins pins = findPins(circuit);
	sim::ReferenceSimulator sim(false);
	ResetObserver obs;
	sim.addCallbacks(&obs);
	sim.compileProgram(circuit);
	sim.powerOn();
	o << "trace " << tag << "\npins in";
	for (auto *p : pins.ins) o << " " << p->getName() << ":" << p->getConnectionType().width;
	o << " out";
	for (auto *p : pins.outs) o << " " << p->getName() << ":" << p->getConnectionType().width;
	o << "\n";
	sim.advance(period / 4);
	for (size_t cyc = 0; cyc < stim.size(); cyc++) {
		o << "ev";
		for (auto &e : obs.events) o << " " << e;
		obs.events.clear();
		o << "\n";
		for (size_t i = 0; i < pins.ins.size(); i++) {
			const std::string &s = i < stim[cyc].size() ? stim[cyc][i] : std::string();
			size_t w = pins.ins[i]->getConnectionType().width;
			sim::ExtendedBitVectorState st; st.resize(w);
			for (size_t k = 0; k < w; k++) {
				char ch = k < s.size() ? s[s.size() - 1 - k] : 'X';
				st.set(sim::ExtendedConfig::DEFINED, k, ch == '0' || ch == '1');
				st.set(sim::ExtendedConfig::VALUE, k, ch == '1');
				st.set(sim::ExtendedConfig::DONT_CARE, k, false);
				st.set(sim::ExtendedConfig::HIGH_IMPEDANCE, k, false);
			}
			sim.simProcSetInputPin(pins.ins[i], st);
		}
		sim.reevaluate();
		o << "cy " << cyc << " in";
		for (size_t i = 0; i < pins.ins.size(); i++) o << " " << (i < stim[cyc].size() && !stim[cyc][i].empty() ? stim[cyc][i] : std::string("e"));
		o << " out";
		for (auto *p : pins.outs) {
			auto drv = p->getDriver(0);
			if (drv.node == nullptr) { o << " " << (p->getConnectionType().width ? std::string(p->getConnectionType().width, 'X') : std::string("e")); continue; }
			o << " " << bitsOrE(sim.getValueOfOutput(drv));
		}
		o << "\n";
		sim.advance(period);
	}
	o << "endtrace\n";
}

}
