// C19 harness: script sets run as REAL simulation processes (coroutines) or fibers on a small
// real circuit in the real ReferenceSimulator.
//
//   C19_proc <coro|fiber> <casefile> <outfile>
//
// Case file (written by checks/C19.py; the OCaml driver of the extracted model reads the same file):
//   case <id>
//   clk <fA n/d> <fB n/d | ->         absolute frequencies; "-" = one clock only (register RB is clocked by clock 0 too)
//   x <f n/d>                         a ROOT clock that drives no clocked node (not part of the simulation program); clock index 2, 3, .. in order
//   y <0|1> <m n/d>                   the same, DERIVED from clock 0 / 1 with frequency multiplier m
//   p <step>*                         one top-level process per line, pid = position (0..)
//   s <step>*                         one sub-script per line (fork targets), sid = position (0..)
//   until <n/d>                       sim.advance(until) after powerOn
//   end
// steps:  K<c><B|D|A>  co_await WaitClock(clock c, BEFORE|DURING|AFTER); c = 0,1: clocks with registers, c >= 2: x/y clocks
//         T<n>/<d>     co_await WaitFor(n/d seconds)
//         H<i>.<j>..   co_await WaitChange over the ordered sensitivity list [signal i, signal j, ..] (repeats allowed, H- = empty)
//         S            co_await WaitStable()
//         R<sig>       read signal  (0 RA, 1 RA2, 2 RB, 3 C, 4 PA = output of pin PA = FIRST allocated signal (state offset 0),
//                      5 Z = zero-width input (every zero-width output is at state offset 0 too), 6 C[3:0], 7 C[7:4])
//         W<pin>=<v>   simu(pin) = v  (pin 0 = PA, 1 = PB; 8 bit)
//         F<sid>       fork(sub-script sid); the child gets the next free pid; its handle is appended to a global table
//         J<k>         co_await join(k-th forked process), skipped when fewer than k+1 forks happened so far
// Circuit:  PA,PB input pins (8 bit); RA = reg(PA) @clkA; RA2 = reg(RA) @clkA; RB = reg(PB) @clkB; C = PA xor RA.
//           No resets, no enables: registers and pins start undefined (printed X).
//
// Output per case:
//   case <id>
//   L <time n/d> <B|D|A> <microtick> <0|1 read-only> p<pid> <what>    process actions, in execution order
//       (after `susp H<m>` and `wake H<m>` a line `V <values of the watched signals>` follows)
//   E <time> <c> <r|f> <RA> <RA2> <RB>     onClock callback of clock c (after the clocked nodes advanced; '-' for
//                                          registers of the other clock domain)
//   P <time> <B|D|A>                       onNewPhase
//   M <time> <B|D|A> <microtick>           onAfterMicroTick
//   C <time> <RA> <RA2> <RB> <C>           onCommitState
//   X <message>                            exception that ended the case (write in read-only mode)
//   end
// In fiber mode every step is executed by its own coroutine handed to SimulationFiber::awaitCoroutine from a
// fiber thread; log lines of `start`/`end` are written by the fiber thread itself.
#include "vh.h"
#include <gatery/simulation/SimulatorCallbacks.h>
#include <gatery/simulation/simProc/SimulationFiber.h>
#include <gatery/simulation/simProc/WaitChange.h>
#include <gatery/simulation/simProc/SensitivityList.h>
#include <memory>

using namespace gtry;
using Rat = hlim::ClockRational;

static std::vector<std::string> split(const std::string &s, char sep = ' ') {
	std::vector<std::string> r; std::string cur;
	for (char c : s) { if (c == sep) { if (!cur.empty()) r.push_back(cur); cur.clear(); } else cur.push_back(c); }
	if (!cur.empty()) r.push_back(cur);
	return r;
}
static Rat parseRat(const std::string &s) {
	auto p = s.find('/');
	if (p == std::string::npos) throw std::runtime_error("bad rational " + s);
	return Rat(std::stoull(s.substr(0, p)), std::stoull(s.substr(p + 1)));
}
static std::string ratStr(const Rat &r) { return std::to_string(r.numerator()) + "/" + std::to_string(r.denominator()); }

struct Step { std::vector<int> list; char kind = 0; int a = 0; char ph = 'A'; Rat dur{0, 1}; int val = 0; std::string text; };
using Script = std::vector<Step>;

static Step parseStep(const std::string &t) {
	Step s; s.kind = t.at(0); s.text = t;
	switch (s.kind) {
		case 'K': s.a = t.at(1) - '0'; s.ph = t.at(2); break;
		case 'T': s.dur = parseRat(t.substr(1)); break;
		case 'H': // ordered sensitivity list, entries may repeat: H<i>.<j>...  (H- = empty list)
			if (t != "H-") for (auto &x : split(t.substr(1), '.')) s.list.push_back(std::stoi(x));
			break;
		case 'S': break;
		case 'R': s.a = std::stoi(t.substr(1)); break;
		case 'W': { auto e = t.find('='); s.a = std::stoi(t.substr(1, e - 1)); s.val = std::stoi(t.substr(e + 1)); } break;
		case 'F': s.a = std::stoi(t.substr(1)); break;
		case 'J': s.a = std::stoi(t.substr(1)); break;
		default: throw std::runtime_error("bad step " + t);
	}
	return s;
}

struct XClk { bool derived = false; int parent = 0; Rat f{1, 1}; };
struct Case { std::string id; Rat fA{1, 1}, fB{1, 1}; bool two = false; std::vector<XClk> extra; std::vector<Script> procs, subs; Rat until{0, 1}; };

struct Sim : public sim::ReferenceSimulator {
	Sim() : sim::ReferenceSimulator(false) {}
	bool readOnly() const { return m_readOnlyMode; }
	long long offsetOf(const hlim::NodePort &np) { auto it = m_program.m_stateMapping.outputToOffset.find(np); return it == m_program.m_stateMapping.outputToOffset.end() ? -1 : (long long)it->second; }
	using sim::ReferenceSimulator::addCallbacks;
};

static const char PH[3] = {'B', 'D', 'A'};
static bool g_offsetsPrinted = false;
static std::ostream *g_meta = nullptr;

struct Ctx : public sim::SimulatorCallbacks {
	const Case *cs = nullptr;
	Sim *sim = nullptr;
	std::ostream *out = nullptr;
	std::vector<Clock> clocks;              // 1 or 2
	std::vector<Clock> extra;               // clocks without clocked nodes
	std::vector<hlim::NodePort> sigs;       // RA RA2 RB C
	std::optional<UInt> pins[2];
	std::vector<OutputPins> outs;
	hlim::NodePort pinA, pinZ;
	int nextPid = 0;
	std::vector<SimProcess::Handle> forked; // global fork table

	std::string val(const hlim::NodePort &np) { return fmt(sim->getValueOfOutput(np)); }
	std::string fmt(const sim::DefaultBitVectorState &st) {
		bool allDef = true, anyDef = false;
		for (size_t i = 0; i < st.size(); i++) { bool d = st.get(sim::DefaultConfig::DEFINED, i); allDef &= d; anyDef |= d; }
		if (allDef) { unsigned v = 0; for (size_t i = 0; i < st.size(); i++) if (st.get(sim::DefaultConfig::VALUE, i)) v |= 1u << i; return std::to_string(v); }
		if (!anyDef) return "X";
		return "b" + vh::bits(st);
	}
	std::string stamp() {
		return ratStr(sim->getCurrentSimulationTime()) + " " + PH[(int)sim->getCurrentPhase()] + " " + std::to_string(sim->getCurrentMicroTick()) + " " + (sim->readOnly() ? "1" : "0");
	}
	void log(int pid, const std::string &what) { *out << "L " << stamp() << " p" << pid << " " << what << "\n"; }

	void onClock(const hlim::Clock *clock, bool risingEdge) override {
		int c = -1;
		for (size_t i = 0; i < clocks.size(); i++) if (clocks[i].getClk()->getClockPinSource() == clock) c = (int)i;
		// only the registers of this clock's own domain (keeps the line independent of the order in which
		// two clockValueChange events of the same instant are served)
		bool inA = c == 0, inB = c == (clocks.size() > 1 ? 1 : 0);
		*out << "E " << ratStr(sim->getCurrentSimulationTime()) << " " << c << " " << (risingEdge ? 'r' : 'f') << " "
			<< (inA ? val(sigs[0]) : "-") << " " << (inA ? val(sigs[1]) : "-") << " " << (inB ? val(sigs[2]) : "-") << "\n";
	}
	void onNewPhase(size_t phase) override {
		*out << "P " << ratStr(sim->getCurrentSimulationTime()) << " " << PH[phase] << "\n";
	}
	void onAfterMicroTick(size_t mt) override {
		*out << "M " << ratStr(sim->getCurrentSimulationTime()) << " " << PH[(int)sim->getCurrentPhase()] << " " << mt << "\n";
	}
	void onCommitState() override {
		*out << "C " << ratStr(sim->getCurrentSimulationTime()) << " " << val(sigs[0]) << " " << val(sigs[1]) << " " << val(sigs[2]) << " " << val(sigs[3]) << "\n";
	}
};

// ---- one step, as a coroutine (used directly in coroutine mode, one instance per step in fiber mode) ----
static SimFunction<int> doStep(Ctx *cx, int pid, Step st)
{
	switch (st.kind) {
		case 'K': {
			auto ph = st.ph == 'B' ? sim::WaitClock::BEFORE : st.ph == 'D' ? sim::WaitClock::DURING : sim::WaitClock::AFTER;
			const hlim::Clock *clk;
			if (st.a >= 2) clk = cx->extra.at(st.a - 2).getClk();
			else clk = cx->clocks[(size_t)st.a < cx->clocks.size() ? (size_t)st.a : 0].getClk();
			cx->log(pid, "susp " + st.text);
			co_await sim::WaitClock(clk, ph);
			cx->log(pid, "wake " + st.text);
		} break;
		case 'T':
			cx->log(pid, "susp " + st.text);
			co_await WaitFor(st.dur);
			cx->log(pid, "wake " + st.text);
			break;
		case 'H': {
			sim::SensitivityList sl;
			for (int i : st.list) sl.add(cx->sigs.at(i));
			auto watched = [&]() { std::string r = "V"; for (int i : st.list) r += " " + cx->val(cx->sigs.at(i)); return r; };
			cx->log(pid, "susp " + st.text);
			cx->log(pid, watched());          // what the SignalWatch snapshots
			co_await sim::WaitChange(sl);
			cx->log(pid, "wake " + st.text);
			cx->log(pid, watched());          // what the process sees when it is resumed
		} break;
		case 'S':
			cx->log(pid, "susp S");
			co_await WaitStable();
			cx->log(pid, "wake S");
			break;
		case 'R': {
			// the frontend read path: simu(outputPin).eval() -> SimulationContext::getSignal -> simProcGetValueOfOutput
			auto val = st.a < 4 ? cx->fmt(simu(cx->outs[st.a]).eval()) : cx->val(cx->sigs.at(st.a));
			cx->log(pid, "R" + std::to_string(st.a) + "=" + val);
		} break;
		case 'W':
			cx->log(pid, st.text);
			simu(*cx->pins[st.a]) = (unsigned)st.val;
			break;
		default: break;
	}
	co_return 0;
}

static SimProcess runScript(Ctx *cx, int pid, const Script *script);

static void doFork(Ctx *cx, int pid, const Step &st)
{
	int cpid = cx->nextPid++;
	cx->log(pid, "F" + std::to_string(st.a) + ":" + std::to_string(cpid));
	// the slot is reserved first: the child runs nested inside fork() and may fork itself
	size_t slot = cx->forked.size();
	cx->forked.emplace_back();
	auto h = fork(runScript(cx, cpid, &cx->cs->subs.at(st.a)));
	cx->forked[slot] = h;
}

static SimProcess runScript(Ctx *cx, int pid, const Script *script)
{
	cx->log(pid, "start");
	for (const Step &st : *script) {
		if (st.kind == 'F')
			doFork(cx, pid, st);
		else if (st.kind == 'J') {
			if ((size_t)st.a >= cx->forked.size())
				cx->log(pid, st.text + ":skip");
			else {
				bool done = cx->forked[st.a].done();
				cx->log(pid, st.text + (done ? ":done" : ":wait"));
				co_await join(cx->forked[st.a]);
				if (!done) cx->log(pid, "wake " + st.text);
			}
		} else
			co_await doStep(cx, pid, st);
	}
	cx->log(pid, "end");
}

// fiber mode: the body runs on its own thread; every step is a coroutine executed through awaitCoroutine
static void fiberBody(Ctx *cx, int pid, const Script *script)
{
	cx->log(pid, "start");
	for (const Step &st : *script) {
		if (st.kind == 'F') {
			sim::SimulationFiber::awaitCoroutine<int>([=]() -> SimFunction<int> { doFork(cx, pid, st); co_return 0; });
		} else if (st.kind == 'J') {
			sim::SimulationFiber::awaitCoroutine<int>([=]() -> SimFunction<int> {
				if ((size_t)st.a >= cx->forked.size())
					cx->log(pid, st.text + ":skip");
				else {
					bool done = cx->forked[st.a].done();
					cx->log(pid, st.text + (done ? ":done" : ":wait"));
					co_await join(cx->forked[st.a]);
					if (!done) cx->log(pid, "wake " + st.text);
				}
				co_return 0;
			});
		} else
			sim::SimulationFiber::awaitCoroutine<int>(doStep(cx, pid, st));
	}
	cx->log(pid, "end");
}

static void runCase(const Case &cs, bool fiberMode, std::ostream &out)
{
	out << "case " << cs.id << "\n";
	DesignScope design;
	Ctx cx; cx.cs = &cs; cx.out = &out;
	cx.clocks.emplace_back(ClockConfig{.absoluteFrequency = cs.fA, .name = "clkA", .resetType = ClockConfig::ResetType::NONE});
	if (cs.two)
		cx.clocks.emplace_back(ClockConfig{.absoluteFrequency = cs.fB, .name = "clkB", .resetType = ClockConfig::ResetType::NONE});
	{
		Clock &ca = cx.clocks[0];
		Clock &cb = cx.clocks[cs.two ? 1 : 0];
		UInt ra, ra2, rb, c;
		{
			ClockScope s(ca);
			// declare-use-bind idiom (as tests/frontend/simulationProcess.cpp SimProc_AsyncProcs): makes the output of pin PA the
			// FIRST signal that Program::allocateSignals places, i.e. the one at simulator state offset 0
			UInt pa = 8_b; HCL_NAMED(pa);
			ra = reg(pa); ra2 = reg(ra); c = pa ^ ra;
			auto pinA = pinIn(8_b).setName("pinA"); pa = pinA; cx.pins[0] = pa; cx.pinA = hlim::NodePort{pinA.node(), 0};
			auto pinZ = pinIn(0_b).setName("z"); cx.pinZ = hlim::NodePort{pinZ.node(), 0};     // zero-width signal (state offset 0 as well)
			cx.outs.push_back(pinOut(ra).setName("ra"));
			cx.outs.push_back(pinOut(ra2).setName("ra2"));
		}
		{
			ClockScope s(cb);
			UInt pb = pinIn(8_b).setName("pb"); cx.pins[1] = pb;
			rb = reg(pb);
			cx.outs.push_back(pinOut(rb).setName("rb"));
		}
		{
			ClockScope s(ca);
			cx.outs.push_back(pinOut(c).setName("c"));
			cx.outs.push_back(pinOut(c(0, 4_b)).setName("clo"));   // two slices of one vector
			cx.outs.push_back(pinOut(c(4, 4_b)).setName("chi"));
		}
	}
	for (size_t i = 0; i < cs.extra.size(); i++) {
		const XClk &x = cs.extra[i];
		if (x.derived)
			cx.extra.push_back(cx.clocks[cs.two ? x.parent : 0].deriveClock(ClockConfig{.frequencyMultiplier = x.f, .name = "y" + std::to_string(i)}));
		else
			cx.extra.emplace_back(ClockConfig{.absoluteFrequency = x.f, .name = "x" + std::to_string(i), .resetType = ClockConfig::ResetType::NONE});
	}
	design.postprocess();
	// watchable / readable signals: 0 RA 1 RA2 2 RB 3 C | 4 PA (pin output, first allocated) 5 Z (zero width) 6 C[3:0] 7 C[7:4]
	for (size_t i = 0; i < 4; i++) cx.sigs.push_back(cx.outs[i].node()->getDriver(0));
	cx.sigs.push_back(cx.pinA); cx.sigs.push_back(cx.pinZ);
	cx.sigs.push_back(cx.outs[4].node()->getDriver(0)); cx.sigs.push_back(cx.outs[5].node()->getDriver(0));

	{
		Sim sim; cx.sim = &sim;
		sim.addCallbacks(&cx);
		cx.nextPid = (int)cs.procs.size();
		for (size_t i = 0; i < cs.procs.size(); i++) {
			const Script *sc = &cs.procs[i];
			Ctx *cxp = &cx; int pid = (int)i;
			if (fiberMode)
				sim.addSimulationFiber([=]() { fiberBody(cxp, pid, sc); });
			else
				sim.addSimulationProcess([=]() -> SimProcess { return runScript(cxp, pid, sc); });
		}
		try {
			sim.compileProgram(design.getCircuit());
			if (!g_offsetsPrinted) {   // once per file: where do PA and Z live in the simulator state?
				g_offsetsPrinted = true;
				*g_meta << "# offsets pa=" << sim.offsetOf(cx.pinA) << " z=" << sim.offsetOf(cx.pinZ) << "\n";
			}
			sim.powerOn();
			sim.advance(cs.until);
		} catch (const std::exception &e) {
			std::string m = e.what();
			out << "X " << (m.find("WaitStable") != std::string::npos ? "readonly" : m.substr(0, 80)) << "\n";
		}
		cx.forked.clear();
	}
	out << "end\n";
}

int main(int argc, char **argv)
{
	if (argc < 4) { fprintf(stderr, "usage: C19_proc <coro|fiber> <casefile> <outfile>\n"); return 2; }
	bool fiberMode = std::string(argv[1]) == "fiber";
	std::ifstream in(argv[2]);
	if (!in) { fprintf(stderr, "cannot read %s\n", argv[2]); return 2; }
	std::ofstream out(argv[3]);
	std::ostringstream meta; g_meta = &meta;
	std::string line; Case cs; bool open = false;
	while (std::getline(in, line)) {
		auto tok = split(line);
		if (tok.empty() || tok[0][0] == '#') continue;
		try {
			if (tok[0] == "case") { cs = Case{}; cs.id = tok.at(1); open = true; }
			else if (tok[0] == "clk") { cs.fA = parseRat(tok.at(1)); cs.two = tok.at(2) != "-"; if (cs.two) cs.fB = parseRat(tok.at(2)); }
			else if (tok[0] == "x") { XClk x; x.f = parseRat(tok.at(1)); cs.extra.push_back(x); }
			else if (tok[0] == "y") { XClk x; x.derived = true; x.parent = std::stoi(tok.at(1)); x.f = parseRat(tok.at(2)); cs.extra.push_back(x); }
			else if (tok[0] == "p" || tok[0] == "s") { Script s; for (size_t i = 1; i < tok.size(); i++) s.push_back(parseStep(tok[i])); (tok[0] == "p" ? cs.procs : cs.subs).push_back(s); }
			else if (tok[0] == "until") cs.until = parseRat(tok.at(1));
			else if (tok[0] == "end" && open) { runCase(cs, fiberMode, out); open = false; }
		} catch (const std::exception &e) {
			out << "X harness: " << std::string(e.what()).substr(0, 200) << "\nend\n"; open = false;
		}
	}
	out << meta.str();
	return 0;
}
