// C03 layer (b) harness: builds expression DAGs through the REAL gatery frontend (UInt / SInt /
// BVec / Bit operators, literals, pins), simulates the UN-postprocessed circuit in
// sim::ReferenceSimulator for every operand vector of the case and prints the value of EVERY
// DAG node.  When a DAG has no pins (all leaves are literals) every node is additionally
// evaluated at construction time (DesignScope's ConstructionTimeSimulationContext, i.e. what
// `simu(x)` / sim_assert see outside a running simulation).
//
//   C03_expr <casefile> <outfile>
//
// Case file: one case per line
//     <node> ; <node> ; ... | <vec> | <vec> ...
//   <node> = op followed by its parameters and then the indices of its operand nodes
//   (see `build` below and checks/C03b.py, which generates the cases and documents the language).
//   <vec>  = one 4-state value (MSB first, chars 0 1 X, "-" for zero width) per pin, in pin order.
// Output: per case
//     <idx> R <nodeIdx> <message>          the frontend rejected node <nodeIdx> (HCL_DESIGNCHECK)
//     <idx> T <nodeIdx>                    operand types not accepted by the C++ overload set
//     <idx> W <nodeIdx> ... <width>        the frontend accepted node <nodeIdx> with a width above 2^20 (not simulated)
//     <idx> V <vecIdx> <val> <val> ...     one value per node:  <T><P>:<bits>
//     <idx> C <val> <val> ...              construction-time values (pin-free DAGs only)
//   T in U S V B, P = expansion policy of the resulting signal in n z o s.
#include "vh.h"
#include <variant>
#include <memory>
#include <functional>

using namespace gtry;
using DBVS = sim::DefaultBitVectorState;

using Sig = std::variant<UInt, SInt, BVec, Bit>;
using SigP = std::unique_ptr<Sig>;

struct TypeErr {};

template<class R> static SigP mkv(R &&r) {
	using T = std::remove_cvref_t<R>;
	static_assert(std::is_same_v<T, UInt> || std::is_same_v<T, SInt> || std::is_same_v<T, BVec> || std::is_same_v<T, Bit>, "unexpected result type");
	return std::make_unique<Sig>(std::in_place_type<T>, static_cast<const T &>(r));
}

#define RET(EXPR) do { if constexpr (requires { EXPR; }) { return mkv(EXPR); } else { throw TypeErr{}; } } while (0)

static std::vector<std::string> split(const std::string &s, char sep) {
	std::vector<std::string> r; std::string cur;
	for (char c : s) { if (c == sep) { r.push_back(cur); cur.clear(); } else cur.push_back(c); }
	r.push_back(cur);
	return r;
}
static std::vector<std::string> words(const std::string &s) {
	std::vector<std::string> r; std::istringstream is(s); std::string w;
	while (is >> w) r.push_back(w);
	return r;
}

static DBVS stateOf(const std::string &bits) { return vh::fromBits(bits == "-" ? std::string() : bits); }

static Expansion polOf(const std::string &p) {
	if (p == "z") return Expansion::zero; if (p == "o") return Expansion::one; if (p == "s") return Expansion::sign;
	throw std::runtime_error("bad policy " + p);
}

template<class F> static SigP un(const Sig &a, F f) { return std::visit([&](const auto &x) -> SigP { return f(x); }, a); }
template<class F> static SigP bin(const Sig &a, const Sig &b, F f) { return std::visit([&](const auto &x, const auto &y) -> SigP { return f(x, y); }, a, b); }
template<class F> static SigP ter(const Sig &a, const Sig &b, const Sig &c, F f) { return std::visit([&](const auto &x, const auto &y, const auto &z) -> SigP { return f(x, y, z); }, a, b, c); }

struct CaseBuild {
	std::vector<SigP> nodes;
	std::vector<std::function<void(const DBVS &)>> pinSetters;
	std::vector<size_t> pinWidths;
	std::vector<InputPins> vecPins;   // keep alive
	std::vector<InputPin> bitPins;
};

static const Sig &ref(CaseBuild &cb, const std::string &tok) { return *cb.nodes.at(std::stoull(tok)); }

static SigP build(CaseBuild &cb, const std::vector<std::string> &t) {
	const std::string &op = t.at(0);
	auto N = [&](size_t i) { return (size_t) std::stoull(t.at(i)); };
	auto R = [&](size_t i) -> const Sig & { return ref(cb, t.at(i)); };

	// ---- leaves
	if (op == "pin") {
		const std::string &ty = t.at(1); size_t w = N(2);
		if (ty == "B") {
			cb.bitPins.reserve(64);
			cb.bitPins.push_back(pinIn());
			InputPin &p = cb.bitPins.back();
			cb.pinSetters.push_back([&p](const DBVS &s) { simu(p) = s; });
			cb.pinWidths.push_back(1);
			return mkv(Bit(p));
		}
		cb.vecPins.reserve(64);
		cb.vecPins.push_back(pinIn(BitWidth{w}));
		InputPins &p = cb.vecPins.back();
		cb.pinSetters.push_back([&p](const DBVS &s) { simu(p) = s; });
		cb.pinWidths.push_back(w);
		if (ty == "U") return mkv(UInt(p));
		if (ty == "S") return mkv((SInt) p);
		if (ty == "V") return mkv((BVec) p);
		throw std::runtime_error("bad pin type");
	}
	if (op == "lits" || op == "litd") {
		// lits T wopt base digits   /  litd T wopt n
		std::string s = (N(2) ? t.at(2) : std::string());
		if (op == "lits") s += t.at(3) + (t.at(4) == "_" ? std::string() : t.at(4)); else s += "d" + t.at(3);
		const std::string &ty = t.at(1);
		if (ty == "U") return mkv(UInt(s.c_str()));
		if (ty == "S") return mkv(SInt(s.c_str()));
		if (ty == "V") return mkv(BVec(s.c_str()));
		throw std::runtime_error("bad literal type");
	}
	if (op == "liti") {
		const std::string &ty = t.at(1);
		if (ty == "U") return mkv(UInt((std::uint64_t) std::stoull(t.at(2))));
		if (ty == "V") return mkv(BVec((std::uint64_t) std::stoull(t.at(2))));
		if (ty == "S") return mkv(SInt((std::int64_t) std::stoll(t.at(2))));
		throw std::runtime_error("bad literal type");
	}
	if (op == "litb") return mkv(Bit(t.at(1).at(0)));
	if (op == "const") {
		if (t.at(1) == "U") return mkv(ConstUInt(std::stoull(t.at(2)), BitWidth{N(3)}));
		if (t.at(1) == "V") return mkv(ConstBVec(std::stoull(t.at(2)), BitWidth{N(3)}));
		throw std::runtime_error("bad const type");
	}
	if (op == "undef") {
		if (t.at(1) == "U") return mkv(ConstUInt(BitWidth{N(2)}));
		if (t.at(1) == "V") return mkv(ConstBVec(BitWidth{N(2)}));
		throw std::runtime_error("bad undef type");
	}

	// ---- unary
	if (op == "not") return un(R(1), [](const auto &a) -> SigP { RET(~a); });
	if (op == "abs") return un(R(1), [](const auto &a) -> SigP { if constexpr (std::is_same_v<std::remove_cvref_t<decltype(a)>, SInt>) return mkv(abs(a)); else throw TypeErr{}; });
	if (op == "cast") {
		const std::string &ty = t.at(1);
		return un(R(2), [&](const auto &a) -> SigP {
			if constexpr (std::is_same_v<std::remove_cvref_t<decltype(a)>, Bit>) throw TypeErr{};
			else { if (ty == "U") return mkv((UInt) a); if (ty == "S") return mkv((SInt) a); if (ty == "V") return mkv((BVec) a); throw TypeErr{}; }
		});
	}
	if (op == "extto" || op == "extby" || op == "extred") {
		const std::string &p = t.at(1); uint64_t n = N(2);
		// the named frontend functions zext / oext / sext / ext are called (not the three-argument ext with an explicit policy)
#define EXTCALL(W) do { if (p == "d") RET(ext(a, W)); else if (p == "z") RET(zext(a, W)); else if (p == "o") RET(oext(a, W)); else if (p == "s") RET(sext(a, W)); else throw std::runtime_error("bad policy " + p); } while (0)
		return un(R(3), [&](const auto &a) -> SigP {
			if (op == "extto") { BitWidth w{n}; EXTCALL(w); }
			else if (op == "extby") { BitExtend w{n}; EXTCALL(w); }
			else { BitReduce w{n}; EXTCALL(w); }
		});
#undef EXTCALL
	}
	if (op == "slice") { size_t off = N(1); BitWidth w{N(2)}; return un(R(3), [&](const auto &a) -> SigP { RET(a(off, w)); }); }
	if (op == "upper") { BitWidth w{N(1)}; return un(R(2), [&](const auto &a) -> SigP { RET(a.upper(w)); }); }
	if (op == "lower") { BitWidth w{N(1)}; return un(R(2), [&](const auto &a) -> SigP { RET(a.lower(w)); }); }
	if (op == "upperR") { BitReduce r{N(1)}; return un(R(2), [&](const auto &a) -> SigP { RET(a.upper(r)); }); }
	if (op == "lowerR") { BitReduce r{N(1)}; return un(R(2), [&](const auto &a) -> SigP { RET(a.lower(r)); }); }
	if (op == "msb") return un(R(1), [](const auto &a) -> SigP { RET(a.msb()); });
	if (op == "lsb") return un(R(1), [](const auto &a) -> SigP { RET(a.lsb()); });
	if (op == "bit") { size_t i = N(1); return un(R(2), [&](const auto &a) -> SigP { RET(a[i]); }); }
	if (op == "bitn") {
		int i = std::stoi(t.at(1));
		// operator[](int) is declared on non-const vectors only: index a copy
		return un(R(2), [&](const auto &a) -> SigP {
			using T = std::remove_cvref_t<decltype(a)>;
			if constexpr (std::is_same_v<T, Bit>) throw TypeErr{}; else { T c = a; return mkv(c[i]); }
		});
	}
	if (op == "shl") { int n = std::stoi(t.at(1)); return un(R(2), [&](const auto &a) -> SigP { RET(a << n); }); }
	if (op == "shr") { int n = std::stoi(t.at(1)); return un(R(2), [&](const auto &a) -> SigP { RET(a >> n); }); }
	if (op == "rotl") { int n = std::stoi(t.at(1)); return un(R(2), [&](const auto &a) -> SigP { RET(rotl(a, n)); }); }
	if (op == "rotr") { int n = std::stoi(t.at(1)); return un(R(2), [&](const auto &a) -> SigP { RET(rotr(a, n)); }); }

	// ---- binary
	if (op == "add") return bin(R(1), R(2), [](const auto &a, const auto &b) -> SigP { RET(a + b); });
	if (op == "sub") return bin(R(1), R(2), [](const auto &a, const auto &b) -> SigP { RET(a - b); });
	if (op == "mul") return bin(R(1), R(2), [](const auto &a, const auto &b) -> SigP { RET(a * b); });
	if (op == "div") return bin(R(1), R(2), [](const auto &a, const auto &b) -> SigP { RET(a / b); });
	if (op == "rem") return bin(R(1), R(2), [](const auto &a, const auto &b) -> SigP { RET(a % b); });
	if (op == "addc") return ter(R(1), R(2), R(3), [](const auto &a, const auto &b, const auto &c) -> SigP { RET(addC(a, b, c)); });
	if (op == "and") return bin(R(1), R(2), [](const auto &a, const auto &b) -> SigP { RET(a & b); });
	if (op == "or") return bin(R(1), R(2), [](const auto &a, const auto &b) -> SigP { RET(a | b); });
	if (op == "xor") return bin(R(1), R(2), [](const auto &a, const auto &b) -> SigP { RET(a ^ b); });
	if (op == "nand") return bin(R(1), R(2), [](const auto &a, const auto &b) -> SigP { RET(lnand(a, b)); });
	if (op == "nor") return bin(R(1), R(2), [](const auto &a, const auto &b) -> SigP { RET(lnor(a, b)); });
	if (op == "xnor") return bin(R(1), R(2), [](const auto &a, const auto &b) -> SigP { RET(lxnor(a, b)); });
	if (op == "eq") return bin(R(1), R(2), [](const auto &a, const auto &b) -> SigP { RET(a == b); });
	if (op == "neq") return bin(R(1), R(2), [](const auto &a, const auto &b) -> SigP { RET(a != b); });
	if (op == "lt") return bin(R(1), R(2), [](const auto &a, const auto &b) -> SigP { RET(a < b); });
	if (op == "gt") return bin(R(1), R(2), [](const auto &a, const auto &b) -> SigP { RET(a > b); });
	if (op == "leq") return bin(R(1), R(2), [](const auto &a, const auto &b) -> SigP { RET(a <= b); });
	if (op == "geq") return bin(R(1), R(2), [](const auto &a, const auto &b) -> SigP { RET(a >= b); });
	// dynamic shifts: the amount must be a UInt (no implicit conversions)
#define DYN(NAME, CALL) if (op == NAME) return bin(R(1), R(2), [](const auto &a, const auto &b) -> SigP { \
		if constexpr (std::is_same_v<std::remove_cvref_t<decltype(b)>, UInt> && !std::is_same_v<std::remove_cvref_t<decltype(a)>, Bit>) return mkv(CALL); else throw TypeErr{}; });
	DYN("zshl", zshl(a, b)) DYN("oshl", oshl(a, b)) DYN("sshl", sshl(a, b))
	DYN("zshr", zshr(a, b)) DYN("oshr", oshr(a, b)) DYN("sshr", sshr(a, b))
	DYN("drotl", rotl(a, b)) DYN("drotr", rotr(a, b))
	DYN("dshl", a << b) DYN("dshr", a >> b)
	DYN("dynbit", a[b])
#undef DYN
	if (op == "dynslice") {
		BitWidth w{N(1)};
		return bin(R(2), R(3), [&](const auto &a, const auto &b) -> SigP {
			if constexpr (std::is_same_v<std::remove_cvref_t<decltype(b)>, UInt> && !std::is_same_v<std::remove_cvref_t<decltype(a)>, Bit>) return mkv(a(b, w)); else throw TypeErr{}; });
	}
	if (op == "shra") {
		size_t n = N(1);
		return bin(R(2), R(3), [&](const auto &a, const auto &c) -> SigP {
			if constexpr (std::is_same_v<std::remove_cvref_t<decltype(a)>, UInt> && std::is_same_v<std::remove_cvref_t<decltype(c)>, Bit>) return mkv(shr(a, n, c)); else throw TypeErr{}; });
	}
	if (op == "dshra")
		return ter(R(1), R(2), R(3), [](const auto &a, const auto &b, const auto &c) -> SigP {
			if constexpr (std::is_same_v<std::remove_cvref_t<decltype(a)>, UInt> && std::is_same_v<std::remove_cvref_t<decltype(b)>, UInt> && std::is_same_v<std::remove_cvref_t<decltype(c)>, Bit>) return mkv(shr(a, b, c)); else throw TypeErr{}; });

	// ---- n-ary
	if (op == "cat" || op == "pack") {
		bool isCat = op == "cat";
		size_t n = t.size() - 1;
		if (n == 1) return un(R(1), [&](const auto &a) -> SigP { return isCat ? mkv(cat(a)) : mkv(pack(a)); });
		if (n == 2) return bin(R(1), R(2), [&](const auto &a, const auto &b) -> SigP { return isCat ? mkv(cat(a, b)) : mkv(pack(a, b)); });
		if (n == 3) return ter(R(1), R(2), R(3), [&](const auto &a, const auto &b, const auto &c) -> SigP { return isCat ? mkv(cat(a, b, c)) : mkv(pack(a, b, c)); });
		throw std::runtime_error("cat/pack arity");
	}
	if (op == "mux") {
		// mux sel t0 t1 ... : table elements must have one C++ type
		const Sig &sel = R(1);
		const Sig &first = R(2);
		return std::visit([&](const auto &s, const auto &f) -> SigP {
			using T = std::remove_cvref_t<decltype(f)>;
			std::vector<T> table; table.reserve(t.size());
			for (size_t i = 2; i < t.size(); i++) {
				const Sig &e = R(i);
				if (!std::holds_alternative<T>(e)) throw TypeErr{};
				table.emplace_back(std::get<T>(e));
			}
			return mkv(mux(s, table));
		}, sel, first);
	}
	if (op == "mslice") {
		// mslice <spec> a aux...   several slice requests (reads / writes) on ONE frontend object, in order; object identity is
		// kept (a single local object, no copies between the requests) so that the per-object alias caches (m_rangeAlias,
		// m_bitAlias, m_msbAlias, m_lsbAlias, m_dynamicBitAlias) are exercised.  Result: pack(read_1, .., read_n, final value).
		//   item = r<form> | w<form>:<V> | g:<V>      (V, K = index into aux)
		//   form = d:W:K  x(aux[K], W)   | p:P:K  x.part(P, aux[K]) | q:P:K  x.parts(P)[aux[K]] | b:K  x[aux[K]]
		//        | s:O:W  x(O, W)        | t:P:I  x.part(P, I)      | i:I  x[I] | m  x.msb() | l  x.lsb() | u:W  x.upper(W) | o:W  x.lower(W)
		//        | a  abs(x) | M:K  x * aux[K] | L:K  x < aux[K]      (SInt only, read only)
		auto items = split(t.at(1), ',');
		const Sig &src = R(2);
		std::vector<const Sig *> aux;
		for (size_t i = 3; i < t.size(); i++) aux.push_back(&R(i));
		return std::visit([&](const auto &a) -> SigP {
			using T = std::remove_cvref_t<decltype(a)>;
			if constexpr (std::is_same_v<T, Bit>) throw TypeErr{};
			else {
				T x = a;
				std::vector<UInt> parts; parts.reserve(items.size() + 2);
				auto auxU = [&](const std::string &k) -> const UInt & { const Sig &v = *aux.at(std::stoull(k)); if (!std::holds_alternative<UInt>(v)) throw TypeErr{}; return std::get<UInt>(v); };
				auto auxT = [&](const std::string &k) -> const T & { const Sig &v = *aux.at(std::stoull(k)); if (!std::holds_alternative<T>(v)) throw TypeErr{}; return std::get<T>(v); };
				auto auxB = [&](const std::string &k) -> const Bit & { const Sig &v = *aux.at(std::stoull(k)); if (!std::holds_alternative<Bit>(v)) throw TypeErr{}; return std::get<Bit>(v); };
				for (auto &item : items) {
					auto f = split(item, ':');
					char mode = f.at(0).at(0);
					if (mode == 'g') { x = auxT(f.at(1)); continue; }
					std::string form = f[0].substr(1);
					bool write = mode == 'w';
					auto vec = [&](T &al, size_t valueField) { if (write) al = auxT(f.at(valueField)); else parts.emplace_back((UInt) al); };
					auto bit = [&](Bit &al, size_t valueField) { if (write) al = auxB(f.at(valueField)); else parts.emplace_back(zext(al)); };
					if (form == "d") vec(x(auxU(f.at(2)), BitWidth{std::stoull(f.at(1))}), 3);
					else if (form == "p") vec(x.part(std::stoull(f.at(1)), auxU(f.at(2))), 3);
					else if (form == "q") vec(x.parts(std::stoull(f.at(1)))[auxU(f.at(2))], 3);
					else if (form == "b") bit(x[auxU(f.at(1))], 2);
					else if (form == "s") vec(x((size_t) std::stoull(f.at(1)), BitWidth{std::stoull(f.at(2))}), 3);
					else if (form == "t") vec(x.part((size_t) std::stoull(f.at(1)), (size_t) std::stoull(f.at(2))), 3);
					else if (form == "i") bit(x[(size_t) std::stoull(f.at(1))], 2);
					else if (form == "m") bit(x.msb(), 1);
					else if (form == "l") bit(x.lsb(), 1);
					else if (form == "u") vec(x.upper(BitWidth{std::stoull(f.at(1))}), 2);
					else if (form == "o") vec(x.lower(BitWidth{std::stoull(f.at(1))}), 2);
					else if (form == "a" || form == "M" || form == "L") {
						// whole-object operators that use the cached sign alias of x: abs(x), x * aux[K], x < aux[K]   (SInt, read only)
						if constexpr (std::is_same_v<T, SInt>) {
							if (write) throw TypeErr{};
							if (form == "a") parts.emplace_back(abs(x));
							else if (form == "M") parts.emplace_back((UInt) SInt(x * auxT(f.at(1))));
							else parts.emplace_back(zext(Bit(x < auxT(f.at(1)))));
						} else throw TypeErr{};
					}
					else throw std::runtime_error("bad slice form " + item);
				}
				parts.emplace_back((UInt) x);
				return mkv(pack(parts));
			}
		}, src);
	}
	throw std::runtime_error("unknown op " + op);
}

static std::string valueOf(const Sig &s, const DBVS &st) {
	static const char tyc[] = {'U', 'S', 'V', 'B'};
	char pc = 'n';
	std::visit([&](const auto &x) {
		switch (x.readPort().expansionPolicy) { case Expansion::zero: pc = 'z'; break; case Expansion::one: pc = 'o'; break; case Expansion::sign: pc = 's'; break; default: pc = 'n'; }
	}, s);
	std::string b = vh::bits(st);
	return std::string(1, tyc[s.index()]) + pc + ":" + (b.empty() ? "-" : b);
}

static std::string clean(std::string m) { for (auto &c : m) if (c == '\n' || c == '\r') c = ' '; return m.substr(0, 200); }

static void runCase(size_t idx, const std::string &line, std::ostream &out) {
	auto parts = split(line, '|');
	auto nodeStrs = split(parts.at(0), ';');
	std::vector<std::vector<std::string>> vecs;
	for (size_t i = 1; i < parts.size(); i++) vecs.push_back(words(parts[i]));
	if (vecs.empty()) vecs.push_back({});

	DesignScope design;
	Clock clock({.absoluteFrequency = 100'000'000});
	ClockScope cs(clock);
	CaseBuild cb;
	size_t cur = 0;
	try {
		for (; cur < nodeStrs.size(); cur++) {
			auto t = words(nodeStrs[cur]);
			if (t.empty()) throw std::runtime_error("empty node");
			cb.nodes.push_back(build(cb, t));
			size_t w = std::visit([](const auto &x) { return (size_t) x.width().bits(); }, *cb.nodes.back());
			if (w > (1u << 20)) { out << idx << " W " << cur << " accepted with width " << w << "\n"; return; }   // never simulate a nonsensical width
		}
	} catch (const TypeErr &) {
		out << idx << " T " << cur << "\n"; return;
	} catch (const gtry::utils::DesignError &e) {
		out << idx << " R " << cur << " " << clean(e.what()) << "\n"; return;
	}

	// a design made of zero-width signals only gives the simulator an empty state vector, on which Node_Rewire's
	// extract(.., 0 bits) reads out of bounds: keep one real bit alive in every case
	{ Bit keep = pinIn().setName("keepalive"); pinOut(keep).setName("keepalive_out"); }

	// the signal ports whose values are observed; every node value is also pinned out so that it is part of the simulated design
	std::vector<hlim::NodePort> ports;
	for (auto &n : cb.nodes)
		std::visit([&](const auto &x) {
			ports.push_back(x.readPort());
			if (x.width().bits() > 0) pinOut(x);
		}, *n);

	if (cb.pinSetters.empty()) {
		out << idx << " C";
		for (size_t i = 0; i < cb.nodes.size(); i++) {
			std::string v;
			// a zero-width expression is not evaluated at construction time: ConstructionTimeSimulationContext::getSignal
			// dereferences the (optimised away) driver of its helper pin and crashes; the value is the empty vector anyway
			try { v = valueOf(*cb.nodes[i], hlim::getOutputWidth(ports[i]) == 0 ? DBVS{} : sim::SigHandle(ports[i]).eval()); } catch (const std::exception &e) { v = "EXC(" + clean(e.what()) + ")"; for (auto &c : v) if (c == ' ') c = '_'; }
			out << " " << v;
		}
		out << "\n";
	}

	sim::ReferenceSimulator s(false);
	std::vector<std::string> lines;
	s.addSimulationProcess([&]() -> SimProcess {
		for (size_t v = 0; v < vecs.size(); v++) {
			if (vecs[v].size() != cb.pinSetters.size()) throw std::runtime_error("vector arity");
			for (size_t p = 0; p < cb.pinSetters.size(); p++) {
				DBVS st = stateOf(vecs[v][p]);
				if (st.size() != cb.pinWidths[p]) throw std::runtime_error("vector width");
				if (st.size() > 0) cb.pinSetters[p](st);
			}
			co_await WaitFor({1, 1000000});
			std::ostringstream o;
			o << idx << " V " << v;
			for (size_t i = 0; i < cb.nodes.size(); i++)
				o << " " << valueOf(*cb.nodes[i], sim::SigHandle(ports[i]).eval());
			lines.push_back(o.str());
		}
	});
	s.compileProgram(design.getCircuit());
	s.powerOn();
	s.advance({(std::uint64_t)(vecs.size() + 2), 1000000});
	for (auto &l : lines) out << l << "\n";
	if (lines.size() != vecs.size()) out << idx << " E simulation produced " << lines.size() << " of " << vecs.size() << " vectors\n";
}

int main(int argc, char **argv) {
	if (argc < 3) { fprintf(stderr, "usage: C03_expr <cases> <out>\n"); return 2; }
	std::ifstream in(argv[1]);
	std::ofstream out(argv[2]);
	if (!in || !out) { fprintf(stderr, "cannot open files\n"); return 2; }
	std::string line; size_t idx = 0;
	while (std::getline(in, line)) {
		if (line.empty() || line[0] == '#') continue;
		try { runCase(idx, line, out); }
		catch (const std::exception &e) { out << idx << " E " << clean(e.what()) << "\n"; }
		catch (...) { out << idx << " E unknown\n"; }
		out.flush();
		idx++;
	}
	return 0;
}
