// C03/C08 node-level harness: evaluates hlim nodes of the REAL library on 4-state operands.
//
//   C03_node <direct|static> <casefile> <outfile> [seed]
//
// direct : lays out a DefaultBitVectorState by hand exactly like Circuit::propagateConstants
//          (every port at a 64-bit aligned offset; ports of <= 32 bits additionally at a
//          random power-of-two aligned sub-offset inside the word, which is what the
//          ReferenceSimulator's BitAllocator produces) and calls
//          BaseNode::simulateEvaluate / simulatePowerOn / simulateAdvance / simulateResetChange.
//          Undefined bits get the VALUE-plane bit given in the case ('X' hidden 0, 'x' hidden 1),
//          the rest of the state is pseudo random garbage.
// static : connects Node_Constant drivers carrying the operand values and evaluates the output
//          through hlim::evaluateStatically, i.e. the real ReferenceSimulator (own allocator,
//          own handling of signal / forwarding nodes).  Registers are skipped ("SKIP").
//
// Case file: one case per line   <kind> <params...> | <operand>*
//   operand: '-' (unconnected) or 'b' followed by MSB-first chars 0 1 X x  ("b" = zero width)
//   logic  <AND|NAND|OR|NOR|XOR|EQ|NOT> <w>           | a [b]
//   arith  <ADD|SUB|MUL|DIV|REM> <w>                  | a b c...      (w = expected output width)
//   cmp    <EQ|NEQ|LT|GT|LEQ|GEQ>                     | a b
//   shift  <L|R> <Z|O|L|R> <w>                        | x amount
//   rewire <range>*  (I:idx:off:w | Z:w | O:w | U:w)  | inputs...
//   mux    <n> <w>                                    | sel d0 .. d(n-1)
//   prio   <n> <w>                                    | default c0 v0 c1 v1 ...
//   const  <bits>                                     |
//   fwd    <SIGNAL|ATTR|CDC|REGHINT|BLOCKER|EXPORT> <w> | x
//   reg    <w> <resetbits|-> <S|A> <H|L>              | op*   with op = P | E:<data>:<enable> | A | R:<0|1>
// Output: one line per case  "<idx> <out>*"  (reg: one "intdata,enable,inreset,out" group per op).
#include "vh.h"
#include <gatery/hlim/coreNodes/Node_Arithmetic.h>
#include <gatery/hlim/coreNodes/Node_Compare.h>
#include <gatery/hlim/coreNodes/Node_Shift.h>
#include <gatery/hlim/coreNodes/Node_Rewire.h>
#include <gatery/hlim/coreNodes/Node_Multiplexer.h>
#include <gatery/hlim/coreNodes/Node_PriorityConditional.h>
#include <gatery/hlim/coreNodes/Node_Register.h>
#include <gatery/hlim/supportNodes/Node_CDC.h>
#include <gatery/hlim/supportNodes/Node_Attributes.h>
#include <gatery/hlim/supportNodes/Node_RegHint.h>
#include <gatery/hlim/supportNodes/Node_RetimingBlocker.h>
#include <gatery/hlim/supportNodes/Node_ExportOverride.h>
#include <gatery/hlim/GraphTools.h>
#include <gatery/hlim/Clock.h>

using namespace gtry;
using DBVS = sim::DefaultBitVectorState;
using DC = sim::DefaultConfig;

struct Operand { bool connected = false; std::string bits; };

static std::vector<std::string> split(const std::string &s, char sep = ' ') {
	std::vector<std::string> r; std::string cur;
	for (char c : s) { if (c == sep) { if (!cur.empty() || sep != ' ') r.push_back(cur); cur.clear(); } else cur.push_back(c); }
	if (!cur.empty() || sep != ' ') r.push_back(cur);
	return r;
}

static Operand parseOperand(const std::string &t) {
	Operand o;
	if (t == "-") return o;
	if (t.empty() || t[0] != 'b') throw std::runtime_error("bad operand " + t);
	o.connected = true; o.bits = t.substr(1);
	return o;
}

// MSB-first string with hidden values -> state
static DBVS toState(const std::string &str) {
	DBVS s; s.resize(str.size());
	for (size_t i = 0; i < str.size(); i++) {
		char c = str[str.size() - 1 - i];
		s.set(DC::DEFINED, i, c == '0' || c == '1');
		s.set(DC::VALUE, i, c == '1' || c == 'x');
	}
	return s;
}

static void writeBits(DBVS &s, size_t off, const std::string &str) {
	for (size_t i = 0; i < str.size(); i++) {
		char c = str[str.size() - 1 - i];
		s.set(DC::DEFINED, off + i, c == '0' || c == '1');
		s.set(DC::VALUE, off + i, c == '1' || c == 'x');
	}
}

struct Layout {
	DBVS state;
	vh::Rng rng;
	explicit Layout(uint64_t seed) : rng(seed) {}
	size_t alloc(size_t w) {
		size_t base = state.size(), sub = 0;
		if (w > 0 && w <= 32) { size_t slot = 1; while (slot < w) slot <<= 1; sub = rng.below(64 / slot) * slot; }
		size_t words = (sub + w + 63) / 64; if (words == 0) words = 1;
		state.resize(base + words * 64);
		for (size_t i = base; i < base + words * 64; i++) { state.set(DC::VALUE, i, rng.coin()); state.set(DC::DEFINED, i, rng.coin()); }
		return base + sub;
	}
};

struct Case {
	std::string kind;
	std::vector<std::string> par;
	std::vector<std::string> opsRaw;
};

static std::string outBits(const DBVS &s, size_t off, size_t w) { return "b" + vh::bits(s, off, w); }

struct Built {
	hlim::BaseNode *node = nullptr;
	std::vector<Operand> ops;          // per input port
	bool isConst = false;
};

static hlim::NodePort mkConst(hlim::Circuit &c, const std::string &bits, bool asBool) {
	auto *n = c.createNode<hlim::Node_Constant>(toState(bits), asBool && bits.size() == 1 ? hlim::ConnectionType::BOOL : hlim::ConnectionType::BITVEC);
	n->moveToGroup(c.getRootNodeGroup());
	return {.node = n, .port = 0};
}

static hlim::Node_Logic::Op logicOp(const std::string &s) {
	using L = hlim::Node_Logic;
	if (s == "AND") return L::AND; if (s == "NAND") return L::NAND; if (s == "OR") return L::OR; if (s == "NOR") return L::NOR;
	if (s == "XOR") return L::XOR; if (s == "EQ") return L::EQ; if (s == "NOT") return L::NOT;
	throw std::runtime_error("bad logic op " + s);
}
static hlim::Node_Arithmetic::Op arithOp(const std::string &s) {
	using A = hlim::Node_Arithmetic;
	if (s == "ADD") return A::ADD; if (s == "SUB") return A::SUB; if (s == "MUL") return A::MUL; if (s == "DIV") return A::DIV; if (s == "REM") return A::REM;
	throw std::runtime_error("bad arith op " + s);
}
static hlim::Node_Compare::Op cmpOp(const std::string &s) {
	using C = hlim::Node_Compare;
	if (s == "EQ") return C::EQ; if (s == "NEQ") return C::NEQ; if (s == "LT") return C::LT; if (s == "GT") return C::GT; if (s == "LEQ") return C::LEQ; if (s == "GEQ") return C::GEQ;
	throw std::runtime_error("bad cmp op " + s);
}

// Creates the node and its constant drivers. Operand i of the case = input port i of the node.
static Built build(hlim::Circuit &c, const Case &cs) {
	Built b;
	for (auto &t : cs.opsRaw) b.ops.push_back(parseOperand(t));
	auto grp = c.getRootNodeGroup();
	auto drv = [&](size_t i, bool asBool = false) { return mkConst(c, b.ops[i].bits, asBool); };
	const auto &k = cs.kind;
	if (k == "logic") {
		auto *n = c.createNode<hlim::Node_Logic>(logicOp(cs.par.at(0))); n->moveToGroup(grp);
		for (size_t i = 0; i < b.ops.size() && i < n->getNumInputPorts(); i++) if (b.ops[i].connected) n->connectInput(i, drv(i));
		b.node = n;
	} else if (k == "arith") {
		auto *n = c.createNode<hlim::Node_Arithmetic>(arithOp(cs.par.at(0)), b.ops.size()); n->moveToGroup(grp);
		for (size_t i = 0; i < b.ops.size(); i++) if (b.ops[i].connected) n->connectInput(i, drv(i));
		b.node = n;
	} else if (k == "cmp") {
		auto *n = c.createNode<hlim::Node_Compare>(cmpOp(cs.par.at(0))); n->moveToGroup(grp);
		for (size_t i = 0; i < 2; i++) if (b.ops.at(i).connected) n->connectInput(i, drv(i));
		b.node = n;
	} else if (k == "shift") {
		using S = hlim::Node_Shift;
		S::dir d = cs.par.at(0) == "L" ? S::dir::left : S::dir::right;
		const std::string &f = cs.par.at(1);
		S::fill fl = f == "Z" ? S::fill::zero : f == "O" ? S::fill::one : f == "L" ? S::fill::last : S::fill::rotate;
		auto *n = c.createNode<S>(d, fl); n->moveToGroup(grp);
		if (b.ops.at(0).connected) n->connectOperand(drv(0));
		if (b.ops.at(1).connected) n->connectAmount(drv(1));
		b.node = n;
	} else if (k == "rewire") {
		auto *n = c.createNode<hlim::Node_Rewire>(b.ops.size()); n->moveToGroup(grp);
		for (size_t i = 0; i < b.ops.size(); i++) if (b.ops[i].connected) n->connectInput(i, drv(i));
		hlim::Node_Rewire::RewireOperation op;
		for (auto &r : cs.par) {
			auto f = split(r, ':');
			using R = hlim::Node_Rewire::OutputRange;
			if (f.at(0) == "I") op.ranges.push_back(R{.subwidth = std::stoull(f.at(3)), .source = R::INPUT, .inputIdx = std::stoull(f.at(1)), .inputOffset = std::stoull(f.at(2))});
			else op.ranges.push_back(R{.subwidth = std::stoull(f.at(1)), .source = f[0] == "Z" ? R::CONST_ZERO : f[0] == "O" ? R::CONST_ONE : R::CONST_UNDEFINED, .inputIdx = 0, .inputOffset = 0});
		}
		n->setOp(std::move(op));
		b.node = n;
	} else if (k == "mux") {
		size_t nIn = std::stoull(cs.par.at(0));
		auto *n = c.createNode<hlim::Node_Multiplexer>(nIn); n->moveToGroup(grp);
		if (b.ops.at(0).connected) n->connectSelector(drv(0, true));
		for (size_t i = 0; i < nIn; i++) if (b.ops.at(1 + i).connected) n->connectInput(i, drv(1 + i));
		b.node = n;
	} else if (k == "prio") {
		size_t nCh = std::stoull(cs.par.at(0));
		auto *n = c.createNode<hlim::Node_PriorityConditional>(); n->moveToGroup(grp);
		if (b.ops.at(0).connected) n->connectDefault(drv(0));
		for (size_t i = 0; i < nCh; i++) {
			// addInput needs a value driver to derive the type; an unconnected condition is disconnected afterwards
			n->addInput(b.ops.at(1 + 2 * i).connected ? drv(1 + 2 * i, true) : mkConst(c, "0", true), drv(2 + 2 * i));
			if (!b.ops.at(1 + 2 * i).connected) n->rewireInput(hlim::Node_PriorityConditional::inputPortChoiceCondition(i), hlim::NodePort{});
		}
		b.node = n;
	} else if (k == "const") {
		b.node = mkConst(c, cs.par.at(0).substr(1), false).node;
		b.isConst = true;
	} else if (k == "fwd") {
		const std::string &f = cs.par.at(0);
		hlim::ConnectionType ty{.type = hlim::ConnectionType::BITVEC, .width = std::stoull(cs.par.at(1))};   // type of an undriven node
		if (f == "SIGNAL") { auto *n = c.createNode<hlim::Node_Signal>(); n->moveToGroup(grp); if (b.ops.at(0).connected) n->connectInput(drv(0)); else n->setConnectionType(ty); b.node = n; }
		else if (f == "ATTR") { auto *n = c.createNode<hlim::Node_Attributes>(); n->moveToGroup(grp); if (b.ops.at(0).connected) n->connectInput(drv(0)); else n->setConnectionType(ty); b.node = n; }
		else if (f == "CDC") { auto *n = c.createNode<hlim::Node_CDC>(); n->moveToGroup(grp); if (b.ops.at(0).connected) n->connectInput(drv(0)); b.node = n; }
		else if (f == "REGHINT") { auto *n = c.createNode<hlim::Node_RegHint>(); n->moveToGroup(grp); if (b.ops.at(0).connected) n->connectInput(drv(0)); else n->setConnectionType(ty); b.node = n; }
		else if (f == "BLOCKER") { auto *n = c.createNode<hlim::Node_RetimingBlocker>(); n->moveToGroup(grp); if (b.ops.at(0).connected) n->connectInput(drv(0)); b.node = n; }
		else if (f == "EXPORT") { auto *n = c.createNode<hlim::Node_ExportOverride>(); n->moveToGroup(grp); if (b.ops.at(0).connected) n->connectInput(drv(0)); else n->setConnectionType(ty); b.node = n; }
		else throw std::runtime_error("bad fwd kind " + f);
	} else
		throw std::runtime_error("bad kind " + k);
	return b;
}

static size_t expectedWidth(const Case &cs) {
	const auto &k = cs.kind;
	if (k == "logic" || k == "arith" || k == "fwd") return std::stoull(cs.par.at(1));
	if (k == "shift") return std::stoull(cs.par.at(2));
	if (k == "mux" || k == "prio") return std::stoull(cs.par.at(1));
	if (k == "cmp") return 1;
	if (k == "const") return cs.par.at(0).size() - 1;
	if (k == "rewire") { size_t w = 0; for (auto &r : cs.par) { auto f = split(r, ':'); w += std::stoull(f.back()); } return w; }
	return 0;
}

static std::string runDirect(const Case &cs, uint64_t seed) {
	hlim::Circuit c;
	Built b = build(c, cs);
	sim::SimulatorCallbacks cb;
	Layout L(seed);
	auto *n = b.node;
	size_t w = n->getOutputConnectionType(0).width;
	// a node whose operands are all unconnected has no width of its own; the case's width is only checked when it has one
	bool anyConn = b.isConst; for (auto &o : b.ops) anyConn |= o.connected;
	if ((anyConn || w != 0) && w != expectedWidth(cs)) return "WIDTH-MISMATCH node=" + std::to_string(w) + " case=" + std::to_string(expectedWidth(cs));
	std::vector<size_t> inOff(std::max<size_t>(n->getNumInputPorts(), 1), ~0ull), outOff(1, ~0ull);
	for (size_t i = 0; i < n->getNumInputPorts() && i < b.ops.size(); i++)
		if (b.ops[i].connected) { inOff[i] = L.alloc(b.ops[i].bits.size()); }
	outOff[0] = L.alloc(w);
	for (size_t i = 0; i < n->getNumInputPorts() && i < b.ops.size(); i++)
		if (b.ops[i].connected) writeBits(L.state, inOff[i], b.ops[i].bits);
	if (b.isConst)
		n->simulatePowerOn(cb, L.state, nullptr, outOff.data());
	else {
		if (dynamic_cast<hlim::Node_Signal*>(n) || dynamic_cast<hlim::Node_Attributes*>(n)) return "SKIP";   // never evaluated by the simulator: static mode only
		std::stringstream swallow; auto *old = std::cout.rdbuf(swallow.rdbuf());   // Node_ExportOverride prints a warning
		try { n->simulateEvaluate(cb, L.state, nullptr, inOff.data(), outOff.data()); } catch (...) { std::cout.rdbuf(old); throw; }
		std::cout.rdbuf(old);
	}
	return outBits(L.state, outOff[0], w);
}

static std::string runStatic(const Case &cs) {
	hlim::Circuit c;
	Built b = build(c, cs);
	if (dynamic_cast<hlim::Node_ExportOverride*>(b.node)) return "SKIP";   // compileStaticEvaluation drops export-override nodes
	auto v = hlim::evaluateStatically(c, {.node = b.node, .port = 0});
	return outBits(v, 0, v.size());
}

static std::string runReg(const Case &cs, uint64_t seed) {
	using R = hlim::Node_Register;
	hlim::Circuit c;
	size_t w = std::stoull(cs.par.at(0));
	auto *clk = c.createClock<hlim::RootClock>("clk", hlim::ClockRational(1000, 1));
	clk->getRegAttribs().resetType = cs.par.at(2) == "S" ? hlim::RegisterAttributes::ResetType::SYNCHRONOUS : hlim::RegisterAttributes::ResetType::ASYNCHRONOUS;
	clk->getRegAttribs().resetActive = cs.par.at(3) == "H" ? hlim::RegisterAttributes::Active::HIGH : hlim::RegisterAttributes::Active::LOW;
	auto *n = c.createNode<R>(); n->moveToGroup(c.getRootNodeGroup()); n->setClock(clk);
	n->connectInput(R::DATA, mkConst(c, std::string(w, '0'), false));
	n->connectInput(R::ENABLE, mkConst(c, "1", true));
	if (cs.par.at(1) != "-") n->connectInput(R::RESET_VALUE, mkConst(c, cs.par.at(1).substr(1), false));
	sim::SimulatorCallbacks cb;
	Layout L(seed);
	size_t inData = L.alloc(w), inEn = L.alloc(1);
	size_t internal[R::NUM_INTERNALS];
	internal[R::INT_DATA] = L.alloc(w); internal[R::INT_ENABLE] = L.alloc(1); internal[R::INT_IN_RESET] = L.alloc(1);
	size_t out[1] = { L.alloc(w) };
	// initial state: everything undefined, not in reset (the model's initial state)
	L.state.clearRange(DC::DEFINED, internal[R::INT_DATA], w); L.state.clearRange(DC::DEFINED, internal[R::INT_ENABLE], 1);
	L.state.clearRange(DC::DEFINED, out[0], w); L.state.set(DC::VALUE, internal[R::INT_IN_RESET], false);
	std::string res;
	for (auto &opStr : cs.opsRaw) {
		auto f = split(opStr, ':');
		if (f.at(0) == "P") n->simulatePowerOn(cb, L.state, internal, out);
		else if (f[0] == "A") n->simulateAdvance(cb, L.state, internal, out, 0);
		else if (f[0] == "R") n->simulateResetChange(cb, L.state, internal, out, 0, f.at(1) == "1");
		else if (f[0] == "E") {
			size_t in[R::NUM_INPUTS] = { ~0ull, ~0ull, ~0ull };
			Operand d = parseOperand(f.at(1)), e = parseOperand(f.at(2));
			if (d.connected) { writeBits(L.state, inData, d.bits); in[R::DATA] = inData; }
			if (e.connected) { writeBits(L.state, inEn, e.bits); in[R::ENABLE] = inEn; }
			n->simulateEvaluate(cb, L.state, internal, in, out);
		} else throw std::runtime_error("bad reg op " + opStr);
		if (!res.empty()) res += " ";
		res += outBits(L.state, internal[R::INT_DATA], w) + "," + outBits(L.state, internal[R::INT_ENABLE], 1) + ","
			+ (L.state.get(DC::VALUE, internal[R::INT_IN_RESET]) ? "1" : "0") + "," + outBits(L.state, out[0], w);
	}
	return res;
}

int main(int argc, char **argv) {
	if (argc < 4) { fprintf(stderr, "usage: C03_node <direct|static> <cases> <out> [seed]\n"); return 2; }
	std::string mode = argv[1];
	std::ifstream in(argv[2]);
	std::ofstream out(argv[3]);
	uint64_t seed = argc > 4 ? strtoull(argv[4], nullptr, 10) : vh::envSeed();
	if (!in || !out) { fprintf(stderr, "cannot open files\n"); return 2; }
	std::string line; size_t idx = 0;
	while (std::getline(in, line)) {
		if (line.empty() || line[0] == '#') { continue; }
		std::string res;
		try {
			auto bar = line.find('|');
			if (bar == std::string::npos) throw std::runtime_error("no | in case");
			auto head = split(line.substr(0, bar)); auto ops = split(line.substr(bar + 1));
			Case cs; cs.kind = head.at(0); cs.par.assign(head.begin() + 1, head.end()); cs.opsRaw = ops;
			if (cs.kind == "reg") res = mode == "direct" ? runReg(cs, seed * 1000003ull + idx) : "SKIP";
			else res = mode == "direct" ? runDirect(cs, seed * 1000003ull + idx) : runStatic(cs);
		} catch (const std::exception &e) {
			std::string m = e.what(); for (auto &ch : m) if (ch == '\n' || ch == '\r') ch = ' ';
			res = "EXC " + m.substr(0, 160);
		} catch (...) { res = "EXC unknown"; }
		out << idx << " " << res << "\n";
		out.flush();
		idx++;
	}
	return 0;
}
