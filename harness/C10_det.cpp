// C10 harness: is everything the library produces a function of the DESIGN only, not of heap
// addresses or of the storage order of the nodes?   (runtime differential, DESIGN.md section 6 C10 (B))
//
//   C10_det build <programs|-> <handlist|-|all> <outroot> <tag> <pseed> <prealloc_kb> <nbuilds> <shuffles> <cycles> [stimfile]
//
// For every design (design programs of lib/designgen.py read from <programs>, plus the hand written
// designs named in the comma separated <handlist>) the process performs
//   * <nbuilds> complete constructions  (build index b = 0 .. nbuilds-1)  and
//   * <shuffles> further constructions whose node storage order is permuted before post-processing
//     (variant 1: Circuit::shuffleNodes(), 2: reversed, 3..: seeded random permutations),
// each one: frontend construction -> design.postprocess() -> VHDL export (+ test bench recorder, project
// file, clocks/constraints file) -> simulation with stimuli that are a function of
// (VERIF_SEED, design id) only.  Everything is written below
//       <outroot>/<tag>.<b>/<design>/        resp.   <outroot>/<tag>.s<s>/<design>/
//   export/*            all files the exporter wrote (VHDL, test bench, test vectors, project file ...)
//   files.txt           SynthesisTool::sourceFiles() in the order the project files list them
//   tb.trace            what the simulation process read at the output pins (recorder attached)
//   sim.trace           nd::runTrace pin traces (several stimuli, incl. undefined input bits)
//   waves.vcd           waveform of the first run
//   post.net            dump of the post-processed circuit   (ids; used by the certificate checker)
//   addr.txt            NOT compared: node ids in ADDRESS order before post-processing + counts, to
//                       verify that the heap perturbation really changed the relative address order
// The python side (checks/C10.py) compares the trees of different builds / processes byte for byte.
//
// Heap perturbation: the global operator new is replaced in this translation unit.  While a
// construction runs with perturbation level > 0 every allocation may be preceded by dummy allocations,
// may be served from the *second* of two candidate blocks (so that the next block of that size lands at
// a lower address) and earlier dummies are released at random; between two constructions blocks of
// assorted sizes are allocated and a random half of them is freed in random order, which fills the
// allocator's bins with holes.  Build 0 of a process runs unperturbed (apart from <prealloc_kb>), build 1
// with that random perturbation, builds 2/3/4 from address-sorted pools per size class handed out in
// DESCENDING / ASCENDING / random address order: two objects of one class (two nodes of a kind, two derived
// clocks, two entities) compare oppositely by address in builds 2 and 3, whatever the allocator does.
#include "netdump.h"
#include <gatery/export/vhdl/VHDLExport.h>
#include <gatery/hlim/supportNodes/Node_Default.h>
#include <random>
#include <gatery/export/vhdl/AST.h>
#include <gatery/export/vhdl/Entity.h>
#include <gatery/export/vhdl/Block.h>
#include <gatery/frontend/SynthesisTool.h>
#include <gatery/frontend/ExternalModule.h>
#include <gatery/simulation/waveformFormats/VCDSink.h>
#include <gatery/scl/Fifo.h>
#include <gatery/scl/cdc.h>
#include <gatery/scl/arch/intel/IntelDevice.h>
#include <gatery/scl/arch/xilinx/XilinxDevice.h>
#include <gatery/scl/arch/general/GenericMemory.h>
#include <gatery/scl/synthesisTools/GHDL.h>
#include <gatery/scl/synthesisTools/XilinxVivado.h>
#include <gatery/scl/synthesisTools/IntelQuartus.h>
#include <filesystem>
#include <new>
#include <unistd.h>

using namespace gtry;

// ------------------------------------------------------------------------------------------------
// heap perturbation
// ------------------------------------------------------------------------------------------------
namespace perturb {
	static int level = 0;               // 0 = off
	static thread_local bool mainThread = false;   // only the constructing thread is perturbed (the state below is not thread safe)
	static bool inside = false;
	static uint64_t state = 1;
	static constexpr size_t RING = 8192;
	static void *ring[RING];
	static size_t ringFill = 0;
	static uint64_t nAlloc = 0, nSwapped = 0, nDummy = 0;

	static inline uint64_t next() { uint64_t z = (state += 0x9E3779B97F4A7C15ull); z = (z ^ (z >> 30)) * 0xBF58476D1CE4E5B9ull; z = (z ^ (z >> 27)) * 0x94D049BB133111EBull; return z ^ (z >> 31); }

	// Levels 2..4: SORTED POOLS.  Before the construction a pool of genuine malloc blocks is laid out per 16 byte
	// size class and sorted by address; during the construction a request is served from the pool of its
	// class  - level 2: highest address first (every later object of that class lies BELOW every earlier one),
	//          level 3: lowest address first  (strictly ascending: the exact opposite order),
	//          level 4: a random remaining block.
	// A comparison of two same-class objects (two nodes of one type, two derived clocks, two entities, two
	// node groups ...) by ADDRESS therefore gives opposite answers in the level 2 and the level 3 build,
	// deterministically.  The blocks are ordinary malloc blocks, so free()/delete needs no special case.
	static constexpr size_t NCLASS = 129;      // class c serves sizes (16(c-1), 16c], c = 1..128: up to 2048 bytes (vhdl::Entity is 1104, vhdl::Block 1072)
	struct Pool { void **blk = nullptr; size_t lo = 0, hi = 0; };
	static Pool pools[NCLASS];
	static uint64_t nPooled = 0;
	static int cmpAddr(const void *a, const void *b) { uintptr_t x = (uintptr_t)*(void* const*)a, y = (uintptr_t)*(void* const*)b; return x < y ? -1 : x > y ? 1 : 0; }
	static void fillPools() {
		bool old = inside; inside = true;
		size_t order[NCLASS];
		for (size_t c = 0; c < NCLASS; c++) order[c] = c;
		for (size_t i = NCLASS; i > 1; i--) std::swap(order[i - 1], order[next() % i]);   // which class lies above which also varies
		for (size_t k = 0; k < NCLASS; k++) {
			size_t c = order[k];
			if (c == 0) continue;
			size_t n = c <= 32 ? 1200 : c <= 64 ? 300 : 200;
			Pool &p = pools[c];
			p.blk = (void**)malloc(n * sizeof(void*));
			for (size_t i = 0; i < n; i++) p.blk[i] = malloc(c * 16);
			qsort(p.blk, n, sizeof(void*), cmpAddr);
			p.lo = 0; p.hi = n;
		}
		inside = old;
	}
	static void releasePools() {
		bool old = inside; inside = true;
		for (size_t c = 0; c < NCLASS; c++) {
			Pool &p = pools[c];
			if (!p.blk) continue;
			for (size_t i = p.lo; i < p.hi; i++) free(p.blk[i]);
			free(p.blk); p.blk = nullptr; p.lo = p.hi = 0;
		}
		inside = old;
	}
	// Fresh sorted pools at the start of every PHASE (construction, post-processing, export, simulation): the
	// objects a phase creates itself (post-processing's new nodes, the exporter's vhdl::Entity / Block / Process
	// objects, the simulator's tables) are then served in the descending / ascending / random order as well,
	// instead of meeting pools the earlier phases have already emptied.
	static void phase() {
		if (level < 2) return;
		int l = level; level = 0;
		releasePools(); fillPools();
		level = l;
	}

	static void *allocPooled(size_t sz) {
		size_t c = (sz + 15) / 16;
		if (c < NCLASS) {
			Pool &p = pools[c];
			if (p.blk && p.lo < p.hi) {
				nPooled++;
				if (level == 2) return p.blk[--p.hi];
				if (level == 3) return p.blk[p.lo++];
				size_t k = p.lo + next() % (p.hi - p.lo);
				std::swap(p.blk[k], p.blk[p.hi - 1]);
				return p.blk[--p.hi];
			}
		}
		return malloc(sz);
	}

	static void *alloc(size_t sz) {
		if (sz == 0) sz = 1;
		if (level == 0 || inside || !mainThread) return malloc(sz);
		if (level >= 2) { nAlloc++; return allocPooled(sz); }
		inside = true;
		nAlloc++;
		uint64_t r = next();
		void *p = nullptr;
		switch (r & 7) {
			case 0: case 1: {       // two candidates, keep the second: the freed one is handed out next
				void *a = malloc(sz); p = malloc(sz); free(a); nSwapped++;
			} break;
			case 2: {               // three candidates, keep the middle one
				void *a = malloc(sz); p = malloc(sz); void *c = malloc(sz); free(c); free(a); nSwapped++;
			} break;
			case 3: {               // a dummy of unrelated size in front, kept for a while
				void *d = malloc(8 + (r >> 8) % 900); nDummy++;
				if (ringFill < RING) ring[ringFill++] = d; else { size_t k = (r >> 20) % RING; free(ring[k]); ring[k] = d; }
				p = malloc(sz);
			} break;
			case 4: {               // release some earlier dummies first (opens holes of assorted sizes)
				for (int i = 0; i < 3 && ringFill > 0; i++) { size_t k = (next() >> 8) % ringFill; free(ring[k]); ring[k] = ring[--ringFill]; }
				p = malloc(sz);
			} break;
			case 5: {               // a dummy of the SAME size class kept: shifts everything behind it
				void *d = malloc(sz); nDummy++;
				if (ringFill < RING) ring[ringFill++] = d; else { size_t k = (r >> 20) % RING; free(ring[k]); ring[k] = d; }
				p = malloc(sz);
			} break;
			default: p = malloc(sz);
		}
		inside = false;
		return p;
	}
	static void drain() { bool old = inside; inside = true; while (ringFill > 0) free(ring[--ringFill]); inside = old; }

	// between constructions: blocks of assorted sizes, a random half freed in random order
	static std::vector<void*> *kept = nullptr;
	static void scramble(uint64_t seed, size_t kb) {
		bool old = inside; inside = true;
		uint64_t save = state; state = seed * 0x2545F4914F6CDD1Dull + 77;
		if (!kept) kept = new std::vector<void*>();
		// release what the previous scramble kept: more holes
		for (size_t i = 0; i < kept->size(); i++) if (next() & 1) { free((*kept)[i]); (*kept)[i] = nullptr; }
		kept->erase(std::remove(kept->begin(), kept->end(), nullptr), kept->end());
		std::vector<void*> blocks;
		size_t total = 0;
		static const size_t classes[] = { 16, 24, 32, 48, 64, 80, 96, 112, 128, 160, 192, 224, 256, 320, 384, 448, 512, 640, 768, 1024, 1536, 2048 };
		while (total < kb * 1024) {
			size_t sz = classes[next() % (sizeof(classes) / sizeof(classes[0]))] + (next() % 3) * 8;
			blocks.push_back(malloc(sz)); total += sz;
		}
		for (size_t i = blocks.size(); i > 1; i--) std::swap(blocks[i - 1], blocks[next() % i]);
		for (size_t i = 0; i < blocks.size(); i++) { if (i & 1) free(blocks[i]); else kept->push_back(blocks[i]); }
		state = save; inside = old;
	}
}

void *operator new(std::size_t sz) { void *p = perturb::alloc(sz); if (!p) throw std::bad_alloc(); return p; }
void *operator new[](std::size_t sz) { void *p = perturb::alloc(sz); if (!p) throw std::bad_alloc(); return p; }
void *operator new(std::size_t sz, const std::nothrow_t &) noexcept { return perturb::alloc(sz); }
void *operator new[](std::size_t sz, const std::nothrow_t &) noexcept { return perturb::alloc(sz); }
void operator delete(void *p) noexcept { free(p); }
void operator delete[](void *p) noexcept { free(p); }
void operator delete(void *p, std::size_t) noexcept { free(p); }
void operator delete[](void *p, std::size_t) noexcept { free(p); }
void operator delete(void *p, const std::nothrow_t &) noexcept { free(p); }
void operator delete[](void *p, const std::nothrow_t &) noexcept { free(p); }
static void *alignedAlloc(std::size_t sz, std::align_val_t al) { void *p = nullptr; size_t a = (size_t)al < sizeof(void*) ? sizeof(void*) : (size_t)al; if (posix_memalign(&p, a, sz ? sz : 1) != 0) return nullptr; return p; }
void *operator new(std::size_t sz, std::align_val_t al) { void *p = alignedAlloc(sz, al); if (!p) throw std::bad_alloc(); return p; }
void *operator new[](std::size_t sz, std::align_val_t al) { void *p = alignedAlloc(sz, al); if (!p) throw std::bad_alloc(); return p; }
void *operator new(std::size_t sz, std::align_val_t al, const std::nothrow_t &) noexcept { return alignedAlloc(sz, al); }
void *operator new[](std::size_t sz, std::align_val_t al, const std::nothrow_t &) noexcept { return alignedAlloc(sz, al); }
void operator delete(void *p, std::align_val_t) noexcept { free(p); }
void operator delete[](void *p, std::align_val_t) noexcept { free(p); }
void operator delete(void *p, std::size_t, std::align_val_t) noexcept { free(p); }
void operator delete[](void *p, std::size_t, std::align_val_t) noexcept { free(p); }
void operator delete(void *p, std::align_val_t, const std::nothrow_t &) noexcept { free(p); }
void operator delete[](void *p, std::align_val_t, const std::nothrow_t &) noexcept { free(p); }

// ------------------------------------------------------------------------------------------------
// design programs: lib/designgen.py statements + memories + partitions
// ------------------------------------------------------------------------------------------------
// `u = UIntDefault(v)` would pick UInt's converting constructor (an unsized temporary); the default assignment of
// vectors is BaseBitVector::operator=(const BaseBitVectorDefault&).  The constant is given the signal's width.
static void vecDefault(UInt &u, uint64_t value) {
	std::string lit = std::to_string(u.width().value) + "b";
	for (size_t i = u.width().value; i-- > 0; ) lit += ((value >> i) & 1) ? '1' : '0';
	u.SliceableBitVector<UInt, UIntDefault>::operator=(UIntDefault(lit.c_str()));
}

// Target devices.  `spec` is  "intel|xilinx" ":" ( "custom=" KEY{+KEY} | "device=" STRING | "family=" NAME )
// e.g. intel:custom=M9K+M20K  (two block RAM primitives of the SAME size category: technology mapping has to choose),
// xilinx:device=XCKU035-1FBVA900C.  The device object and its primitive descriptions are allocated here, i.e. under
// the heap perturbation of the running construction.
static scl::arch::FPGADevice *g_device = nullptr;
static void setDevice(const std::string &spec) {
	auto colon = spec.find(':');
	std::string vendor = spec.substr(0, colon), rest = colon == std::string::npos ? std::string() : spec.substr(colon + 1);
	std::string yaml = "vendor: " + vendor + "\n";
	auto eq = rest.find('=');
	std::string kind = rest.substr(0, eq), val = eq == std::string::npos ? std::string() : rest.substr(eq + 1);
	for (auto &c : val) if (c == '_') c = ' ';
	if (kind == "custom") {
		yaml += "custom_composition:\n";
		std::istringstream ks(val); std::string k;
		while (std::getline(ks, k, '+')) if (!k.empty()) yaml += "  " + k + ": true\n";
	} else if (kind == "device") yaml += "device: \"" + val + "\"\n";
	else if (kind == "family") yaml += "family: \"" + val + "\"\n";
	utils::ConfigTree config(YAML::Load(yaml));
	std::unique_ptr<scl::arch::FPGADevice> dev;
	if (vendor == "intel") { auto d = std::make_unique<scl::IntelDevice>(); d->fromConfig(config); dev = std::move(d); }
	else { auto d = std::make_unique<scl::XilinxDevice>(); d->fromConfig(config); dev = std::move(d); }
	g_device = dev.get();
	DesignScope::get()->setTargetTechnology(std::move(dev));
}

class InterpX : public nd::Interp {
public:
	bool partitions = false;
	std::vector<std::unique_ptr<Memory<UInt>>> mems;
	std::map<std::string, size_t> memIdx;
	std::map<std::string, std::unique_ptr<Clock>> clocks;
	std::vector<std::unique_ptr<ClockScope>> clkStack;
	static ClockConfig clockCfg(const std::vector<std::string> &t, size_t from) {
		ClockConfig cfg;
		for (size_t i = from; i < t.size(); i++) {
			auto eq = t[i].find('=');
			std::string k = t[i].substr(0, eq), v = eq == std::string::npos ? std::string() : t[i].substr(eq + 1);
			if (k == "rstname") cfg.resetName = v;
			else if (k == "active") cfg.resetActive = v == "low" ? ClockConfig::ResetActive::LOW : ClockConfig::ResetActive::HIGH;
			else if (k == "rst") cfg.resetType = v == "async" ? ClockConfig::ResetType::ASYNCHRONOUS : v == "none" ? ClockConfig::ResetType::NONE : ClockConfig::ResetType::SYNCHRONOUS;
			else if (k == "trig") cfg.triggerEvent = v == "falling" ? ClockConfig::TriggerEvent::FALLING : ClockConfig::TriggerEvent::RISING;
			else if (k == "name") cfg.name = v;      // a named derived clock gets its own clock pin
			else if (k == "mult") { auto sl = v.find('/'); cfg.frequencyMultiplier = hlim::ClockRational(std::stoull(v.substr(0, sl)), sl == std::string::npos ? 1 : std::stoull(v.substr(sl + 1))); }
			else throw std::runtime_error("unknown clock option " + t[i]);
		}
		return cfg;
	}
	virtual void stmt(const std::vector<std::string> &t) override {
		const std::string &op = t[0];
		auto setU = [&](const std::string &n, const UInt &v) { auto p = std::make_shared<nd::Val>(); p->v.emplace<UInt>(v); b.vars[n] = p; };
		if (op == "device") {         // device SPEC   (see setDevice; first statement of a program)
			setDevice(t[1]);
		} else if (op == "regb") {    // regb NAME SRC : register that may be retimed backwards (into a memory's read port)
			auto p = std::make_shared<nd::Val>(); p->v.emplace<UInt>(reg(asU(t[2]), {.allowRetimingBackward = true})); b.vars[t[1]] = p;
		} else if (op == "mem") {            // mem NAME depth width [zero] [type=small|medium|large] [lat=N]
			mems.push_back(std::make_unique<Memory<UInt>>(std::stoull(t[2]), UInt(BitWidth(std::stoull(t[3])))));
			mems.back()->setName(t[1]);
			MemType mt = MemType::DONT_CARE; size_t lat = ~0ull; bool typed = false;
			for (size_t i = 4; i < t.size(); i++) {
				if (t[i] == "zero") mems.back()->initZero();
				else if (t[i].rfind("type=", 0) == 0) { typed = true; std::string v = t[i].substr(5); mt = v == "small" ? MemType::SMALL : v == "medium" ? MemType::MEDIUM : v == "large" ? MemType::LARGE : MemType::DONT_CARE; }
				else if (t[i].rfind("lat=", 0) == 0) { typed = true; lat = std::stoull(t[i].substr(4)); }
			}
			if (typed) { if (lat != ~0ull) mems.back()->setType(mt, lat); else mems.back()->setType(mt); }
			memIdx[t[1]] = mems.size() - 1;
		} else if (op == "memwrite") { // memwrite MEM ADDR DATA [COND]
			auto &m = *mems.at(memIdx.at(t[1]));
			if (t.size() > 4) { IF (asB(t[4])) m[asU(t[2])] = asU(t[3]); }
			else m[asU(t[2])] = asU(t[3]);
		} else if (op == "memread") {  // memread NAME MEM ADDR
			auto &m = *mems.at(memIdx.at(t[2]));
			UInt x = m[asU(t[3])];
			setU(t[1], x);
		} else if (op == "defb") {     // defb NAME 0|1|x      : Bit NAME = BitDefault(v)  (a never driven bit with a default, constructed IN PLACE)
			auto p = std::make_shared<nd::Val>(); p->v.emplace<Bit>();
			p->b() = BitDefault(t[2] == "1" ? '1' : t[2] == "0" ? '0' : 'x');
			b.vars[t[1]] = p;
		} else if (op == "defu") {     // defu NAME WIDTH VALUE : UInt NAME = WIDTH; NAME = UIntDefault(VALUE)
			auto p = std::make_shared<nd::Val>(); p->v.emplace<UInt>(bw(t[2]));
			vecDefault(p->u(), std::stoull(t[3]));
			b.vars[t[1]] = p;
		} else if (op == "fwdb") {     // fwdb NAME : forward declared bit (read before it is assigned); fwdu NAME WIDTH
			auto p = std::make_shared<nd::Val>(); p->v.emplace<Bit>(); b.vars[t[1]] = p;
		} else if (op == "fwdu") {
			auto p = std::make_shared<nd::Val>(); p->v.emplace<UInt>(bw(t[2])); b.vars[t[1]] = p;
		} else if (op == "defagain") { // defagain NAME VALUE : NAME = BitDefault / UIntDefault(VALUE) on the EXISTING signal object
			nd::Val &d = get(t[1]);
			if (d.isBit()) d.b() = BitDefault(t[2] == "1" ? '1' : t[2] == "0" ? '0' : 'x');
			else vecDefault(d.u(), std::stoull(t[2]));
		} else if (op == "defsig") {   // defsig NAME SRC : NAME = Default(SRC) - the default is another signal
			nd::Val &d = get(t[1]);
			if (d.isBit()) d.b() = BitDefault(asB(t[2]));
			else d.u().SliceableBitVector<UInt, UIntDefault>::operator=(UIntDefault(asU(t[2])));
		} else if (op == "dclock") {   // dclock NAME PARENT|base [name=PIN] [rstname=X] [active=low] [rst=sync|async|none] [trig=falling] [mult=N/D]
			ClockConfig cfg = clockCfg(t, 3);
			Clock parent = t[2] == "base" ? ClockScope::getClk() : *clocks.at(t[2]);
			clocks[t[1]] = std::make_unique<Clock>(parent.deriveClock(cfg));
		} else if (op == "rclock") {   // rclock NAME FREQ_HZ [options]: a clock with its own clock pin
			ClockConfig cfg = clockCfg(t, 3); cfg.name = t[1]; cfg.absoluteFrequency = hlim::ClockRational(std::stoull(t[2]), 1);
			clocks[t[1]] = std::make_unique<Clock>(cfg);
		} else if (op == "clk") {      // clk NAME ... endclk : registers / memory ports created in between belong to that clock
			clkStack.push_back(std::make_unique<ClockScope>(*clocks.at(t[1])));
		} else if (op == "endclk") {
			if (clkStack.empty()) throw std::runtime_error("endclk");
			clkStack.pop_back();
		} else if (op == "area") {
			nd::Interp::stmt(t);
			if (partitions && t.size() > 2 && t[2] == "entity") groupStack.back()->setPartition(true);
		} else if (op == "omode" || op == "tool" || op == "clockcfg") {
		} else nd::Interp::stmt(t);
	}
};

// ------------------------------------------------------------------------------------------------
// hand written designs reaching the loci named in the property (memories + RMW hazard logic,
// retiming with enable conjunctions, negative registers, hierarchy / partitions, several clocks,
// scl FIFOs).  Each returns the output mode it wants to be exported with.
// ------------------------------------------------------------------------------------------------
struct HandDesign { const char *name; const char *omode; const char *tool; std::function<void()> build; };

static void subEntity(const std::string &name, UInt &v, const Bit &c, bool partition, int depth);
static void subEntity(const std::string &name, UInt &v, const Bit &c, bool partition, int depth) {
	Area area(name, true);
	if (partition) area.setPartition(true);
	UInt a = v;
	HCL_NAMED(a);
	IF (c) a = a + 1; ELSE a = a ^ 1;
	a = reg(a, 0);
	if (depth > 0) {
		subEntity(name + "_in0", a, c, false, depth - 1);
		subEntity(name + "_in1", a, ~c, false, depth - 1);
	}
	UInt r = a;
	HCL_NAMED(r);
	v = r;
}

// One area holding registers (with and without reset value) and memories of MANY clocks that share clock and/or
// reset pins in all combinations: same clock pin + different reset pins / polarities / reset kinds / trigger
// edges, and a second clock pin.  The exporter groups the registers of a block into one clocked process per
// (clock pin, reset pin, edge, reset kind, polarity): process names and their order must not depend on where the
// Clock objects live.  `v` rotates the creation order (= ids) of the clocks and picks where the chains are placed.
static void clockFamily(int v) {
	Clock base = ClockScope::getClk();
	struct Spec { const char *name; ClockConfig cfg; bool ownPin; };
	std::vector<Spec> specs;
	specs.push_back({"ck_rb", { .resetName = "rst_b" }, false});
	specs.push_back({"ck_rc", { .resetName = "rst_c" }, false});
	specs.push_back({"ck_rd_low", { .resetName = "rst_d", .resetActive = ClockConfig::ResetActive::LOW }, false});
	specs.push_back({"ck_re_async", { .resetName = "rst_e", .resetType = ClockConfig::ResetType::ASYNCHRONOUS }, false});
	specs.push_back({"ck_fall", { .triggerEvent = ClockConfig::TriggerEvent::FALLING }, false});
	specs.push_back({"ck_fall_rf", { .resetName = "rst_f", .triggerEvent = ClockConfig::TriggerEvent::FALLING }, false});
	specs.push_back({"ck_named", { .resetName = "rst_n" }, true});
	specs.push_back({"ck_x", { .absoluteFrequency = hlim::ClockRational(50'000'000, 1), .resetName = "rst_x" }, true});
	specs.push_back({"ck_x_ry", { .resetName = "rst_y" }, false});    // derived from ck_x below, shares its pin
	specs.push_back({"ck_norst", { .resetType = ClockConfig::ResetType::NONE }, false});
	std::rotate(specs.begin(), specs.begin() + (v * 2) % 7, specs.begin() + 7);   // creation order of the first seven
	std::vector<Clock> clks;
	std::optional<Clock> ckx;
	for (auto &sp : specs) {
		ClockConfig cfg = sp.cfg;
		if (sp.ownPin) cfg.name = sp.name;      // a NAMED derived clock gets a clock pin of its own, an unnamed one shares its parent's
		if (std::string(sp.name) == "ck_x") { ckx.emplace(cfg); clks.push_back(*ckx); }
		else if (std::string(sp.name) == "ck_x_ry") clks.push_back(ckx->deriveClock(cfg));
		else clks.push_back(base.deriveClock(cfg));
	}
	auto chains = [&](const std::string &prefix, bool withMem) {
		// the chains are emitted in an order unrelated to the creation order of the clocks
		for (size_t k = 0; k < clks.size(); k++) {
			size_t i = (k * 3 + 3) % clks.size();   // 3 is coprime to the number of clocks: a permutation
			std::string n = prefix + specs[i].name;
			ClockScope sc(clks[i]);
			UInt in = pinIn(3_b).setName(n + "_in");
			UInt a = reg(in, 5);            // with reset value
			UInt b = reg(a + 1);            // without
			UInt c = reg(b ^ a, 2);
			setName(c, n + "_c");
			if (withMem && (i % 3) == 0) {
				Bit w = pinIn().setName(n + "_w");
				Memory<UInt> m(4, 3_b);
				m.setName(n + "_m");
				m.initZero();
				UInt ad = c(0, 2_b);
				UInt rd = m[ad];
				IF (w) m[ad] = b;
				c = c ^ reg(rd, 0);
			}
			pinOut(c).setName(n + "_out");
		}
	};
	if (v % 2 == 0) { Area area("fam", true); chains("f_", v >= 2); }
	else chains("r_", v >= 2);
	if (v == 3) { Area area("fam2", true); chains("g_", false); }
	// and the base clock itself
	UInt x = pinIn(2_b).setName("x");
	pinOut(reg(reg(x, 1) + 1)).setName("y");
}

// Node groups of type AREA (GroupScope(AREA): NOT the frontend class Area, which makes ENTITY groups) are exported as
// VHDL BLOCK statements when they contain a sub-entity, an external node or another area, and as a process when
// they hold logic only.  kind 0: area with a sub-entity, 1: area with an external module, 2: area with a nested
// area that holds the sub-entity, 3: logic only.
static void lane(const std::string &name, UInt &v, const Bit &c, int kind) {
	GroupScope area(GroupScope::GroupType::AREA, name);
	UInt a = v + 1;
	setName(a, name + "_a");
	if (kind == 0) subEntity(name + "_ent", a, c, false, 0);
	else if (kind == 1) {
		ExternalModule ext{ "EXT_" + name, "work" };
		ext.in("d", a.width()) = (BVec) a;
		UInt y = a ^ 1;
		UInt ex = (UInt) ext.out("q", a.width());
		setName(ex, name + "_extq");
		y.exportOverride(ex);
		a = y;
	} else if (kind == 2) {
		GroupScope inner(GroupScope::GroupType::AREA, name + "_inner");
		UInt b = a ^ v;
		subEntity(name + "_deep", b, ~c, false, 0);
		a = b + 1;
	} else {
		IF (c) a = a + v; ELSE a = a & v;
	}
	a = reg(a ^ v, 0);
	setName(a, name + "_r");
	v = a;
}

static void areaFamily(int v) {
	UInt x = pinIn(3_b).setName("x");
	Bit c = pinIn().setName("c");
	static const int kinds[4][6] = { {0, 0, 3, 1, 2, 0}, {2, 0, 0, 3, 0, 1}, {0, 1, 0, 2, 3, 0}, {0, 0, 0, 0, 0, 0} };
	std::vector<std::string> names = { "lane_a", "lane_b", "lane_c", "lane_d", "lane_e", "lane_f" };
	std::rotate(names.begin(), names.begin() + v, names.end());
	UInt acc = x;
	// sibling areas in the root entity, next to an entity instantiation and a plain process area
	for (int k = 0; k < 4; k++) { UInt t = x + k; lane(names[k], t, c, kinds[v][k]); acc = acc ^ t; }
	{ UInt t = x; subEntity("direct_ent", t, c, false, 0); acc = acc + t; }
	// ... and the same inside a sub-entity
	{
		Area sub("holder", true);
		UInt s = x ^ 5;
		for (int k = 4; k < 6; k++) { UInt t = s + k; lane(names[k], t, ~c, kinds[v][k]); s = s ^ t; }
		{ UInt t = s; lane("holder_lane_g", t, c, 0); s = s + t; }
		acc = acc ^ s;
	}
	pinOut(acc).setName("acc");
}

// Default values: `x = BitDefault(v)` creates a Node_Default that yields v exactly if x is otherwise left undriven
// (its input loops back to itself).  Post-processing resolves the default nodes one after the other; with several
// defaults on ONE never driven signal the first specified one wins - if they are visited in creation (id) order.
struct HandshakeWithDefaults {
	Bit ready = BitDefault('1');        // the struct's own default
	Bit valid = BitDefault('0');
	UInt data = 3_b;
};
static void genericSink(HandshakeWithDefaults &h, const Bit &stall, bool overrideReady) {
	h.ready = BitDefault('0');          // generic code gives the same never driven signal another default
	if (overrideReady) { IF (stall) h.ready = '0'; }
}
static void defaultFamily(int v) {
	Bit stall = pinIn().setName("stall"), go = pinIn().setName("go");
	UInt din = pinIn(3_b).setName("din");
	for (int k = 0; k < 3; k++) {
		std::string n = "hs" + std::to_string(k);
		std::optional<Area> area;
		if ((v + k) % 2) area.emplace(n + "_ent", true);
		HandshakeWithDefaults h;
		Bit readyEarly = h.ready;                     // read before anything else happens to it: sees the final value
		h.data = din + k;
		IF (go) h.valid = '1';                        // conditional override of a default
		genericSink(h, stall, (v + k) % 3 == 0);
		if (k == 2) h.valid = go & stall;             // unconditional override: the default is dead
		UInt extra = 2_b;
		vecDefault(extra, 2);
		vecDefault(extra, 1);
		if (k == 1) { IF (stall) extra = 3; }
		UInt q = reg(h.data, 0);
		IF (h.ready & h.valid) q = q + 1;
		pinOut(h.ready).setName(n + "_ready");
		pinOut(readyEarly).setName(n + "_ready_early");
		pinOut(h.valid).setName(n + "_valid");
		pinOut(extra).setName(n + "_extra");
		pinOut(q).setName(n + "_q");
	}
	Bit third = BitDefault('1');
	third = BitDefault('0');
	third = BitDefault('1');
	pinOut(third).setName("third");
}

// Designs exported for a TARGET DEVICE: technology mapping replaces memories (and FIFOs' memories) by the device's
// embedded memory primitives, chosen from a priority list.  Devices assembled through custom_composition may hold
// several primitives of EQUAL priority (same size category); which one serves a memory must not depend on where the
// primitive descriptions were allocated.
static void deviceDesign(const std::string &spec, int shape) {
	setDevice(spec);
	auto ramPort = [](const std::string &n, size_t depth, size_t width, MemType type, size_t lat, bool zero) {
		Memory<UInt> mem(depth, UInt(BitWidth(width)));
		mem.setType(type, lat);
		mem.setName(n);
		if (zero) mem.initZero();
		BitWidth aw = BitWidth::count(depth);
		UInt wrAddr = pinIn(aw).setName(n + "_wr_addr");
		UInt wrData = pinIn(BitWidth(width)).setName(n + "_wr_data");
		Bit wrEn = pinIn().setName(n + "_wr_en");
		UInt rdAddr = pinIn(aw).setName(n + "_rd_addr");
		UInt rdData = mem[rdAddr];
		IF (wrEn) mem[wrAddr] = wrData;
		for (size_t i = 0; i < lat; i++) rdData = reg(rdData, {.allowRetimingBackward = true});
		pinOut(rdData).setName(n + "_rd_data");
	};
	if (shape == 0) ramPort("buffer", 512, 8, MemType::MEDIUM, 1, false);
	else if (shape == 1) { ramPort("bufa", 512, 8, MemType::MEDIUM, 1, false); ramPort("bufb", 1024, 4, MemType::MEDIUM, 2, false); ramPort("tiny", 16, 4, MemType::SMALL, 0, false); }
	else if (shape == 2) { ramPort("lut", 32, 6, MemType::SMALL, 1, false); ramPort("any", 256, 8, MemType::DONT_CARE, 1, false); }
	else if (shape == 3) {
		scl::Fifo<UInt> fifo(64, UInt(8_b), scl::FifoLatency(1));
		Bit push = pinIn().setName("push"), pop = pinIn().setName("pop");
		UInt pushData = pinIn(8_b).setName("push_data");
		IF (push & !fifo.full()) fifo.push(pushData);
		UInt popData = fifo.peek();
		IF (pop & !fifo.empty()) fifo.pop();
		pinOut(fifo.full()).setName("full"); pinOut(fifo.empty()).setName("empty"); pinOut(popData).setName("pop_data");
		fifo.generate();
		ramPort("side", 512, 8, MemType::MEDIUM, 1, false);
	} else { ramPort("big", 2048, 16, MemType::LARGE, 2, false); ramPort("mid", 512, 9, MemType::MEDIUM, 1, false); }
}

static std::vector<HandDesign> handDesigns() {
	std::vector<HandDesign> res;
	res.push_back({"h_dev_intel_m9k_m20k", "entity", "quartus", [] { deviceDesign("intel:custom=M9K+M20K", 0); }});
	res.push_back({"h_dev_intel_m20k_m9k_mlab", "entity", "quartus", [] { deviceDesign("intel:custom=MLAB+M20K+M9K+M20KStratix10Agilex", 1); }});
	res.push_back({"h_dev_intel_fifo", "single", "quartus", [] { deviceDesign("intel:custom=M20K+M20KStratix10Agilex+MLAB", 3); }});
	res.push_back({"h_dev_intel_builtin", "entity", "quartus", [] { deviceDesign("intel:device=10CX220YF780I5G", 1); }});
	res.push_back({"h_dev_intel_agilex", "single", "default", [] { deviceDesign("intel:family=Agilex", 4); }});
	res.push_back({"h_dev_xilinx_lutrams", "entity", "vivado", [] { deviceDesign("xilinx:custom=Lutram7Series+LutramUltrascale+BlockramUltrascale", 2); }});
	res.push_back({"h_dev_xilinx_builtin", "entity", "vivado", [] { deviceDesign("xilinx:device=XCKU035-1FBVA900C", 1); }});
	res.push_back({"h_dev_xilinx_fifo", "single", "vivado", [] { deviceDesign("xilinx:custom=LutramUltrascale+Lutram7Series+BlockramUltrascale", 3); }});
	res.push_back({"h_default0", "single", "default", [] { defaultFamily(0); }});
	res.push_back({"h_default1", "entity", "ghdl", [] { defaultFamily(1); }});
	res.push_back({"h_default2", "entity", "vivado", [] { defaultFamily(2); }});
	res.push_back({"h_areafam0", "single", "default", [] { areaFamily(0); }});
	res.push_back({"h_areafam1", "entity", "ghdl", [] { areaFamily(1); }});
	res.push_back({"h_areafam2", "partition", "vivado", [] { areaFamily(2); }});
	res.push_back({"h_areafam3", "entity", "quartus", [] { areaFamily(3); }});
	res.push_back({"h_clockfam0", "single", "default", [] { clockFamily(0); }});
	res.push_back({"h_clockfam1", "entity", "ghdl", [] { clockFamily(1); }});
	res.push_back({"h_clockfam2", "partition", "vivado", [] { clockFamily(2); }});
	res.push_back({"h_clockfam3", "entity", "quartus", [] { clockFamily(3); }});

	res.push_back({"h_mem_rmw", "single", "default", [] {
		UInt addr = pinIn(4_b).setName("addr");
		UInt data = pinIn(8_b).setName("data");
		Bit enable = pinIn().setName("enable");
		PipeBalanceGroup grp;
		addr = grp(addr); data = grp(data); enable = grp(enable);
		Memory<UInt> mem(16, 8_b);
		mem.setType(MemType::MEDIUM, 1);
		mem.initZero();
		UInt rd = mem[addr];
		rd = pipestage(rd);
		IF (enable) mem[addr] = rd + data;
		pinOut(pipestage(rd)).setName("rd");
	}});

	res.push_back({"h_mem_condwrite", "entity", "vivado", [] {
		UInt input = pinIn(10_b).setName("input");
		Bit wrEn = pinIn().setName("wrEn");
		UInt addr = pinIn(4_b).setName("addr");
		UInt data = input, mem_addr = addr;
		Bit writeEnable = wrEn;
		Bit ready = pinIn().setName("ready");
		Bit in_valid = pinIn().setName("valid");
		Bit valid = in_valid;
		ENIF (ready) {
			PipeBalanceGroup grp;
			data = grp(data); mem_addr = grp(mem_addr); writeEnable = grp(writeEnable); valid = grp(valid, '0');
		}
		Memory<UInt> memory(16, 10_b);
		memory.setType(MemType::DONT_CARE, 1);
		memory.initZero();
		UInt output;
		ENIF (ready & valid) {
			UInt val = memory[mem_addr];
			IF (writeEnable) memory[mem_addr] = val + 1;
			output = val + data;
		}
		output = pipestage(output);
		pinOut(output).setName("output");
		pinOut(valid).setName("output_valid");
	}});

	res.push_back({"h_mem_multi", "entity", "quartus", [] {
		UInt a1 = pinIn(3_b).setName("a1"), a2 = pinIn(3_b).setName("a2"), d = pinIn(6_b).setName("d");
		Bit w1 = pinIn().setName("w1"), w2 = pinIn().setName("w2"), w3 = pinIn().setName("w3");
		Memory<UInt> m1(8, 6_b), m2(8, 6_b), rom(8, 6_b);
		m1.setName("m1"); m2.setName("m2"); rom.setName("rom");
		m1.initZero();
		std::vector<size_t> tab = { 3, 1, 4, 1, 5, 9, 2, 6 };
		rom.fillPowerOnState(sim::createDefaultBitVectorState(8, 6, [&](size_t i, sim::DefaultConfig::BaseType *w) { w[sim::DefaultConfig::VALUE] = tab[i]; w[sim::DefaultConfig::DEFINED] = 63; }));
		UInt r1 = m1[a1];
		UInt r2 = m2[a2];
		UInt r3 = rom[a1 ^ a2];
		IF (w1 & w2) m1[a2] = d;
		IF (w2 & !w3 & w1) m2[a1] = d ^ r1;
		IF (w3) m2[a2] = r3;
		UInt s = reg(r1 + r2) ^ reg(r3);
		pinOut(s).setName("s");
		pinOut(reg(r2, 0)).setName("r2q");
	}});

	res.push_back({"h_mem_wrorder", "single", "default", [] {
		// two write ports that frequently hit the same word in the same cycle: the later one (program order) must win
		UInt a1 = pinIn(1_b).setName("a1"), a2 = pinIn(1_b).setName("a2"), ra = pinIn(1_b).setName("ra");
		UInt d1 = pinIn(3_b).setName("d1"), d2 = pinIn(3_b).setName("d2");
		Bit w1 = pinIn().setName("w1"), w2 = pinIn().setName("w2");
		Memory<UInt> m(2, 3_b);
		m.setName("wm");
		m.initZero();
		UInt r = m[ra];
		IF (w1) m[a1] = d1;
		IF (w2) m[a2] = d2;
		UInt r2 = m[ra];
		pinOut(r).setName("r");
		pinOut(reg(r2)).setName("r2q");
	}});

	res.push_back({"h_retime_enable", "single", "default", [] {
		UInt in1 = pinIn(8_b).setName("in1"), in2 = pinIn(8_b).setName("in2");
		Bit ready = pinIn().setName("ready"), valid = pinIn().setName("valid"), e3 = pinIn().setName("e3");
		UInt a = in1, b = in2;
		Bit v = valid;
		pipeinputgroup(a, b, v);
		ENIF (ready & v) a = reg(a, {.allowRetimingForward = true});
		ENIF (ready) b = reg(b, {.allowRetimingForward = true});
		UInt o = a + b;
		o = pipestage(o);
		UInt c = in1 ^ in2;
		ENIF (ready & !e3 & valid) pipeinputgroup(c);
		UInt p = c * 3 + 1;
		p = pipestage(p);
		p = p ^ c;
		p = pipestage(p);
		pinOut(o).setName("o");
		pinOut(p).setName("p");
	}});

	res.push_back({"h_retime_intersect", "single", "default", [] {
		// the enable suggested for the retimed stage is the INTERSECTION of two conjunctions with two common terms
		UInt in1 = pinIn(6_b).setName("in1"), in2 = pinIn(6_b).setName("in2");
		Bit ready = pinIn().setName("ready"), valid = pinIn().setName("valid"), e3 = pinIn().setName("e3"), e4 = pinIn().setName("e4");
		UInt d = in1 + 1, e = in2 + 2, f = in1 ^ in2;
		ENIF (ready & valid & e3) d = reg(d, {.allowRetimingForward = true});
		ENIF (valid & ready) e = reg(e, {.allowRetimingForward = true});
		ENIF (e4 & valid & !e3 & ready) f = reg(f, {.allowRetimingForward = true});
		UInt q = (d ^ e) + f;
		q = pipestage(q);
		pinOut(q).setName("q");
	}});

	res.push_back({"h_retime_hint", "single", "ghdl", [] {
		UInt in1 = pinIn(6_b).setName("in1"), in2 = pinIn(6_b).setName("in2");
		PipeBalanceGroup grp;
		UInt a = grp(in1, 0), b = grp(in2, 0);
		UInt x = a * b;
		x = pipestage(x);
		UInt y = a + b;
		UInt z = (x ^ y) + 1;
		z = pipestage(z); z = pipestage(z);
		pinOut(z).setName("z");
		UInt w = reg(in1 & in2, 0, {.allowRetimingBackward = true}) | in2;
		pinOut(w).setName("w");
	}});

	res.push_back({"h_negreg", "single", "default", [] {
		UInt input1 = pinIn(8_b).setName("input1"), input2 = pinIn(8_b).setName("input2");
		Bit enable = pinIn().setName("enable");
		UInt output;
		UInt a = input1, b = input2;
		ENIF (enable) pipeinputgroup(a, b);
		output = a + b;
		auto [a_prev, enable_a] = negativeReg(a);
		auto [a_prev2, enable_a2] = negativeReg(a_prev);
		auto [b_prev, enable_b] = negativeReg(b);
		ExternalModule fluxCapacitor{ "FLUX_CAPACITOR", "UNISIM", "vcomponents" };
		fluxCapacitor.in("a", a.width()) = (BVec) a_prev2;
		fluxCapacitor.in("b", b.width()) = (BVec) b_prev;
		fluxCapacitor.in("enable_a", {.isEnableSignal = true }) = enable_a;
		fluxCapacitor.in("enable_a2", {.isEnableSignal = true }) = enable_a2;
		fluxCapacitor.in("enable_b", {.isEnableSignal = true }) = enable_b;
		UInt exportOutput = (UInt) fluxCapacitor.out("O", a.width());
		HCL_NAMED(exportOutput);
		output.exportOverride(exportOutput);
		pinOut(output).setName("output");
	}});

	res.push_back({"h_hier_partition", "partition", "ghdl", [] {
		UInt x = pinIn(5_b).setName("x");
		Bit c = pinIn().setName("c");
		UInt v = x;
		subEntity("pa", v, c, true, 1);
		UInt w = x + 1;
		subEntity("pb", w, ~c, true, 1);
		UInt u = x ^ 9;
		subEntity("pc", u, c, true, 0);
		UInt t = v ^ w;
		subEntity("pd", t, c, true, 0);
		UInt q = u + t;
		subEntity("plain", q, c, false, 1);
		pinOut(v).setName("v"); pinOut(w).setName("w"); pinOut(q).setName("q");
	}});

	res.push_back({"h_hier_entity", "entity", "vivado", [] {
		UInt x = pinIn(4_b).setName("x");
		Bit c = pinIn().setName("c");
		UInt acc = x;
		for (int i = 0; i < 4; i++) {            // four instances of structurally identical entities
			UInt v = x + (i & 1);
			subEntity("stage", v, c, false, 1);
			acc = acc ^ v;
		}
		pinOut(acc).setName("acc");
	}});

	res.push_back({"h_multiclock", "entity", "quartus", [] {
		Clock clkA = ClockScope::getClk();
		Clock clkB({ .absoluteFrequency = 75'000'000, .name = "clkB" });
		Clock clkC = clkA.deriveClock({ .frequencyMultiplier = hlim::ClockRational(1, 2), .name = "clkC" });
		UInt x = pinIn(4_b).setName("x");
		Bit e = pinIn().setName("e");
		UInt r = reg(x, 0);
		UInt cnt = 4_b; cnt = reg(cnt + 1, 0);
		pinOut(cnt).setName("cntA");
		{
			ClockScope sb(clkB);
			UInt y = allowClockDomainCrossing(r, clkA, clkB);
			y = reg(reg(y, 0), 0);
			Bit eb = scl::synchronize(e, clkA, clkB);
			UInt cb = 3_b; IF (eb) cb = cb + 1; cb = reg(cb, 0);
			pinOut(y).setName("yB"); pinOut(cb).setName("cntB");
		}
		{
			ClockScope sc(clkC);
			UInt z = allowClockDomainCrossing(r, clkA, clkC);
			z = reg(z + 1, 0);
			pinOut(z).setName("zC");
		}
	}});

	res.push_back({"h_fifo", "entity", "ghdl", [] {
		scl::Fifo<UInt> fifo(8, UInt(6_b), scl::FifoLatency(1));
		Bit push = pinIn().setName("push"), pop = pinIn().setName("pop");
		UInt pushData = pinIn(6_b).setName("push_data");
		IF (push & !fifo.full()) fifo.push(pushData);
		UInt popData = fifo.peek();
		IF (pop & !fifo.empty()) fifo.pop();
		pinOut(fifo.full()).setName("full");
		pinOut(fifo.empty()).setName("empty");
		pinOut(popData).setName("pop_data");
		pinOut(fifo.almostFull(4)).setName("half_full");
		fifo.generate();
	}});

	res.push_back({"h_dcfifo", "entity", "vivado", [] {
		Clock rdClk = ClockScope::getClk();
		Clock wrClk({ .absoluteFrequency = 133'000'000, .name = "wrClk" });
		scl::Fifo<UInt> fifo(16, UInt(5_b), scl::FifoLatency::DontCare());
		{
			ClockScope s(wrClk);
			Bit push = pinIn().setName("push");
			UInt pushData = pinIn(5_b).setName("push_data");
			IF (push & !fifo.full()) fifo.push(pushData);
			pinOut(fifo.full()).setName("full");
		}
		{
			ClockScope s(rdClk);
			Bit pop = pinIn().setName("pop");
			UInt popData = fifo.peek();
			IF (pop & !fifo.empty()) fifo.pop();
			pinOut(popData).setName("pop_data");
			pinOut(fifo.empty()).setName("empty");
		}
		fifo.generate();
	}});

	res.push_back({"h_small_hier", "partition", "ghdl", [] {
		// small enough for the verified certificate checker: 3 input bits, 6 register bits
		UInt x = pinIn(2_b).setName("x");
		Bit c = pinIn().setName("c");
		UInt v = x;
		subEntity("sa", v, c, true, 0);
		UInt w = x ^ v;
		subEntity("sb", w, ~c, true, 0);
		UInt u = v + w;
		subEntity("sc", u, c, false, 0);
		pinOut(v).setName("v"); pinOut(w).setName("w"); pinOut(u).setName("u");
	}});

	res.push_back({"h_wide_logic", "single", "default", [] {
		// many equal-shaped nodes created in an interleaved order: stresses statement ordering in processes
		std::vector<UInt> v;
		for (int i = 0; i < 6; i++) v.push_back(pinIn(3_b).setName("i" + std::to_string(i)));
		Bit s = pinIn().setName("s");
		std::vector<UInt> acc(4, UInt(ConstUInt(0, 3_b)));
		for (int r = 0; r < 5; r++)
			for (int k = 0; k < 4; k++) {
				UInt t = v[(r + k) % 6] ^ v[(r * 2 + k + 1) % 6];
				IF (s) t = t + v[k]; ELSE t = t & v[5 - k];
				setName(t, "t_" + std::to_string(r) + "_" + std::to_string(k));
				acc[k] = acc[k] + t;
				if (r == 2) acc[k] = reg(acc[k], 0);
			}
		for (int k = 0; k < 4; k++) pinOut(acc[k]).setName("acc" + std::to_string(k));
	}});

	return res;
}

// ------------------------------------------------------------------------------------------------
static std::string randBits(vh::Rng &rng, size_t w, int mode) {
	std::string s(w, '0');
	for (auto &c : s) {
		uint64_t r = rng.below(100);
		if (mode == 0) c = (r & 1) ? '1' : '0';
		else if (mode == 1) c = r < 15 ? 'X' : (r & 1) ? '1' : '0';
		else c = r < 60 ? 'X' : (r & 1) ? '1' : '0';
	}
	return s;
}

static void setPin(sim::Simulator &sim, hlim::Node_Pin *pin, const std::string &s) {
	size_t w = pin->getConnectionType().width;
	sim::ExtendedBitVectorState st; st.resize(w);
	for (size_t k = 0; k < w; k++) {
		char ch = k < s.size() ? s[s.size() - 1 - k] : 'X';
		st.set(sim::ExtendedConfig::DEFINED, k, ch == '0' || ch == '1');
		st.set(sim::ExtendedConfig::VALUE, k, ch == '1');
		st.set(sim::ExtendedConfig::DONT_CARE, k, false);
		st.set(sim::ExtendedConfig::HIGH_IMPEDANCE, k, false);
	}
	sim.simProcSetInputPin(pin, st);
}

// FNV-1a: std::hash is implementation defined, the stimuli must not depend on it
static uint64_t strHash(const std::string &s) { uint64_t h = 1469598103934665603ull; for (unsigned char c : s) { h ^= c; h *= 1099511628211ull; } return h; }

static std::map<std::string, std::vector<std::vector<std::string>>> g_fixedStim;   // design id -> extra stimulus (replay of a model counterexample)

struct Job { std::string id; const nd::Program *prog = nullptr; const HandDesign *hand = nullptr; std::string omode; std::string tool = "default"; };

// one complete construction.  `shuffles` = permutation variant of the node storage order applied before postprocess (0 = none).
static bool recordPasses = false;
static bool construct(const Job &job, const std::string &dir, int perturbLevel, uint64_t pseed, size_t shuffles, size_t cycles, std::string &err) {
	namespace fs = std::filesystem;
	const hlim::ClockRational period(1, 100'000'000);
	fs::remove_all(dir);
	fs::create_directories(dir + "/export");
	std::ofstream meta(dir + "/addr.txt");
	uint64_t seed = vh::envSeed();
	bool ok = true;
	try {
		perturb::state = pseed * 0x9E3779B97F4A7C15ull + 12345;
		if (perturbLevel >= 2) perturb::fillPools();
		perturb::level = perturbLevel;
		g_device = nullptr;
		DesignScope design;
		Clock clock({ .absoluteFrequency = 100'000'000 });
		ClockScope cs(clock);
		InterpX in;
		in.partitions = job.omode == "partition";
		if (job.prog) {
			in.run(*job.prog);
			if (in.dropAll) in.b.vars.clear();
		} else job.hand->build();

		// --- diagnostics: relative address order of the nodes / groups / clocks as constructed
		{
			bool old = perturb::inside; perturb::inside = true;
			std::vector<std::pair<uintptr_t, uint64_t>> a;
			for (auto &n : design.getCircuit().getNodes()) a.push_back({ (uintptr_t)n.get(), n->getId() });
			size_t inv = 0;
			for (size_t i = 0; i < a.size(); i++) for (size_t j = i + 1; j < a.size(); j++)
				if ((a[i].second < a[j].second) != (a[i].first < a[j].first)) inv++;
			std::sort(a.begin(), a.end());
			meta << "base " << (a.empty() ? 0 : a.front().first) << "\n";
			meta << "nodes " << a.size() << " inversions " << inv << "\norder";
			for (auto &p : a) meta << " " << p.second;
			meta << "\n";
			// the same for the Clock and NodeGroup objects (ids are creation order)
			std::vector<std::pair<uintptr_t, uint64_t>> c;
			for (auto &k : design.getCircuit().getClocks()) c.push_back({ (uintptr_t)k.get(), k->getId() });
			size_t cinv = 0;
			for (size_t i = 0; i < c.size(); i++) for (size_t j = i + 1; j < c.size(); j++)
				if ((c[i].second < c[j].second) != (c[i].first < c[j].first)) cinv++;
			std::sort(c.begin(), c.end());
			if (g_device) {
				// embedded memory primitive descriptions of the target device
				// (by TYPE in ADDRESS order: independent of the order of the list itself)
				std::vector<std::pair<uintptr_t, std::string>> ea;
				for (auto &m : g_device->getEmbeddedMemories().getList()) { auto &ref = *m; ea.push_back({ (uintptr_t)m.get(), typeid(ref).name() }); }
				std::sort(ea.begin(), ea.end());
				meta << "embmems " << ea.size() << " byaddress";
				for (auto &x : ea) meta << " " << x.second;
				meta << "\n";
			}
			meta << "clocks " << c.size() << " inversions " << cinv << "\nclockorder";
			for (auto &p : c) meta << " " << p.second;
			meta << "\n";
			perturb::inside = old;
		}

		{
			// diagnostics: default nodes, and how many of them have ANOTHER default node in their (combinational) input cone
			bool old = perturb::inside; perturb::inside = true;
			size_t nDef = 0, nChained = 0;
			for (auto &n : design.getCircuit().getNodes()) {
				auto *d = dynamic_cast<hlim::Node_Default*>(n.get());
				if (!d) continue;
				nDef++;
				std::set<hlim::BaseNode*> seen; std::vector<hlim::BaseNode*> stack;
				if (d->getDriver(0).node) stack.push_back(d->getDriver(0).node);
				bool chained = false;
				while (!stack.empty() && !chained && seen.size() < 4000) {
					auto *x = stack.back(); stack.pop_back();
					if (!seen.insert(x).second) continue;
					if (x != d && dynamic_cast<hlim::Node_Default*>(x)) { chained = true; break; }
					if (x == d) continue;
					for (size_t i = 0; i < x->getNumInputPorts(); i++) if (x->getDriver(i).node) stack.push_back(x->getDriver(i).node);
				}
				nChained += chained;
			}
			meta << "defaults " << nDef << " chained " << nChained << "\n";
			perturb::inside = old;
		}
		// node storage order:  1 = Circuit::shuffleNodes() (fixed default-seeded mt19937),  2 = REVERSED,
		// >= 3 = random permutations seeded by (VERIF_SEED, design, variant)
		if (shuffles == 1) design.getCircuit().shuffleNodes();
		else if (shuffles >= 2) {
			auto &nodes = const_cast<std::vector<std::unique_ptr<hlim::BaseNode>>&>(design.getCircuit().getNodes());
			if (shuffles == 2) std::reverse(nodes.begin(), nodes.end());
			else {
				std::mt19937_64 rng(seed * 1000003ull + strHash(job.id) * 131ull + shuffles);
				for (size_t i = nodes.size(); i > 1; i--) std::swap(nodes[i - 1], nodes[rng() % i]);
			}
		}
		std::ofstream passes;
		if (recordPasses) {
			// id-free structural fingerprint of the circuit after every post-processing pass (pass-boundary hook H1)
			passes.open(dir + "/passes.txt");
			size_t idx = 0;
			hlim::g_verifPassHook = [&passes, &idx](hlim::Circuit &c, const char *name) {
				bool old = perturb::inside; perturb::inside = true;
				std::vector<uint64_t> hs;
				for (auto &n : c.getNodes()) {
					std::string t = n->getTypeName();
					t += "/" + std::to_string(n->getNumInputPorts()) + "/" + std::to_string(n->getNumOutputPorts());
					for (size_t o = 0; o < n->getNumOutputPorts(); o++) t += ":" + std::to_string(n->getOutputConnectionType(o).width) + "u" + std::to_string(n->getDirectlyDriven(o).size());
					if (auto *k = dynamic_cast<hlim::Node_Constant*>(n.get())) t += "=" + nd::bitsOrE(k->getValue());
					for (size_t i = 0; i < n->getNumInputPorts(); i++) {
						auto d = n->getDriver(i);
						t += "<";
						if (d.node) { t += d.node->getTypeName(); t += "." + std::to_string(d.port); if (auto *k = dynamic_cast<hlim::Node_Constant*>(d.node)) t += "=" + nd::bitsOrE(k->getValue()); }
					}
					hs.push_back(strHash(t));
				}
				std::sort(hs.begin(), hs.end());
				uint64_t h = 1469598103934665603ull;
				for (auto x : hs) { h ^= x; h *= 1099511628211ull; }
				passes << idx++ << " " << name << " " << h << " " << hs.size() << "\n";
				perturb::inside = old;
			};
		}
		perturb::phase();
		try { design.postprocess(); } catch (...) { hlim::g_verifPassHook = nullptr; throw; }
		hlim::g_verifPassHook = nullptr;

		auto pins = nd::findPins(design.getCircuit());
		size_t nStim = 3;
		std::vector<std::vector<std::vector<std::string>>> stims;
		for (size_t k = 0; k < nStim; k++) {
			vh::Rng rng(seed * 1000003ull + strHash(job.id) * 31ull + k);
			std::vector<std::vector<std::string>> stim(cycles);
			for (auto &cyc : stim) for (auto *p : pins.ins) cyc.push_back(randBits(rng, p->getConnectionType().width, (int)(k % 3)));
			stims.push_back(stim);
		}
		if (auto it = g_fixedStim.find(job.id); it != g_fixedStim.end()) stims.push_back(it->second);

		{
			// relative destination: nothing written may depend on where the tree lives
			fs::path old = fs::current_path();
			fs::current_path(dir);
			{
				sim::ReferenceSimulator sim(false);
				std::unique_ptr<vhdl::VHDLExport> vhdl;
				if (job.omode == "single") vhdl = std::make_unique<vhdl::VHDLExport>(fs::path("export") / "design.vhd");
				else vhdl = std::make_unique<vhdl::VHDLExport>(fs::path("export"));
				if (job.omode == "entity") vhdl->outputMode(vhdl::OutputMode::FILE_PER_ENTITY);
				else if (job.omode == "partition") vhdl->outputMode(vhdl::OutputMode::FILE_PER_PARTITION);
				else vhdl->outputMode(vhdl::OutputMode::SINGLE_FILE);
				if (job.tool == "ghdl") vhdl->targetSynthesisTool(new GHDL());
				else if (job.tool == "vivado") vhdl->targetSynthesisTool(new XilinxVivado());
				else if (job.tool == "quartus") vhdl->targetSynthesisTool(new IntelQuartus());
				vhdl->addTestbenchRecorder(sim, "testbench", false);
				vhdl->writeProjectFile("project.txt");
				vhdl->writeStandAloneProjectFile("standalone.txt");
				vhdl->writeClocksFile("clocks.txt");
				vhdl->writeConstraintsFile("constraints.txt");
				perturb::phase();
				(*vhdl)(design.getCircuit());
				{
					// diagnostics: relative ADDRESS order of the exporter's own objects (vhdl::Entity in dependency order,
					// vhdl::Block per entity in creation order) - allocated during the export phase
					bool oldi = perturb::inside; perturb::inside = true;
					auto ents = vhdl->getAST()->getDependencySortedEntities();
					std::vector<uintptr_t> ea, ba;
					size_t maxBlocks = 0;
					for (auto *e : ents) {
						ea.push_back((uintptr_t)e);
						maxBlocks = std::max(maxBlocks, e->getBlocks().size());
						for (auto &b : e->getBlocks()) ba.push_back((uintptr_t)b.get());
					}
					auto rank = [](const std::vector<uintptr_t> &v) { std::string r; for (auto x : v) { size_t k = 0; for (auto y : v) if (y < x) k++; r += " " + std::to_string(k); } return r; };
					meta << "vhdlentities " << ea.size() << " addrrank" << rank(ea) << "\n";
					meta << "vhdlblocks " << ba.size() << " maxperentity " << maxBlocks << " addrrank" << rank(ba) << "\n";
					perturb::inside = oldi;
				}
				perturb::phase();
				{
					std::ofstream fl("files.txt");
					for (auto &f : SynthesisTool::sourceFiles(*vhdl, true, false)) fl << f.string() << "\n";
				}
				{
					std::ofstream net("post.net");
					nd::dumpNetlist(design.getCircuit(), net, job.id, true);
				}
				std::ofstream tbtrace("tb.trace");
				const auto &stim = stims[0];
				auto *simp = &sim;
				auto *tb = &tbtrace;
				sim.addSimulationProcess([=, &stim]() -> SimProcess {
					co_await WaitFor(period / (size_t)4);
					for (size_t cyc = 0; cyc < stim.size(); cyc++) {
						for (size_t i = 0; i < pins.ins.size(); i++)
							setPin(*simp, pins.ins[i], i < stim[cyc].size() ? stim[cyc][i] : std::string());
						co_await WaitFor(Seconds{0});
						*tb << "cy " << cyc << " out";
						for (auto *p : pins.outs) {
							auto drv = p->getDriver(0);
							if (drv.node == nullptr || p->getConnectionType().width == 0) { *tb << " e"; continue; }
							*tb << " " << nd::bitsOrE(simp->simProcGetValueOfOutput(drv));
						}
						*tb << "\n";
						co_await WaitFor(period);
					}
				});
				{
					sim::VCDSink vcd(design.getCircuit(), sim, "waves.vcd");
					vcd.addAllPins();
					vcd.addAllNamedSignals();
					sim.compileProgram(design.getCircuit());
					sim.powerOn();
					sim.advance(period / (size_t)4 + period * stim.size() + period / (size_t)8);
				}
				{
					std::ofstream fl("files_sim.txt");
					for (auto &f : SynthesisTool::sourceFiles(*vhdl, true, true)) fl << f.string() << "\n";
				}
				vhdl.reset();   // flushes the recorder
			}
			fs::current_path(old);
		}
		std::ofstream trace(dir + "/sim.trace");
		for (size_t k = 0; k < stims.size(); k++)
			nd::runTrace(design.getCircuit(), period, stims[k], trace, job.id + " " + std::to_string(k));
		perturb::level = 0;
	} catch (const std::exception &e) {
		perturb::level = 0;
		err = e.what(); for (auto &c : err) if (c == '\n') c = ' ';
		std::ofstream sk(dir + "/SKIP"); sk << err.substr(0, 400) << "\n";
		ok = false;
	}
	perturb::level = 0;
	perturb::drain();
	perturb::releasePools();
	meta << "allocs " << perturb::nAlloc << " swapped " << perturb::nSwapped << " dummies " << perturb::nDummy << " pooled " << perturb::nPooled << " level " << perturbLevel << "\n";
	perturb::nAlloc = perturb::nSwapped = perturb::nDummy = perturb::nPooled = 0;
	return ok;
}

int main(int argc, char **argv) {
	if (argc < 11 || std::string(argv[1]) != "build") {
		std::cerr << "usage: C10_det build <programs|-> <handlist|-|all> <outroot> <tag> <pseed> <prealloc_kb> <nbuilds> <shuffles> <cycles> [stimfile]\n";
		return 2;
	}
	perturb::mainThread = true;
	std::string progFile = argv[2], handList = argv[3], outroot = argv[4], tag = argv[5];
	uint64_t pseed = std::stoull(argv[6]);
	size_t preallocKb = std::stoull(argv[7]), nbuilds = std::stoull(argv[8]), shuffles = std::stoull(argv[9]), cycles = std::stoull(argv[10]);
	outroot = std::filesystem::absolute(outroot).string();
	if (argc > 11) {   // lines "<design-id> <cyc0>;<cyc1>;..."  (per cycle comma separated pin values, e = zero width)
		std::ifstream sf(argv[11]); std::string line;
		while (std::getline(sf, line)) {
			std::istringstream ls(line); std::string id, rest; ls >> id >> rest;
			std::vector<std::vector<std::string>> st;
			std::istringstream cs(rest); std::string cyc;
			while (std::getline(cs, cyc, ';')) {
				std::vector<std::string> pins; std::istringstream ps(cyc); std::string pv;
				while (std::getline(ps, pv, ',')) pins.push_back(pv == "e" ? std::string("") : pv);
				st.push_back(pins);
			}
			g_fixedStim[id] = st;
		}
	}

	std::vector<nd::Program> programs;
	if (progFile != "-") { std::ifstream pin(progFile); programs = nd::readPrograms(pin); }
	auto hands = handDesigns();
	std::vector<Job> jobs;
	for (auto &p : programs) {
		Job j; j.id = p.id; j.prog = &p; j.omode = "single";
		for (auto &st : p.stmts) if (st[0] == "omode" && st.size() > 1) j.omode = st[1];
		for (auto &st : p.stmts) if (st[0] == "tool" && st.size() > 1) j.tool = st[1];
		jobs.push_back(j);
	}
	if (handList != "-")
		for (auto &h : hands)
			if (handList == "all" || ("," + handList + ",").find(std::string(",") + h.name + ",") != std::string::npos) {
				Job j; j.id = h.name; j.hand = &h; j.omode = h.omode; j.tool = h.tool; jobs.push_back(j);
			}

	// process wide pre-allocation: shifts every later address (and, with ASLR off, is the only thing that does)
	if (preallocKb) perturb::scramble(pseed ^ 0xABCDEF, preallocKb);

	size_t done = 0, failed = 0;
	for (auto &job : jobs) {
		std::cerr << "BEGIN " << job.id << std::endl;     // lets the caller name the design if the library crashes the process
		for (size_t b = 0; b < nbuilds; b++) {
			std::string err;
			if (b > 0) perturb::scramble(pseed * 131 + b, 256 + 64 * b);
			// build 0 plain malloc, 1 randomly perturbed operator new, 2 sorted pools descending, 3 ascending, 4 random pop, 5.. as 1
			int lvl = b == 0 ? 0 : b <= 4 ? (int)b : 1;
			recordPasses = (b == 0 && shuffles > 0);
			bool ok = construct(job, outroot + "/" + tag + "." + std::to_string(b) + "/" + job.id, lvl, pseed * 7919 + b, 0, cycles, err);
			ok ? done++ : failed++;
			if (!ok) std::cerr << "SKIP " << job.id << " build " << b << ": " << err.substr(0, 300) << "\n";
		}
		for (size_t s = 1; s <= shuffles; s++) {
			std::string err;
			perturb::scramble(pseed * 977 + s, 128);
			recordPasses = true;
			bool ok = construct(job, outroot + "/" + tag + ".s" + std::to_string(s) + "/" + job.id, (int)(s % 5), pseed * 6007 + s, s, cycles, err);
			ok ? done++ : failed++;
			if (!ok) std::cerr << "SKIP " << job.id << " shuffle " << s << ": " << err.substr(0, 300) << "\n";
		}
	}
	std::cerr << "constructed " << done << " failed " << failed << "\n";
	return 0;
}
