// Sweep of the word helpers of utils/BitManipulation.h on the REAL header (counterexample search of
// the source-regenerated part of C18): prints one line per call, checked by checks/C18.py against
// independent python definitions.
#include <gatery/pch.h>
#include <gatery/utils/BitManipulation.h>
#include <iostream>
#include <cstdint>
using namespace gtry::utils;
int main() {
#ifdef __BMI__
	std::cout << "BMI 1\n";
#else
	std::cout << "BMI 0\n";
#endif
	const std::uint64_t vals[] = {0ull, 1ull, 0x8000000000000000ull, ~0ull, 0x0123456789ABCDEFull, 0xF0F0F0F00F0F0F0Full, 0x5555555555555555ull, 40ull};
	for (size_t start = 0; start < 64; start++)
		for (size_t count = 0; count <= 66; count++) {
			std::cout << "mask " << start << " " << count << " " << bitMaskRange<std::uint64_t>(start, count) << "\n";
			for (auto a : vals) {
				std::cout << "isset " << a << " " << start << " " << count << " " << isMaskSet<std::uint64_t>(a, start, count) << "\n";
				std::cout << "ext " << a << " " << start << " " << count << " " << bitfieldExtract<std::uint64_t>(a, start, count) << "\n";
				std::cout << "ins " << a << " " << start << " " << count << " " << vals[(start + count) % 8] << " " << bitfieldInsert<std::uint64_t>(a, start, count, vals[(start + count) % 8]) << "\n";
			}
		}
	for (auto a : vals) {
		std::cout << "lowest " << a << " " << lowestSetBitMask<std::uint64_t>(a) << "\n";
		for (auto b : vals) std::cout << "andnot " << a << " " << b << " " << andNot<std::uint64_t>(a, b) << "\n";
		for (unsigned idx = 0; idx < 64; idx++) {
			std::uint64_t s = a, c = a, t = a; bitSet(s, idx); bitClear(c, idx); bitToggle(t, idx);
			std::cout << "bit " << a << " " << idx << " " << bitExtract(a, idx) << " " << s << " " << c << " " << t << "\n";
		}
	}
	return 0;
}
