"""Second half of the C07 check: verified certificates for circuits WITH memories.
For each generated memory design the constructed circuit and the post-processed circuits
(default and minimal post processor, no target device) are dumped; the model with memories
(NetMemDefs.v) is tied to the real simulator per cycle and the extracted machine-generic
checker (MachineCert.gcheck_cert, theorem C07_postprocess_cert_sound) decides equivalence of
constructed vs post-processed circuit for ALL stimuli and ALL cycles.  Called by checks/C07.py."""
import os, sys, json
sys.path.insert(0, os.path.join(os.path.dirname(os.path.abspath(__file__)), "..", "lib"))
import vcommon as V, circ, designgen as G, memgen



def run(rep, known):
    work = V.BUILD / "work" / "C07b"
    out = work / "run"
    if out.exists():
        for f in out.glob("*"):
            f.unlink()
    out.mkdir(parents=True, exist_ok=True)
    harness = V.build_harness("C01_design")
    driver = V.build_model("NM")
    n, BUDGET = (48, 300000) if rep.tier == "quick" else (160, 800000)
    designs = [memgen.gen_mem_design(rep.seed * 400009 + i, f"m{i}") for i in range(n)]
    ids = [d[0].split()[1] for d in designs]
    prog = dict(zip(ids, designs))
    G.write_programs(out / "designs.txt", designs)
    circ.run_harness(harness, str(out / "designs.txt"), str(out), "pre,def,min", nstim=2, cycles=10)
    broken = []
    if driver is None:
        return dict(broken=["extracted memory-netlist model no longer builds: " + V.last_model_log[-500:]])
    cmds = []
    # post-processing may lengthen the reset (reset logic that initialises the memory needs one
    # cycle per word): then the two circuits are not comparable cycle by cycle from power-on and
    # behaviour while the reset is asserted is not part of the array specification -> such
    # pairs are tied to the model but not compared (counted).
    def sched(path):
        t = circ.parse_traces(path)
        return None if "SKIP" in t or not t else [c[2] for c in next(iter(t.values()))["cycles"]]
    comparable = {(i, v): (sched(out / f"{i}.pre.trace") is not None and sched(out / f"{i}.pre.trace") == sched(out / f"{i}.{v}.trace"))
                  for i in ids for v in ("def", "min")}
    for i in ids:
        for v in ("pre", "def", "min"):
            cmds.append(f"tie {out}/{i}.{v}.net {out}/{i}.{v}.trace")
        for v in ("def", "min"):
            if comparable[(i, v)]:
                cmds.append(f"cert refine {out}/{i}.pre.net {out}/{i}.{v}.net {out}/{i}.pre.trace {BUDGET}")
    lines = circ.run_driver(driver, cmds, str(work / "batch"))
    tie_ok = sum(1 for l in lines if l.startswith("TIE") and " ok " in l)
    tie_bad = [l for l in lines if l.startswith("TIE") and "MISMATCH" in l]
    tie_uns = [l for l in lines if l.startswith("TIE") and ("UNSUPPORTED" in l or "BADORDER" in l)]
    cert = [l for l in lines if l.startswith("CERT")]
    ok = [l for l in cert if " OK " in l]
    fail = [l for l in cert if " FAIL " in l]
    rej = [l for l in cert if " REJECTED " in l]
    big = [l for l in cert if " TOOBIG " in l]
    uns = [l for l in cert if " UNSUPPORTED " in l]
    errors = [l for l in lines if l.startswith("ERROR")]
    # independent oracle + confirmation on the real simulator
    direct, confirmed, unconfirmed = [], [], []
    for i in ids:
        tp = circ.parse_traces(out / f"{i}.pre.trace")
        if "SKIP" in tp:
            continue
        for v in ("def", "min"):
            if not comparable[(i, v)]:
                continue
            tq = circ.parse_traces(out / f"{i}.{v}.trace")
            if "SKIP" in tq:
                direct.append((i, v, dict(kind="post-processing threw", msg=tq["SKIP"]), None)); continue
            for tag, a in tp.items():
                b = tq.get(tag.replace(f"{i}.pre", f"{i}.{v}"))
                d = circ.direct_diff(a, b) if b else None
                if d:
                    direct.append((i, v, d, circ.stim_of(a))); break
    for l in fail:
        p = l.split()
        i, v = p[1].rsplit(".", 2)[0], p[2].rsplit(".", 2)[1]
        m = [x for x in p if x.startswith("stimulus=")]
        if not m:
            unconfirmed.append((i, v, None, l, None)); continue
        stim = m[0][len("stimulus="):]
        cex = work / "cex"; cex.mkdir(exist_ok=True)
        G.write_programs(cex / "designs.txt", [prog[i]])
        open(cex / "stim.txt", "w").write(f"{i} {stim}\n")
        circ.run_harness(harness, str(cex / "designs.txt"), str(cex), f"pre,{v}", replay_stim=str(cex / "stim.txt"))
        a = circ.parse_traces(cex / f"{i}.pre.trace").get(f"{i}.pre replay")
        b = circ.parse_traces(cex / f"{i}.{v}.trace").get(f"{i}.{v} replay")
        real = circ.direct_diff(a, b) if a and b else None
        if real is None and a and b and "clean=true" in l and a["cycles"][-1][1] != b["cycles"][-1][1]:
            real = dict(kind="constructed run free of undefined values but post-processed differs", pre=a["cycles"][-1][1], post=b["cycles"][-1][1])
        (confirmed if real else unconfirmed).append((i, v, stim, l, real))
    if tie_bad: broken.append(f"{len(tie_bad)} tie mismatches (memory netlist model vs real simulator), first: {tie_bad[0][:300]}")
    if rej: broken.append(f"{len(rej)} certificates rejected by the verified checker, first: {rej[0][:300]}")
    if errors: broken.append(f"driver errors: {errors[0][:300]}")
    if unconfirmed: broken.append(f"{len(unconfirmed)} model counterexamples not reproduced on the real simulator, first: {unconfirmed[0][3][:300]}")
    rep.cov["memory_certificates"] = dict(designs=len(ids), traces_validated_against_impl=tie_ok, tie_unsupported=len(tie_uns),
                                          accepted=len(ok), failed=len(fail), rejected_by_checker=len(rej), too_big=len(big), unsupported=len(uns),
                                          pairs_not_compared_reset_schedule_differs=sum(1 for x in comparable.values() if not x),
                                          product_state_counts=sorted(int(l.split()[4].split("=")[1]) for l in ok)[-8:],
                                          sample=dict(design=designs[-1], cert=[l for l in cert if l.split()[1].startswith(ids[-1] + ".")]))
    for i, v, stim, l, real in confirmed[:4]:
        rep.violation(dict(property="C07", kind="post-processed memory circuit differs from the constructed circuit (product BFS, confirmed on the real simulator)",
                           variant=v, program=prog[i], stimulus=stim, real_simulator=real, model=l), tag="memcex")
    seen = {(c[0], c[1]) for c in confirmed}
    for i, v, d, stim in direct[:4]:
        if (i, v) not in seen:
            rep.violation(dict(property="C07", kind="real traces of constructed vs post-processed memory circuit differ", variant=v,
                               program=prog[i], stimulus=stim, real_simulator=d), tag="memdiff")
    return dict(broken=broken)
