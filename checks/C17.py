#!/usr/bin/env python3
"""C17 - scl arithmetic/coding primitives equal their mathematical definitions.

Pipeline (AGENT_BRIEF.md): build gatery + harness, re-check Properties_C17.v, extract the
Coq model, run the real generators (harness/C17_scl.cpp, gatery frontend + ReferenceSimulator)
and the extracted model (ocaml/C17_driver.ml) on the same generated case file, diff line by
line.  Independently every implementation result is judged by big-int python oracles of the
mathematical definitions (search mode uses them to produce a concrete failing input).
"""
import sys, os
sys.path.insert(0, os.path.join(os.path.dirname(os.path.abspath(__file__)), "..", "lib"))
import vcommon as V
import json, random, subprocess, time, zlib, collections, concurrent.futures

CID = "C17"
T0 = time.time()

# ----------------------------------------------------------------------------- helpers
def hx(x):
    return format(x, "x")

def rng_for(tag, extra=0):
    return random.Random((V.seed() * 1000003 + zlib.crc32(tag.encode()) + extra * 7919) & 0xFFFFFFFFFFFF)

BIG_WIDTHS = [17, 24, 31, 32, 33, 48, 63, 64, 65, 96, 100, 127, 128, 129, 130]

def operand_values(w, r, nmax, nrand):
    """exhaustive if 2^w <= nmax, else boundary values + walking ones + random"""
    if (1 << w) <= nmax:
        return list(range(1 << w))
    m = (1 << w) - 1
    vals = {0, 1, 2, 3, m, m - 1, 1 << (w - 1), (1 << (w - 1)) - 1, (1 << (w - 1)) + 1, m >> 1, 0x5555555555555555555555555555555555 & m, 0xAAAAAAAAAAAAAAAAAAAAAAAAAAAAAAAAAA & m}
    for i in range(w):
        vals.add(1 << i)
    for i in {0, 1, w // 2, w - 2, w - 1}:
        if 0 <= i < w:
            vals.add(m ^ (1 << i)); vals.add((m << i) & m); vals.add(m >> i)
    vals = sorted(vals)
    for _ in range(nrand):
        k = r.randrange(4)
        if k == 0:
            v = r.getrandbits(w)
        elif k == 1:   # sparse
            v = 0
            for _ in range(r.randrange(1, 4)):
                v |= 1 << r.randrange(w)
        elif k == 2:   # low part zero (interesting for priority encoders)
            v = (r.getrandbits(w) >> r.randrange(w)) << r.randrange(w) & m
        else:          # small magnitude
            v = r.getrandbits(r.randrange(1, w + 1))
        vals.append(v & m)
    return vals

def pairs(w1, w2, r, nmax, nrand):
    if (1 << (w1 + w2)) <= nmax:
        return [(a, b) for a in range(1 << w1) for b in range(1 << w2)]
    A = operand_values(w1, r, 16, 6); B = operand_values(w2, r, 16, 6)
    out = set()
    ea = [0, 1, (1 << w1) - 1, 1 << (w1 - 1), (1 << (w1 - 1)) - 1]
    eb = [0, 1, (1 << w2) - 1, 1 << (w2 - 1), (1 << (w2 - 1)) - 1]
    for a in ea:
        for b in eb:
            out.add((a & ((1 << w1) - 1), b & ((1 << w2) - 1)))
    for _ in range(nrand):
        k = r.randrange(4)
        a = r.choice(A) if k & 1 else r.getrandbits(w1)
        b = r.choice(B) if k & 2 else r.getrandbits(w2)
        if r.randrange(6) == 0 and w1 == w2:
            b = (a + r.choice([-1, 0, 1])) & ((1 << w2) - 1)
        out.add((a, b))
    return sorted(out)

# ----------------------------------------------------------------------------- case generation
def gen_cases(tier):
    thorough = tier == "thorough"
    NMAX = 2048 if not thorough else 65536
    NR = 48 if not thorough else 800
    groups = []   # (head, [operand strings])

    def add(head, ops_list):
        if ops_list:
            groups.append((head, ops_list))

    small = list(range(1, 17))
    r = rng_for("widths")
    big = sorted(set(r.sample(BIG_WIDTHS, 7) + [r.randrange(17, 131) for _ in range(3)] + [64, 65, 130]))
    if thorough:
        big = list(range(17, 131))

    # unary bit-vector primitives
    for prim, wmin in (("bitcount", 1), ("encoder", 2), ("prienc", 1), ("clz", 1), ("grayenc", 1),
                       ("graydec", 1), ("bpo2", 1), ("unthermo", 1)):
        for w in small + big:
            if w < wmin:
                continue
            rr = rng_for(prim, w)
            vals = operand_values(w, rr, NMAX, NR)
            if prim == "encoder":   # one-hot operands are the specified domain; a few others exercise the OR
                vals = [1 << i for i in range(w)] + [0] + [v for v in vals[: (40 if w <= 8 else 12)]]
            add(f"{prim} {w}", [hx(v) for v in vals])
    for w in [2, 5, 13, 64] + ([100] if thorough else []):
        add(f"grayrt {w}", [hx(v) for v in operand_values(w, rng_for("grayrt", w), 256, NR)])
    # priorityEncoderTree for several bps, all small widths + big
    for bps in (1, 2, 3, 4):
        ws = small + big if bps <= 2 else [w for w in small if w in (1, 2, 3, 7, 8, 9, 15, 16)] + big[::2]
        ws = sorted(set(ws + [2 ** k for k in range(1, 8)] + [2 ** k + 1 for k in range(1, 7)] + [2 ** k - 1 for k in range(2, 8)]))
        for w in ws:
            if w > 130:
                continue
            rr = rng_for("pritree%d" % bps, w)
            nm = NMAX if bps <= 2 else NMAX // 4
            add(f"pritree {w} {bps}", [hx(v) for v in operand_values(w, rr, nm, NR)])
    # registered tree: traces with held and per-cycle changing operands
    for (w, bps) in [(4, 1), (5, 1), (8, 1), (9, 2), (16, 2), (17, 1), (17, 2), (33, 2), (64, 3), (65, 2)] + ([(w, b) for w in (3, 6, 7, 12, 20, 100, 130) for b in (1, 2)] if thorough else []):
        rr = rng_for("pritreereg%d" % bps, w)
        traces = []
        for _ in range(6 if not thorough else 20):
            tr = []
            while len(tr) < 40:
                v = rr.choice([0, 1 << rr.randrange(w), rr.getrandbits(w), (rr.getrandbits(w) >> rr.randrange(w)) << rr.randrange(w) & ((1 << w) - 1)])
                tr += [v] * rr.choice([1, 1, 1, 2, 9])
            traces.append(" ".join(hx(v) for v in tr[:40]))
        add(f"pritreereg {w} {bps}", traces)
    for w in range(1, 8 if not thorough else 9):
        add(f"decoder {w}", [hx(v) for v in range(1 << w)])
        add(f"thermo {w}", [hx(v) for v in range(1 << w)])
        if w >= 2:
            for outw in sorted({1, (1 << w) // 2, (1 << w) - 1}):
                add(f"thermow {w} {outw}", [hx(v) for v in range(1 << w)])
    # binary
    for prim in ("min", "max", "smin", "smax"):
        for w in small + big:
            rr = rng_for(prim, w)
            add(f"{prim} {w}", [f"{hx(a)} {hx(b)}" for a, b in pairs(w, w, rr, NMAX, NR)])
    # long division
    r = rng_for("ldivshape")
    shapes = [(a, b) for a in range(1, 6) for b in range(1, 6)]
    shapes += [(8, 4), (4, 8), (8, 8), (16, 16), (16, 3), (3, 16), (12, 7), (7, 12), (1, 16), (16, 1), (9, 9), (15, 16), (16, 15)]
    shapes += [(r.choice(big), r.choice(small + big)) for _ in range(4 if not thorough else 16)]
    shapes += [(64, 64), (65, 33), (32, 64)]
    for prim in ("ldiv", "sldiv"):
        for (nw, dw) in shapes:
            rr = rng_for(prim, nw * 1000 + dw)
            add(f"{prim} {nw} {dw}", [f"{hx(a)} {hx(b)}" for a, b in pairs(nw, dw, rr, NMAX, NR)])
    for (nw, dw, st) in [(8, 4, 1), (8, 4, 2), (8, 4, 3), (8, 8, 4), (8, 4, 8), (8, 4, 9), (5, 3, 2), (16, 16, 5), (13, 6, 1), (33, 17, 8)] + ([(64, 64, 7), (20, 9, 3), (7, 7, 7), (7, 7, 6)] if thorough else []):
        rr = rng_for("ldivp", nw * 10000 + dw * 100 + st)
        traces = []
        for _ in range(3 if not thorough else 10):
            tr = []
            for _ in range(nw + 14):
                a = rr.choice([rr.getrandbits(nw), (1 << nw) - 1, rr.getrandbits(nw)])
                b = rr.choice([rr.getrandbits(dw), rr.getrandbits(max(1, dw // 2)), 1, 0 if rr.randrange(8) == 0 else 3 & ((1 << dw) - 1)])
                tr.append(f"{hx(a)},{hx(b)}")
            traces.append(" ".join(tr))
        add(f"ldivp {nw} {dw} {st}", traces)
    # adders
    for w in small + big:
        rr = rng_for("addc", w)
        add(f"addc {w}", [f"{hx(a)} {hx(b)} {c}" for a, b in pairs(w, w, rr, NMAX // 2, NR) for c in (0, 1)])
        ops = []
        if 3 * w <= 9:
            ops = [f"{hx(a)} {hx(b)} {hx(c)}" for a in range(1 << w) for b in range(1 << w) for c in range(1 << w)]
        else:
            V3 = operand_values(w, rr, 8, 4)
            for _ in range(NR * 2):
                ops.append(" ".join(hx(rr.choice(V3) if rr.randrange(2) else rr.getrandbits(w)) for _ in range(3)))
        add(f"addcs {w}", ops)
    for w in [1, 2, 3, 4, 7, 8, 16, 33, 64, 65, 130]:
        for k in (1, 2, 3, 4, 5, 9):
            rr = rng_for("csa", w * 100 + k)
            if w * k <= 8:
                import itertools
                ops = [" ".join(hx(v) for v in t) for t in itertools.product(range(1 << w), repeat=k)]
            else:
                V3 = operand_values(w, rr, 8, 4)
                ops = [" ".join(hx(rr.choice(V3) if rr.randrange(2) else rr.getrandbits(w)) for _ in range(k)) for _ in range(NR)]
            add(f"csa {w} {k}", ops)
    # crc(remainder, data, polynomial)
    r = rng_for("crcshape")
    cshapes = [(rw, dw) for rw in (1, 2, 3) for dw in (1, 2, 3, 4)]
    cshapes += [(5, 11), (5, 16), (8, 8), (8, 4), (8, 16), (4, 8), (16, 8), (16, 16), (16, 1), (7, 9), (32, 8), (32, 64), (8, 32), (15, 16), (16, 15), (64, 8), (33, 65)]
    cshapes += [(r.randrange(1, 40), r.randrange(1, 80)) for _ in range(4 if not thorough else 24)]
    for (rw, dw) in cshapes:
        rr = rng_for("crc", rw * 1000 + dw)
        if 2 * rw + dw <= 10:
            ops = [f"{hx(a)} {hx(b)} {hx(p)}" for a in range(1 << rw) for b in range(1 << dw) for p in range(1 << rw)]
        else:
            polys = [rr.getrandbits(rw) | 1 for _ in range(3)] + [0, (1 << rw) - 1, 1]
            ops = []
            for _ in range(NR * 2):
                a = rr.choice([0, (1 << rw) - 1, rr.getrandbits(rw)]); b = rr.choice([0, (1 << dw) - 1, 1 << (dw - 1), rr.getrandbits(dw), rr.getrandbits(dw)])
                ops.append(f"{hx(a)} {hx(b)} {hx(rr.choice(polys))}")
        add(f"crc {rw} {dw} {rw}", ops)
    for (rw, dw, pw) in [(8, 16, 4), (8, 4, 3), (16, 8, 8), (5, 3, 1)]:   # polynomial narrower than the remainder
        rr = rng_for("crcn", rw * 1000 + dw)
        add(f"crc {rw} {dw} {pw}", [f"{hx(rr.getrandbits(rw))} {hx(rr.getrandbits(dw))} {hx(rr.getrandbits(pw))}" for _ in range(NR)])
    # CrcState
    check = [0x31 + i for i in range(9)]
    for preset in range(7):
        rr = rng_for("crcwk", preset)
        ops = [" ".join(hx(v) for v in check)]
        ops += [" ".join(hx(rr.getrandbits(8)) for _ in range(9)) for _ in range(6 if not thorough else 40)]
        add(f"crcwk {preset} 8 9", ops)
        add(f"crcwk {preset} 8 1", [hx(v) for v in range(0, 256, 5 if not thorough else 1)])
    add("crcwk 0 11 1", [hx(v) for v in (0, 0x547, 0x2e5, 0x072, 0x400, 0x7ff, 1)])
    for (cw, dw, k) in [(3, 1, 4), (5, 11, 1), (8, 8, 3), (8, 4, 5), (16, 8, 4), (16, 16, 2), (32, 8, 4), (32, 32, 2), (7, 3, 3), (13, 5, 2), (40, 24, 2), (64, 8, 3)]:
        rr = rng_for("crcst", cw * 10000 + dw * 100 + k)
        ops = []
        for _ in range(NR):
            poly = rr.getrandbits(cw) | 1; init = rr.choice([0, (1 << cw) - 1, rr.getrandbits(cw)]); xo = rr.choice([0, (1 << cw) - 1, rr.getrandbits(cw)])
            ops.append(" ".join([hx(poly), hx(init), hx(xo), str(rr.randrange(2)), str(rr.randrange(2))] + [hx(rr.getrandbits(dw)) for _ in range(k)]))
        add(f"crcst {cw} {dw} {k}", ops)
    # counters
    def ctrace(rr, w, n, dyn_end=None, style=0):
        tr = []
        for t in range(n):
            if style == 0:
                inc, dec = 1, 0
            elif style == 1:
                inc, dec = 0, 1
            else:
                k = rr.randrange(10)
                inc, dec = (1, 0) if k < 4 else (0, 1) if k < 7 else (1, 1) if k < 8 else (0, 0)
            ld = 1 if rr.randrange(14) == 0 and style == 2 else 0
            lv = rr.getrandbits(w) if dyn_end is None else rr.randrange(max(1, dyn_end))
            s = f"{inc},{dec},{ld},{hx(lv)}"
            if dyn_end is not None:
                s += f",{hx(dyn_end)}"
            tr.append(s)
        return " ".join(tr)
    ends = list(range(2, 20)) + [31, 32, 33, 64, 100, 255, 256, 257] + ([1000, 1024, 65535, 65536, 65537] if thorough else [])
    for e in ends:
        w = max(1, (e).bit_length() if (e & (e - 1)) else e.bit_length() - 1)
        for use in (1, 0):
            for rv in sorted({0, e - 1, e // 2}):
                rr = rng_for("cntend", e * 100 + rv * 2 + use)
                n = min(2 * e + 6, 80)
                trs = [ctrace(rr, w, n, style=0), ctrace(rr, w, n, style=1), ctrace(rr, w, 60, style=2)] if use else [ctrace(rr, w, n, style=2)]
                add(f"cntend {e} {rv} {use}", trs)
    for w in [1, 2, 3, 4, 5, 6, 8] + ([10, 12] if thorough else []):
        for rv in sorted({0, (1 << w) - 1}):
            rr = rng_for("cntw", w * 100 + rv)
            n = min(2 * (1 << w) + 6, 80)
            add(f"cntw {w} {rv} 1", [ctrace(rr, w, n, style=0), ctrace(rr, w, n, style=1), ctrace(rr, w, 60, style=2)])
        add(f"cntw {w} 0 0", [ctrace(rng_for("cntw0", w), w, min(2 * (1 << w) + 6, 80), style=2)])
    for w in [1, 2, 3, 4, 6]:
        rr = rng_for("cntdyn", w)
        trs = []
        for e in sorted({1, 2, 3, (1 << w) - 1, (1 << w) // 2 + 1} & set(range(1, 1 << w))):
            trs += [ctrace(rr, w, 2 * e + 5, dyn_end=e, style=0), ctrace(rr, w, 2 * e + 5, dyn_end=e, style=1), ctrace(rr, w, 50, dyn_end=e, style=2)]
        add(f"cntdyn {w} 0 1", trs)
    for w in [1, 2, 3, 4, 5, 7]:
        for rv in sorted({0, 1, (1 << w) - 1}):
            rr = rng_for("updown", w * 100 + rv)
            trs = []
            for _ in range(3 if not thorough else 12):
                tr = []
                mode = 0
                for t in range(2 * (1 << min(w, 5)) + 30):
                    if rr.randrange(12) == 0:
                        mode = rr.randrange(3)
                    k = rr.randrange(10)
                    if mode == 0:
                        inc, dec = (1, 0) if k < 8 else (0, 1)
                    elif mode == 1:
                        inc, dec = (0, 1) if k < 8 else (1, 0)
                    else:
                        inc, dec = rr.randrange(2), rr.randrange(2)
                    tr.append(f"{inc},{dec},{1 if rr.randrange(40) == 0 else 0}")
                trs.append(" ".join(tr))
            add(f"updown {w} {rv}", trs)
    # Counter usage variants: {inc only, dec only, both, neither} x call-site scopes x limits x start x load kinds
    def vtrace(rr, w, e, n, dyn=False, p_act=0.5):
        tr = []
        mode = rr.randrange(3)
        for t in range(n):
            if rr.randrange(16) == 0:
                mode = rr.randrange(3)
            pa = (0.85, 0.15, 0.5)[mode]          # busy / mostly idle / mixed strobes
            inc = int(rr.random() < pa); dec = int(rr.random() < pa); en = int(rr.random() < 0.6)
            ld = int(rr.randrange(17) == 0)
            lv = rr.randrange(max(1, e)) if w else 0
            c = f"{inc},{dec},{en},{ld},{hx(lv)}"
            if dyn:
                c += f",{hx(e)}"
            tr.append(c)
        return " ".join(tr)
    variants = [(0, 0)] + [(b, sc) for b in (1, 2, 3) for sc in range(6)]
    vi = 0
    def add_cntv(ctor, E, e, w, rvs, dyn=False):
        nonlocal vi
        for (b, sc) in variants:
            ldks = (0, 1, 2, 3) if thorough else ((vi % 4),)
            for ldk in ldks:
                for rv in (rvs if thorough and E <= 16 else (rvs[vi % len(rvs)],)):
                    vi += 1
                    rr = rng_for("cntv", ctor * 10**9 + E * 10000 + rv % 97 * 100 + b * 24 + sc * 4 + ldk)
                    n = min(2 * e + 12, 70)
                    add(f"cntv {ctor} {E} {rv} {b} {sc} {ldk}", [vtrace(rr, w, e, n, dyn) for _ in range(2 if not thorough else 4)])
    for e in [1, 2, 3, 5, 8, 11, 16, 17, 255, 256, 65535, 65536] + ([6, 7, 31, 32, 33, 100, 1000, 1024] if thorough else []):
        w = e.bit_length() if (e & (e - 1)) else e.bit_length() - 1
        add_cntv(0, e, e, w, sorted({0, e - 1, e // 2}))
    for w in [1, 2, 3, 4, 8, 16] + ([5, 6, 12, 32, 63] if thorough else []):
        add_cntv(1, w, 1 << w, w, sorted({0, (1 << min(w, 60)) - 1}))   # decimal parameters stay below OCaml's max_int
    for w in [1, 2, 3, 5] + ([8] if thorough else []):
        for e in sorted({1, 2, 3, (1 << w) - 1, (1 << w) // 2 + 1} & set(range(1, 1 << w))):
            add_cntv(2, w, e, w, [0], dyn=True)
    # Adder<UInt>, uintToThermometric(in, size_t), CrcState with mixed word widths
    for w in [1, 2, 3, 4, 8, 16, 33, 64, 65, 130]:
        for k in (1, 2, 3, 5, 8):
            rr = rng_for("adder", w * 100 + k)
            if w * k <= 9:
                import itertools
                ops = [" ".join(hx(v) for v in t) for t in itertools.product(range(1 << w), repeat=k)]
            else:
                V3 = operand_values(w, rr, 8, 4)
                ops = [" ".join(hx(rr.choice(V3) if rr.randrange(2) else rr.getrandbits(w)) for _ in range(k)) for _ in range(NR)]
            add(f"adder {w} {k}", ops)
    for w in range(2, 7):
        for mx in sorted({1, 2, (1 << w) // 2, (1 << w) - 2, (1 << w) - 1}):
            if 1 <= mx <= (1 << w) - 1:
                add(f"thermom {w} {mx}", [hx(v) for v in range(1 << w)])
    for (cw, ws) in [(8, (4, 4)), (8, (4, 4, 8)), (8, (1, 7)), (16, (8, 16)), (16, (3, 5, 8)), (5, (11, 5)), (32, (8, 32, 16)), (32, (1, 2, 3, 4)), (7, (9, 2))]:
        rr = rng_for("crcmx", cw * 1000 + sum(ws) * 10 + len(ws))
        ops = []
        for _ in range(NR):
            poly = rr.getrandbits(cw) | 1; init = rr.choice([0, (1 << cw) - 1, rr.getrandbits(cw)]); xo = rr.choice([0, (1 << cw) - 1, rr.getrandbits(cw)])
            ops.append(" ".join([hx(poly), hx(init), hx(xo), str(rr.randrange(2)), str(rr.randrange(2))] + [hx(rr.getrandbits(d)) for d in ws]))
        add(f"crcmx {cw} " + " ".join(str(d) for d in ws), ops)
    return groups

# ----------------------------------------------------------------------------- oracles (mathematical definitions)
def popcount(x): return bin(x).count("1")
def reflect(x, w): return int(format(x, "0%db" % w)[::-1], 2) if w else 0
def to_signed(x, w): return x - (1 << w) if x >> (w - 1) & 1 else x
def log2c(v): return 0 if v <= 1 else (v - 1).bit_length()

def gf2_mod(m, p):
    dp = p.bit_length() - 1
    while m.bit_length() - 1 >= dp and m:
        m ^= p << (m.bit_length() - 1 - dp)
    return m

def pe_width(n): return 0 if n <= 1 else log2c(n)
def next_pow2(v): return 0 if v == 0 else 1 << log2c(v)
def petree_width(bps, n):
    ib = next_pow2((n + (1 << bps) - 1) >> bps)
    return pe_width(n) if ib <= 1 else bps + pe_width(ib)

def pe_expect(x, width):
    if x == 0:
        return ("0" if width == 0 else "X", "0")
    return (hx((x & -x).bit_length() - 1), "1")

def oracle(prim, p, ops, out):
    """True / False / None (no judgement: outside the specified domain) / "KNOWN:<token>" (the
    implementation deviates from the mathematical definition in exactly the way recorded under
    <token> in KNOWN_FINDINGS.txt).  `out` = implementation output tokens."""
    I = lambda k: int(ops[k], 16)
    O = lambda k: int(out[k], 16)
    if any(t.startswith("EXC") for t in out):
        # documented rejected input (sldiv_narrow_refuted): SInt(1) literal does not fit a 1-bit numerator
        return None if (prim == "sldiv" and p[0] == 1) else False
    if prim == "bitcount" or prim == "unthermo": return O(0) == popcount(I(0))
    if prim == "decoder": return O(0) == 1 << I(0)
    if prim == "encoder":
        x = I(0)
        return O(0) == x.bit_length() - 1 if x and x & (x - 1) == 0 else None
    if prim == "prienc": return tuple(out) == pe_expect(I(0), pe_width(p[0]))
    if prim == "pritree": return tuple(out) == pe_expect(I(0), petree_width(p[1], p[0]))
    if prim == "pritreereg":
        # definition: a pipelined priority encoder, out(t) = prienc(in(t - D)), D = number of register levels
        n, bps = p
        D = petree_depth(bps, n)
        xs = [int(o, 16) for o in ops]
        wd = petree_width(bps, n)
        deviates = False
        for t in range(D, len(xs)):
            if tuple(out[t].split(",")) != pe_expect(xs[t - D], wd):
                if all(xs[t - j] == xs[t] for j in range(D + 1)):
                    return False          # wrong even with the operand held: not the recorded finding
                deviates = True
        if deviates:
            return "KNOWN:pritree-registered-unbalanced" if not petree_balanced(bps, n) else False
        return True
    if prim == "clz": return O(0) == p[0] - I(0).bit_length()
    if prim == "thermo": return O(0) == (1 << I(0)) - 1
    if prim == "thermow": return O(0) == ((1 << I(0)) - 1) & ((1 << p[1]) - 1)
    if prim == "grayenc": return O(0) == I(0) ^ (I(0) >> 1)
    if prim == "graydec":
        g = I(0); x = 0
        while g:
            x ^= g; g >>= 1
        return O(0) == x
    if prim == "grayrt": return O(0) == I(0)
    if prim == "min": return O(0) == min(I(0), I(1))
    if prim == "max": return O(0) == max(I(0), I(1))
    if prim in ("smin", "smax"):
        w = p[0]; a, b = to_signed(I(0), w), to_signed(I(1), w)
        return to_signed(O(0), w) == (min(a, b) if prim == "smin" else max(a, b))
    if prim == "bpo2": return O(0) == (1 << (I(0).bit_length() - 1) if I(0) else 0)
    if prim == "ldiv": return O(0) == (I(0) // I(1) if I(1) else (1 << p[0]) - 1)
    if prim == "sldiv":
        if I(1) == 0: return None
        a = to_signed(I(0), p[0]); q = abs(a) // I(1)
        return O(0) == (-q if a < 0 else q) & ((1 << p[0]) - 1)
    if prim == "ldivp":
        nw, dw, st = p
        L = 0 if st == 0 else len([i for i in range(2, nw + 1) if i % st == 0])
        for t in range(L, len(ops)):
            a, b = (int(v, 16) for v in ops[t - L].split(","))
            if out[t] != hx(a // b if b else (1 << nw) - 1):
                return False
        return True
    if prim == "addc":
        w = p[0]; a, b, c = I(0), I(1), I(2)
        co = 0
        for i in range(w):
            m = (1 << (i + 1)) - 1
            co |= (((a & m) + (b & m) + c) >> (i + 1)) << i
        return O(0) == (a + b + c) & ((1 << w) - 1) and O(1) == co
    if prim == "addcs":
        a, b, c = I(0), I(1), I(2)
        return O(0) + 2 * O(1) == a + b + c and O(0) | O(1) < 1 << p[0] and O(0) == a ^ b ^ c
    if prim == "csa":
        w, k = p; m = (1 << w) - 1
        tot = sum(int(o, 16) for o in ops) & m
        if O(0) != tot: return False
        return k < 2 or (O(1) + O(2)) & m == tot
    if prim == "crc":
        rw, dw, pw = p
        if pw != rw: return None
        return O(0) == gf2_mod((I(0) << dw) ^ (I(1) << rw), (1 << rw) | I(2))
    if prim in ("crcst", "crcwk"):
        if prim == "crcwk":
            cw, poly, init, rd, rc, xo = [(5, 0x05, 0x1f, 1, 1, 0x1f), (16, 0x1021, 0x1d0f, 0, 0, 0), (16, 0x8005, 0xffff, 1, 1, 0xffff),
                                           (32, 0x04C11DB7, 0xffffffff, 1, 1, 0xffffffff), (32, 0x1EDC6F41, 0xffffffff, 1, 1, 0xffffffff),
                                           (32, 0xA833982B, 0xffffffff, 1, 1, 0xffffffff), (32, 0x814141AB, 0, 0, 0, 0)][p[0]]
            words = [int(o, 16) for o in ops]
        else:
            cw = p[0]; poly, init, xo, rd, rc = I(0), I(1), I(2), I(3), I(4)
            words = [int(o, 16) for o in ops[5:]]
        dw = p[1]
        # bit-serial (Rocksoft style) register; gatery applies xorOut BEFORE the output reflection
        reg = init; mask = (1 << cw) - 1
        for wd in words:
            bitsq = [(wd >> i) & 1 for i in (range(dw) if rd else range(dw - 1, -1, -1))]
            for bt in bitsq:
                top = ((reg >> (cw - 1)) & 1) ^ bt
                reg = (reg << 1) & mask
                if top: reg ^= poly
        res = reg ^ xo
        if rc: res = reflect(res, cw)
        return O(0) == res
    if prim in ("cntend", "cntw", "cntdyn"):
        never = p[2] == 0
        if prim == "cntend":
            e = p[0]; w = e.bit_length() if e & (e - 1) else e.bit_length() - 1
        else:
            w = p[0]; e = 1 << w
        prev_expect = p[1]
        for t, cyc in enumerate(ops):
            f = cyc.split(","); inc, dec, ld = (int(f[0]), int(f[1]), int(f[2])); lv = int(f[3], 16)
            if prim == "cntdyn": e = int(f[4], 16)
            if never: inc, dec = 1, 0
            o = out[t].split(","); v = int(o[0], 16)
            if prev_expect is not None and v != prev_expect: return False
            if 0 < e <= (1 << w) and v < e:
                nxt = lv if ld else (v + 1) % e if inc and not dec else (v - 1) % e if dec and not inc else v
                if (int(o[1]), int(o[2]), int(o[3])) != (int(v == e - 1), int(v == 0), int(nxt == 0)): return False
                prev_expect = nxt
            else:
                prev_expect = None
        return True
    if prim == "cntv":
        # definition: a counter modulo `end` driven by the call-site conditions; calling neither inc() nor dec() = free running
        ctor, E, rv, bind, scope, ldk = p
        bi, bd = bind & 1, bind & 2
        if ctor == 0:
            e = E; w = e.bit_length() if e & (e - 1) else e.bit_length() - 1
        else:
            w = E; e = 1 << w
        prev_expect = rv
        for t, cyc in enumerate(ops):
            f = cyc.split(","); inc, dec, en, ld = int(f[0]), int(f[1]), int(f[2]), int(f[3]); lv = int(f[4], 16)
            if ctor == 2: e = int(f[5], 16)
            i, dd = [(inc, dec), (1, 1), (en & inc, en & dec), (en & inc, (1 - en) & dec), (en, en), (inc | en, dec | en)][scope]
            i = i if bi else 0; dd = dd if bd else 0
            if not bi and not bd: i = 1
            load = [0, ld, ld, en & ld][ldk]; lval = rv if ldk == 2 else lv
            o = out[t].split(","); v = int(o[0], 16)
            if prev_expect is not None and v != prev_expect: return False
            if 0 < e <= (1 << w) and v < e:
                nxt = lval if load else (v + 1) % e if i and not dd else (v - 1) % e if dd and not i else v
                if (int(o[1]), int(o[2]), int(o[3])) != (int(v == e - 1), int(v == 0), int(nxt == 0)): return False
                prev_expect = nxt
            else:
                prev_expect = None
        return True
    if prim == "adder": return O(0) == sum(int(o, 16) for o in ops) & ((1 << p[0]) - 1)
    if prim == "thermom": return O(0) == ((1 << I(0)) - 1) & ((1 << p[1]) - 1)
    if prim == "crcmx":
        cw = p[0]; poly, init, xo, rd, rc = I(0), I(1), I(2), I(3), I(4)
        reg = init; mask = (1 << cw) - 1
        for dw, wd in zip(p[1:], [int(o, 16) for o in ops[5:]]):
            for bt in [(wd >> k) & 1 for k in (range(dw) if rd else range(dw - 1, -1, -1))]:
                top = ((reg >> (cw - 1)) & 1) ^ bt
                reg = (reg << 1) & mask
                if top: reg ^= poly
        res = reg ^ xo
        return O(0) == (reflect(res, cw) if rc else res)
    if prim == "updown":
        # definition: value + increment - decrement, clamped to [0, 2^w - 1]
        w, rv = p; top = (1 << w) - 1
        prev_expect = rv; quirk = None; deviates = False
        for t, cyc in enumerate(ops):
            inc, dec, rs = (int(x) for x in cyc.split(","))
            v = int(out[t], 16)
            if v != prev_expect:
                if quirk is not None and v == quirk:
                    deviates = True       # inc & dec at a bound moved the counter (recorded finding)
                else:
                    return False
            quirk = None
            if rs: prev_expect = rv
            else:
                prev_expect = min(max(v + inc - dec, 0), top)
                if inc and dec and v in (0, top) and top >= 1:
                    quirk = v - 1 if v == top else 1
        return "KNOWN:updown-both-at-bound" if deviates else True
    return None

# ----------------------------------------------------------------------------- running
def write_cases(groups, path):
    with open(path, "w") as f:
        for head, ops in groups:
            for o in ops:
                f.write(f"{head} : {o}\n")

def run_sharded(exe, groups, workdir, tag, nshard):
    """split by group, run nshard processes, return {line -> result string}"""
    shards = [[] for _ in range(nshard)]
    weights = [0] * nshard
    for g in sorted(groups, key=lambda g: -len(g[1]) * (1 + len(g[1][0]) // 16)):
        k = weights.index(min(weights)); shards[k].append(g); weights[k] += len(g[1]) * (1 + len(g[1][0]) // 16) + 30
    def run_file(glist, name, timeout):
        p = os.path.join(workdir, name)
        write_cases(glist, p)
        try:
            pr = subprocess.run([exe, p], capture_output=True, text=True, timeout=timeout)
            return pr.returncode, pr.stdout, pr.stderr
        except subprocess.TimeoutExpired:
            return 124, "", "timeout"
    def one(k):
        if not shards[k]:
            return ""
        rc, out, err = run_file(shards[k], f"{tag}_{k}.txt", 3000)
        if rc == 0:
            return out
        # the process died (crash / hang inside a generator): isolate the group(s) responsible
        outs = []
        for gi, g in enumerate(shards[k]):
            rc1, out1, err1 = run_file([g], f"{tag}_{k}_g{gi}.txt", 120)
            if rc1 == 0:
                outs.append(out1)
            elif rc1 == 3:
                raise RuntimeError(f"{exe} rejected its input: {err1[-500:]}")
            else:
                outs.append("".join(f"{g[0]} : {o} -> EXCEPTION process died rc={rc1} while building/simulating this design\n" for o in g[1]))
        return "".join(outs)
    res = {}
    with concurrent.futures.ThreadPoolExecutor(max_workers=nshard) as ex:
        for out in ex.map(one, range(nshard)):
            for line in out.splitlines():
                if " -> " in line:
                    k, v = line.split(" -> ", 1)
                    res[k] = v
    return res

def same(impl, model):
    """token-wise equality; '?' in the model (pipeline not filled) matches anything"""
    if model.startswith("EXCEPTION"):      # generator documented to fail at design time
        return impl.startswith("EXCEPTION")
    a, b = impl.split(), model.split()
    if len(a) != len(b):
        return False
    for x, y in zip(a, b):
        if x == y:
            continue
        xs, ys = x.split(","), y.split(",")
        if len(xs) != len(ys) or any(u != v and v != "?" for u, v in zip(xs, ys)):
            return False
    return True

def petree_depth(bps, n):
    ib = next_pow2((n + (1 << bps) - 1) >> bps)
    if ib <= 1:
        return 0
    return 1 + max(petree_depth(bps, min(ib, n - o)) for o in range(0, n, ib))

def petree_balanced(bps, n):
    """all sub-trees of every level have the same register depth"""
    ib = next_pow2((n + (1 << bps) - 1) >> bps)
    if ib <= 1:
        return True
    sizes = [min(ib, n - o) for o in range(0, n, ib)]
    return len({petree_depth(bps, c) for c in sizes}) == 1 and all(petree_balanced(bps, c) for c in sizes)

def classify(prim, params, ops):
    """(width class, operand class, non-trivial?) - which case splits of the model/proofs a case exercises"""
    try:
        vals = [int(t, 16) for o in ops for t in o.split(",")]
    except ValueError:
        vals = []
    w = params[0] if params else 0
    cls = "w<=16" if w <= 16 else "w in 17..64" if w <= 64 else "w>64"
    if prim in ("pritree", "pritreereg"):
        oc = "tree depth %d" % petree_depth(params[1], params[0]) + ("" if w & (w - 1) else " pow2-width")
    elif prim == "cntv":
        oc = ["free running", "inc only", "dec only", "inc+dec"][params[3]] + " scope %d" % params[4]
    elif prim in ("cntend", "cntw", "cntdyn", "updown", "ldivp"):
        oc = "trace"
    elif prim in ("ldiv", "sldiv") and len(vals) == 2:
        oc = "den=0" if vals[1] == 0 else "num<den" if vals[0] < vals[1] else "num=den" if vals[0] == vals[1] else "num>den"
    elif len(vals) >= 1 and prim not in ("crcst", "crcwk", "csa", "crcmx", "adder"):
        x = vals[0]
        oc = "zero" if x == 0 else "one-hot" if x & (x - 1) == 0 else "all-ones" if x == (1 << w) - 1 else "generic"
    else:
        oc = "generic"
    return cls, oc, any(vals)

def main():
    tier = V.tier()
    rep = V.Report(CID)
    V.build_gatery()
    harness = V.build_harness("C17_scl")
    res = V.check_properties(CID, extra_files=["Gatery/SclMathModel.vo"])   # the extraction entry points are not a dependency of Properties_C17
    model = V.build_model(CID)
    if "--build-only" in sys.argv:
        sys.exit(0 if harness and model else 2)
    rep.add_proof(res)
    forbidden = [h for h in V.scan_forbidden() if h.startswith("SclMath") or h.startswith("Properties_C17")]
    workdir = str(V.BUILD / "work" / CID)
    os.makedirs(workdir, exist_ok=True)

    if "--replay" in sys.argv:
        rp = json.load(open(sys.argv[sys.argv.index("--replay") + 1]))
        groups = [(c.split(" : ")[0], [c.split(" : ", 1)[1]]) for c in rp.get("cases", [rp.get("case")]) if c]
    else:
        groups = []
        cdir = V.VERIF / "corpus" / CID
        for f in sorted(cdir.glob("*.txt")):
            for line in f.read_text().splitlines():
                if line and not line.startswith("#") and " : " in line:
                    h, o = line.split(" : ", 1)
                    if groups and groups[-1][0] == h:
                        groups[-1][1].append(o)
                    else:
                        groups.append((h, [o]))
        groups += gen_cases(tier)

    nshard = min(V.NCPU, 16)
    impl = run_sharded(harness, groups, workdir, "impl", nshard)
    mdl = run_sharded(model, groups, workdir, "model", nshard) if model else {}

    # ---- diff + oracle
    total = 0; tie_bad = []; oracle_bad = []; judged = 0; exc = []
    known_hits = collections.defaultdict(list); op_hist = collections.Counter(); repaired = collections.Counter(); hist = collections.Counter(); cls_hist = collections.Counter(); distinct = set(); samples = []
    for head, opsl in groups:
        toks = head.split(); prim = toks[0]; params = [int(t) for t in toks[1:]]
        for o in opsl:
            line = f"{head} : {o}"
            total += 1
            hist[prim] += 1
            cls, oc, nontriv = classify(prim, params, o.split())
            cls_hist[cls] += 1
            op_hist[prim + ": " + oc] += 1
            if nontriv:
                distinct.add(line)
            iv = impl.get(line)
            if iv is None:
                V.infra_error(f"harness produced no result for: {line[:200]}")
            v = oracle(prim, params, o.split(), iv.split())
            if model:
                mv = mdl.get(line)
                if mv is not None and mv.startswith("EXCEPTION") and not iv.startswith("EXCEPTION"):
                    # a generator documented to fail at design time now builds: judged by the definition alone
                    repaired[prim] += 1
                    if v is not True:
                        tie_bad.append((line, iv, mv))
                elif mv is None or not same(iv, mv):
                    tie_bad.append((line, iv, mv))
                    if iv.startswith("EXCEPTION"):
                        exc.append((line, iv))
            if v is not None:
                judged += 1
                if v is False:
                    oracle_bad.append((line, iv))
                elif isinstance(v, str):
                    known_hits[v.split(":", 1)[1]].append((line, iv))
            if len(samples) < 12 and total % 997 == 1:
                samples.append(f"{line[:160]} -> {iv[:120]}")

    # deviations of the real implementation that are recorded in KNOWN_FINDINGS.txt (matched by the
    # leading token); a deviation pattern without a `known:` line is a violation like any other
    known_lines, _ = V.known_findings(CID)
    known_tokens = {k.split()[0] for k in known_lines if k.split()}
    for token, hits in sorted(known_hits.items()):
        line, iv = min(hits, key=lambda h: len(h[0]))
        if token in known_tokens:
            rep.known(f"{token} case '{line}' observed '{iv}' ({len(hits)} deviating cases in this run)")
        else:
            oracle_bad.extend(hits)
    rep.cov["known_finding_cases"] = {t: len(h) for t, h in known_hits.items()}
    rep.cov["evaluations"] = total
    rep.cov["distinct_nontrivial"] = len(distinct)
    rep.cov["rule"] = ("cases = (primitive, width/parameters, operand tuple or per-cycle trace): operands exhaustive while the operand space of a design is <= %d "
                       "combinations (widths 1..16), boundary values + walking ones + seeded random above, widths 17..130 sampled incl. 63/64/65 and 127..130; "
                       "a case is non-trivial when at least one operand / trace input is non-zero; distinct = distinct case lines" % (2048 if tier == "quick" else 65536))
    rep.cov["samples"] = samples
    rep.cov["traces_validated_against_impl"] = total - len(tie_bad) if model else 0
    rep.cov["designs_built"] = len(groups)
    rep.cov["per_primitive"] = dict(hist)
    rep.cov["width_classes"] = dict(cls_hist)
    rep.cov["case_class_histogram"] = dict(sorted(op_hist.items()))
    rep.cov["oracle_judged"] = judged
    rep.cov["oracle_mismatches"] = len(oracle_bad)
    rep.cov["tie_mismatches"] = len(tie_bad)
    rep.cov["documented_design_time_failures_now_building"] = dict(repaired)
    rep.assumptions += [
        "model (SclMathDefs.v) is a hand transcription of the generators; agreement with the C++ is established by this differential run only",
        "operands fully defined; undefined operand bits are property C08",
        "frontend operators (+, -, <<, compare, mux, slices) and the simulator are the ones of properties C03/C04; only their composition by the scl generators is modelled here",
        "pipelined variants: registers without reset are modelled as 'unknown until loaded' (model prints ?, accepted as wildcard while the pipeline fills); longDivision pipelining is modelled as a pure delay of #{i in 2..numW | i % steps == 0} cycles (retiming-balanced)",
        "size_t wrap of utils::nextPow2 / Log2C not modelled (sizes < 2^63); zero-width operands and encoder(size 1) are rejected by the frontend at design time and are outside the model",
        "two deviations are recorded in KNOWN_FINDINGS.txt, proved in Coq as *_refuted (the model is faithful to them) and detected on the implementation by the oracle on every run: priorityEncoderTree(registerStep=true) latency imbalance, counterUpDown with inc&dec at a bound; any other deviation is a violation",
        "rejected inputs (design-time errors of the frontend, outside the model): Counter(BitWidth 64) (ctrW.count() overflows), longDivision with a 1-bit SInt numerator, encoder of a 1-bit operand, min/max with operands of different widths, crc with polynomial wider than max(remainder, data)",
    ]
    if forbidden:
        res["ok"] = False
        res["log"] += "\nforbidden constructs: " + "; ".join(forbidden)

    broken = []
    if not res["ok"]:
        broken.append("proof obligations failed: " + ", ".join(res["failed"] or ["(build error)"]))
    if model is None:
        broken.append("extracted model no longer builds: " + V.last_model_log[-400:])
    if tie_bad:
        broken.append(f"{len(tie_bad)} correspondence lines differ (model vs implementation)")
    if exc:
        broken.append(f"{len(exc)} designs raised an exception in the generator")

    if broken or oracle_bad:
        # ---------------- search mode: concrete failing input on the REAL implementation vs the python oracle
        budget = 60 if tier == "quick" else 600
        found = list(oracle_bad)
        extra_rounds = 0
        t1 = time.time()
        while not found and time.time() - t1 < budget and "--replay" not in sys.argv:
            extra_rounds += 1
            os.environ["VERIF_SEED"] = str(V.seed() + 7777 * extra_rounds)
            g2 = gen_cases(tier)
            os.environ["VERIF_SEED"] = str(V.seed() - 7777 * extra_rounds)
            im2 = run_sharded(harness, g2, workdir, "search", nshard)
            for head, opsl in g2:
                toks = head.split()
                for o in opsl:
                    line = f"{head} : {o}"
                    iv = im2.get(line, "EXCEPTION missing")
                    if oracle(toks[0], [int(t) for t in toks[1:]], o.split(), iv.split()) is False:  # known-finding patterns do not count
                        found.append((line, iv))
            if extra_rounds >= 3:
                break
        rep.cov["search_rounds"] = extra_rounds
        known, _ = V.known_findings(CID)
        if found:
            # smallest failing case per primitive
            byprim = {}
            for line, iv in found:
                pk = line.split()[0]
                if pk not in byprim or len(line) < len(byprim[pk][0]):
                    byprim[pk] = (line, iv)
            for pk, (line, iv) in sorted(byprim.items()):
                mv = mdl.get(line)
                rep.violation(dict(property=CID, primitive=pk, case=line, observed=iv, model=mv,
                                   expected="mathematical definition (python oracle in checks/C17.py::oracle)",
                                   what_broke=broken or ["implementation deviates from the mathematical definition"],
                                   failing_cases_of_this_primitive=sum(1 for l, _ in found if l.split()[0] == pk),
                                   replay=f"python3 checks/C17.py --replay <this file>"), tag=pk)
        else:
            first = tie_bad[0] if tie_bad else None
            rep.violation(dict(property=CID, what_broke=broken,
                               first_disagreement=dict(case=first[0], implementation=first[1], model=first[2]) if first else None,
                               cases=[t[0] for t in tie_bad[:20]],
                               failed_theorems=res["failed"], coq_log=res["log"][-1500:] if not res["ok"] else "",
                               note="no input found on which the implementation deviates from the python oracle"), nofail=True, tag="tie")
    if tier == "thorough" and res["ok"]:
        rc, out = V.run(["coqchk", "-silent", "-o", "-Q", "Gatery", "Gatery", "Gatery.Properties_C17"], cwd=str(V.COQ), timeout=1200)
        m = out[out.find("* Axioms:"):] if "* Axioms:" in out else out[-400:]
        rep.cov["coqchk"] = dict(rc=rc, summary=" ".join(m.split())[:600])
        if rc != 0:
            rep.violation(dict(property=CID, what_broke=["coqchk rejected Properties_C17: " + out[-800:]]), nofail=True, tag="coqchk")
    rep.cov["wall_breakdown_s"] = round(time.time() - T0, 1)
    rep.finish()

if __name__ == "__main__":
    main()
