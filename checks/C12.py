#!/usr/bin/env python3
"""C12 -- unmarked clock-domain crossings are always rejected, marked ones accepted.

Proof:  coq/Gatery/Properties_C12.v (cdc_sound, cdc_complete, worklist_reaches_ok, ...).
Tie (T2, validator on real results): seeded random multi-clock designs (design programs, see
harness/C12_cdc.cpp) are built through the real frontend; the harness runs the REAL
inferClockDomains / detectUnguardedCDCCrossings on the un-postprocessed and on the post-processed
circuit, dumps netlist + real domain map + real flagged set, and records whether
DesignScope::postprocess() threw the CDC design-check error.  The extracted Coq model
(ocaml/C12_driver.ml) must then
  * accept the real map with domains_ok, reproduce it with the transcribed worklist,
  * compute the same flagged set from the real map with its own flag rule,
  * reproduce getOutputClockRelation and getClockPinSource of every node / clock,
  * and its specification verdict (has_crossing_b over `influences`) must equal the real
    accept / reject outcome.
An independent python oracle (per-domain graph reachability on the dumped netlist, own copy of
the pin-source rule) is compared with the real outcome as well; it is what search mode uses.
"""
import sys, os
sys.path.insert(0, os.path.join(os.path.dirname(os.path.abspath(__file__)), "..", "lib"))
import vcommon as V
import json, random, time, hashlib, re
from pathlib import Path

CID = "C12"
WORK = V.BUILD / "C12"


# ----------------------------------------------------------------------------
# design program generator
# ----------------------------------------------------------------------------

class Gen:
    """Emits one design program.  The generator only *steers* (it keeps a belief about the domain
    of every signal so that it can decide where a marker is needed); all verdicts are computed
    from the dumped netlist, never from these beliefs."""

    def __init__(self, rng, name, size, flavor, use_mem=False, use_unk=False, use_c2s=False, use_ext=False):
        self.use_ext = use_ext
        self.r, self.name, self.size, self.flavor = rng, name, size, flavor
        self.use_mem, self.use_unk, self.use_c2s = use_mem, use_unk, use_c2s
        self.lines = ["design " + name]
        self.edges = {}
        self.observed = set()
        self.nsig = 0
        self.sigs = {}          # id -> belief: 'K' | ('C', clk) | 'M' | 'U'
        self.used = set()
        self.cls = {}           # clock id -> class representative (python's belief of the pin source)
        self.fwd_open = []      # (sig, clk)
        self.drive = {}         # clock id -> "exp" | "sim" | "both"
        self.mems = []
        self.mem_wclk = {}
        self.mem_ext = set()
        self.mem_has_read = set()
        self.depth = 0
        self.budget_unmarked = {"clean": 0, "one": 1, "sloppy": 10 ** 9}[flavor]
        self.crossings = 0      # crossing edges requested (marked or not)
        self.unmarked = 0
        self.wrong = 0

    # -- helpers
    def emit(self, s):
        self.lines.append(s)
        t = s.split()
        k = t[0]
        e = self.edges
        if k == "op":
            for x in t[3:]: e.setdefault(int(x), []).append(int(t[1]))
        elif k == "bind":
            e.setdefault(int(t[2]), []).append(int(t[1]))
        elif k == "reg":
            e.setdefault(int(t[3]), []).append(int(t[1]))
            if t[5] != "-": e.setdefault(int(t[5]), []).append(int(t[1]))
        elif k == "cdc":
            e.setdefault(int(t[2]), []).append(int(t[1]))
        elif k == "out":
            self.observed.add(int(t[2]))
        elif k == "ext":
            # side-effect modules keep their inputs alive; otherwise the inputs are observable through the outputs
            ins = [int(re.split("[:@]", t[i + 1])[0]) for i in range(1, len(t) - 1) if t[i] == "in"]
            outs = [int(re.split("[:@]", t[i + 1])[0]) for i in range(1, len(t) - 1) if t[i] == "out"]
            if "se" in t[1:]:
                self.observed.update(ins)
            for a in ins:
                for b in outs: e.setdefault(a, []).append(b)
        elif k == "mrd":
            e.setdefault(int(t[3]), []).append(int(t[1])); e.setdefault(("m", int(t[2])), []).append(int(t[1]))
        elif k == "mwr":
            e.setdefault(int(t[3]), []).append(("m", int(t[1]))); e.setdefault(int(t[4]), []).append(("m", int(t[1])))
            if len(t) > 5 and t[5] != "-": e.setdefault(int(t[5]), []).append(("m", int(t[1])))

    def observable(self):
        """signals from which some output pin is reachable"""
        rev = {}
        for a, l in self.edges.items():
            for b in l:
                rev.setdefault(b, []).append(a)
        seen = set(self.observed)
        work = list(seen)
        while work:
            x = work.pop()
            for y in rev.get(x, []):
                if y not in seen:
                    seen.add(y); work.append(y)
        return seen

    def new(self, belief):
        s = self.nsig
        self.nsig += 1
        self.sigs[s] = belief
        return s

    def clocks(self):
        return sorted(self.cls)

    def same(self, a, b):
        return self.cls[a] == self.cls[b]

    def member(self, c, other=False):
        """a clock of the same class as c (other=True: of a different class, if there is one)"""
        if other:
            l = [k for k in self.cls if self.cls[k] != self.cls[c]]
            return self.r.choice(l) if l else c
        return self.r.choice([k for k in self.cls if self.cls[k] == self.cls[c]])

    def derive(self, c, par, variant):
        """derived clock c; its clock net may be driven by logic in both views / the export view only /
        the simulation view only -- any of these makes it a domain of its own"""
        r = self.r
        self.emit(f"clock {c} derive {par} {variant}")
        mode = r.choices(["none", "exp", "sim", "both"], [0.55, 0.2, 0.1, 0.15])[0]
        if mode != "none":
            self.drive[c] = mode
        own = mode != "none" or variant in ("name", "mult", "nophase")
        self.cls[c] = c if own else self.cls[par]

    def make_clocks(self):
        r = self.r
        f = r.choice([10000, 25000, 100000])
        self.emit(f"clock 0 root {f} clkA"); self.cls[0] = 0
        # second root, sometimes with the SAME frequency (still a different source)
        self.emit(f"clock 1 root {f if r.random() < 0.5 else f * 3} clkB"); self.cls[1] = 1
        if r.random() < 0.05:
            self.drive[1] = r.choice(["exp", "sim", "both"])      # a root clock is its own source anyway
        nxt = 2
        if r.random() < 0.85:     # derived clock that shares its parent's pin source (unless logic drives it)
            self.derive(nxt, r.choice([0, 1]), r.choice(['same', 'rst', 'attr'])); nxt += 1
        if r.random() < 0.7:      # derived clock with a different source
            self.derive(nxt, r.choice(list(self.cls)), r.choice(['name', 'mult', 'nophase'])); nxt += 1
        if r.random() < 0.35:     # grandchild: shares through two levels / or breaks at the second
            par = r.choice([k for k in self.cls if k >= 2] or [0])
            self.derive(nxt, par, r.choice(['same', 'attr', 'rst', 'mult'])); nxt += 1
        if r.random() < 0.15:
            self.emit(f"clock {nxt} default"); self.cls[nxt] = nxt; nxt += 1

    def use(self, s, t):
        """a signal carrying s that may be used in domain t; inserts (or omits) a marker"""
        r = self.r
        self.used.add(s)
        b = self.sigs[s]
        if b == 'K':
            return s
        if isinstance(b, tuple) and self.same(b[1], t):
            return s
        self.crossings += 1
        roll = r.random()
        if self.flavor == "clean":
            mode = "mark"
        elif self.flavor == "one":
            mode = "mark" if self.budget_unmarked == 0 or roll < 0.6 else r.choice(["raw", "raw", "wrongsrc", "wrongdst"])
        else:
            mode = "mark" if roll < 0.8 else ("raw" if roll < 0.9 else r.choice(["wrongsrc", "wrongdst"]))
        if not isinstance(b, tuple):
            # mixed / unknown origin: no marker can be correct; either leave it or mark it anyway
            mode = "raw" if mode == "mark" and self.flavor != "clean" and r.random() < 0.5 else mode
            src = r.choice(self.clocks())
        else:
            src = self.member(b[1])
        if mode != "mark":
            self.budget_unmarked -= 1
        if mode == "raw":
            self.unmarked += 1
            return s
        dst = self.member(t)
        if mode == "wrongsrc":
            src = self.member(src, other=True); self.wrong += 1
        if mode == "wrongdst":
            dst = self.member(t, other=True); self.wrong += 1
        n = self.new(('C', dst))
        self.emit(f"cdc {n} {s} {src} {dst}")
        self.used.add(n)
        return n

    def pick(self, t, prefer_local=0.6):
        """some existing signal, preferably one already in domain t"""
        r = self.r
        ids = list(self.sigs)
        if not ids:
            return self.step_pin(t)
        loc = [s for s in ids if isinstance(self.sigs[s], tuple) and self.same(self.sigs[s][1], t)]
        if loc and r.random() < prefer_local:
            return r.choice(loc[-12:] if r.random() < 0.7 else loc)
        return r.choice(ids[-16:] if r.random() < 0.6 else ids)

    def nonconst_local(self, t):
        loc = [s for s in self.sigs if self.sigs[s] != 'K']
        return self.r.choice(loc) if loc else self.step_pin(t)

    # -- statements
    def step_pin(self, t):
        if self.use_unk and self.r.random() < 0.25:
            s = self.new('U'); self.emit(f"pin {s} -")
        else:
            s = self.new(('C', t)); self.emit(f"pin {s} {t}")
        return s

    def step_const(self):
        s = self.new('K'); self.emit(f"const {s} {self.r.randrange(16)}")
        return s

    def step_op(self, t):
        r = self.r
        op = r.choice(["xor", "xor", "add", "sub", "not", "mux", "cat", "and", "or"])
        n_in = {"not": 1, "mux": 3}.get(op, 2)
        raw = []
        for k in range(n_in):
            if op == "mux" and k == 0:
                raw.append(self.nonconst_local(t))     # a constant selector would be folded away
            elif r.random() < 0.12:
                raw.append(self.step_const())
            else:
                raw.append(self.pick(t))
        if op in ("and", "or") and any(self.sigs[x] == 'K' for x in raw):
            op = "xor"                                   # x & 0 would be folded away by constant propagation
        if op == "mux" and (raw[1] == raw[2] or (self.sigs[raw[1]] == 'K' and self.sigs[raw[2]] == 'K')):
            raw[2] = self.step_pin(t)                     # a mux of two identical values (or equal constants) is folded away with its selector
        ops = [self.use(x, t) for x in raw]
        bel = [self.sigs[x] for x in ops]
        if all(b == 'K' for b in bel):
            nb = 'K'
        elif all(b == 'K' or (isinstance(b, tuple) and self.same(b[1], t)) for b in bel):
            nb = ('C', t)
        else:
            nb = 'M'
        s = self.new(nb)
        self.emit(f"op {s} {op} " + " ".join(map(str, ops)))
        return s

    def step_reg(self, t, src=None):
        r = self.r
        if src is None:
            src = self.pick(t)
            if self.sigs[src] == 'K':                     # a register of a constant is folded away (with everything feeding its enable)
                src = self.nonconst_local(t)
        d = self.use(src, t)
        en = "-"
        if r.random() < 0.25:
            en = str(self.use(self.nonconst_local(t), t))
        s = self.new(('C', t))
        self.emit(f"reg {s} {t} {d} {1 if r.random() < 0.5 else 0} {en}")
        return s

    def step_out(self, t, src=None):
        d = self.use(self.pick(t) if src is None else src, t)
        if self.use_unk and self.r.random() < 0.1:
            self.emit(f"out - {d}")
        else:
            self.emit(f"out {t} {d}")

    def step_fwd(self, t):
        s = self.new(('C', t)); self.emit(f"fwd {s}")
        self.fwd_open.append((s, t, self.nsig))
        return s

    def close_fwd(self, idx=None):
        r = self.r
        s, t, born = self.fwd_open.pop(r.randrange(len(self.fwd_open)) if idx is None else idx)
        older = [x for x in self.sigs if x < s and self.sigs[x] != 'K']   # (a constant behind a marker is folded away)
        if older and r.random() < 0.4:
            # combinational forward reference to something that cannot depend on s
            d = self.use(r.choice(older), t)
        else:
            d = self.step_reg(t)                          # loop closed through a register
        self.emit(f"bind {s} {d}")
        self.used.add(d)

    def step_ext(self, t):
        """external module with 1..4 input ports on (mostly) different clocks and 0..2 output ports"""
        r = self.r
        cl = self.clocks()
        k = r.choice([1, 2, 2, 3, 3, 4])
        args = []
        for _ in range(k):
            c = t if r.random() < 0.4 else r.choice(cl)
            roll = r.random()
            raw = self.step_const() if roll < 0.12 else self.pick(c)
            d = self.use(raw, c)
            args.append(f"in {d}{r.choice(':@')}{c}")
        nout = r.choice([0, 1, 1, 2])
        outs = []
        for _ in range(nout):
            c = r.choice(cl)
            s = self.new(('C', c))
            outs.append(s)
            args.append(f"out {s}{r.choice(':@')}{c}")
        se = nout == 0 or r.random() < 0.3
        self.emit("ext " + ("se " if se else "") + " ".join(args))

    def step_mem(self, t):
        r = self.r
        if not self.mems or r.random() < 0.3:
            m = len(self.mems); self.mems.append(m)
            if r.random() < 0.4:                          # MemType::EXTERNAL: becomes io pins in post-processing
                self.mem_ext.add(m)
                self.emit(f"mem {m} 16 1 ext {r.choice([1, 1, 2])}")
            else:
                self.emit(f"mem {m} 16 {1 if r.random() < 0.5 else 0}")
        m = r.choice(self.mems)
        if r.random() < 0.5 and not (m in self.mem_ext and m in self.mem_wclk):
            t = self.mem_wclk.setdefault(m, t)           # "All write ports to a memory must have the same clock"
            a = self.use(self.pick(t), t); d = self.use(self.nonconst_local(t), t)
            en = "-"
            if r.random() < 0.5:                          # conditional write: the condition becomes the write enable
                en = str(self.use(self.nonconst_local(t), t))
            self.emit(f"mwr {m} {t} {a} {d} {en}")
        else:
            self.mem_read(m, t)

    def mem_read(self, m, t):
        a = self.use(self.nonconst_local(t), t)
        b = self.sigs[a]
        s = self.new(b if b != 'K' else 'M')
        self.emit(f"mrd {s} {m} {a} {t}")
        self.mem_has_read.add(m)

    def run(self):
        r = self.r
        self.make_clocks()
        cl = self.clocks()
        weights = [r.choice([1, 2, 4]) for _ in cl]
        for c in cl[:2]:
            self.step_pin(c)
        for c, mode in sorted(self.drive.items()):
            d = r.choice([0, 1])
            self.used.add(d)
            self.emit(f"clkdrive {c} {d} {mode}")
        for _ in range(self.size):
            t = r.choices(cl, weights)[0]
            x = r.random()
            if x < 0.10:
                self.step_pin(t)
            elif x < 0.14:
                self.step_const()
            elif x < 0.50:
                self.step_op(t)
            elif x < 0.68:
                self.step_reg(t)
            elif x < 0.76:
                self.step_out(t)
            elif x < 0.82:
                if self.fwd_open and r.random() < 0.5:
                    self.close_fwd()
                else:
                    self.step_fwd(t)
            elif x < 0.90:
                if self.depth > 0 and r.random() < 0.5:
                    self.emit("area_end"); self.depth -= 1
                elif self.depth < 3:
                    self.emit(f"area_begin blk{self.depth}_{r.randrange(100)}"); self.depth += 1
            elif x < 0.95 and self.use_mem:
                self.step_mem(t)
            elif x < 0.955 and self.use_ext:
                self.step_ext(t)
            elif x < 0.97 and self.use_c2s:
                s = self.new(('C', t)); self.emit(f"clk2sig {s} {t}")
            else:
                self.step_op(t)
        for m in self.mems:                              # a memory nobody reads is culled together with its write ports
            if m not in self.mem_has_read:
                self.mem_read(m, r.choice(cl))
        while self.fwd_open:
            self.close_fwd(0)
        while self.depth > 0:
            self.emit("area_end"); self.depth -= 1
        # every value must reach an output pin (in its own domain), otherwise it is culled and a
        # crossing in its cone disappears with it
        obs = self.observable()
        for s in sorted(self.sigs, reverse=True):
            if s in obs:
                continue
            b = self.sigs[s]
            t = b[1] if isinstance(b, tuple) else r.choice(cl)
            self.emit(f"out {self.member(t)} {s}")
            obs = self.observable()
        self.emit("end")
        return self.lines


def gen_batch(seed, count, tier, tag="g"):
    rng = random.Random(seed * 7919 + 13)
    progs = []
    for i in range(count):
        fl = rng.choices(["clean", "one", "sloppy"], [0.38, 0.27, 0.35])[0]
        if tier == "quick":
            size = rng.choice([6, 10, 16, 24, 32, 40])
        else:
            size = rng.choice([8, 16, 24, 40, 60, 90, 120])
        g = Gen(rng, f"{tag}{seed}_{i}", size, fl, use_mem=rng.random() < 0.15,
                use_unk=rng.random() < 0.10, use_c2s=rng.random() < 0.08, use_ext=rng.random() < 0.35)
        lines = g.run()
        progs.append(dict(name=g.name, lines=lines, flavor=fl, crossings=g.crossings,
                          unmarked=g.unmarked, wrong=g.wrong, mem=g.use_mem, unk=g.use_unk))
    return progs


def gen_drive_family(seed, tag="d"):
    """Systematic family: derived clock x {undriven, logic-driven in both views, export view only,
    simulation view only} x {same attributes, other reset, other attribute, renamed, frequency-scaled}
    x crossing direction x {unmarked, marked}.  Small designs; the verdict is computed by the model /
    oracle from the dump."""
    rng = random.Random(seed * 104729 + 7)
    progs = []
    k = 0
    for variant in ("same", "rst", "attr", "name", "mult"):
        for mode in ("none", "both", "exp", "sim"):
            for direction in ("p2d", "d2p"):
                for marked in (False, True):
                    f = rng.choice([10000, 25000, 100000])
                    L = [f"design {tag}{seed}_{k}", f"clock 0 root {f} clkA", f"clock 1 root {f * rng.choice([1, 3])} clkB"]
                    sib = rng.random() < 0.5
                    if sib:
                        L.append(f"clock 2 derive 0 {rng.choice(['same', 'rst', 'attr'])}")   # undriven sibling: the parent's family
                    D = 3 if sib else 2
                    par = 2 if sib and rng.random() < 0.3 else 0                               # sometimes a grandchild
                    L.append(f"clock {D} derive {par} {variant}")
                    fam = 2 if sib and rng.random() < 0.5 else 0                               # a clock of the parent's family
                    L += [f"pin 0 {fam}", f"pin 1 {D}", f"pin 2 1"]
                    if mode != "none":
                        L.append(f"clkdrive {D} {rng.choice([0, 2])} {mode}")
                    src_c, dst_c, src_s = (fam, D, 0) if direction == "p2d" else (D, fam, 1)
                    rst = rng.choice([0, 1])
                    L.append(f"reg 3 {src_c} {src_s} {rst} -")
                    x = 3
                    if rng.random() < 0.4:
                        L += ["const 4 5", "op 5 xor 3 4"]; x = 5
                    if marked:
                        L.append(f"cdc 6 {x} {src_c} {dst_c}"); x = 6
                    other = 1 if direction == "p2d" else 0
                    if rng.random() < 0.5:
                        L.append(f"op 7 add {x} {other}"); x = 7
                    L.append(f"reg 8 {dst_c} {x} {rng.choice([0, 1])} -")
                    L.append(f"out {dst_c} 8")
                    L.append("end")
                    progs.append(dict(name=f"{tag}{seed}_{k}", lines=L, flavor="clockdrive", crossings=1,
                                      unmarked=0 if marked else 1, wrong=0, mem=False, unk=False,
                                      family=dict(variant=variant, drive=mode, direction=direction, marked=marked)))
                    k += 1
    return progs


def gen_mem_family(seed, tag="m"):
    """Systematic family: memory {internal, MemType::EXTERNAL} x {unconditional, conditional write} x
    {same clock, separate read clock} x the foreign-domain signal on each port input (write enable
    condition, write address, write data, read address, none) x {unmarked, marked}.  The verdict is
    computed by the model / oracle from the dump."""
    rng = random.Random(seed * 32452843 + 3)
    progs = []
    n = 0
    for ext in (False, True):
        for cond in (False, True):
            for dual in (False, True):
                for pos in (("wren",) if cond else ()) + ("wraddr", "wrdata", "rdaddr", None):
                    for what in (("unmarked", "marked") if pos else ("clean",)):
                        f = rng.choice([10000, 25000, 100000])
                        W = rng.choice([0, 2])
                        R = 1 if dual else rng.choice([0, 2])
                        L = [f"design {tag}{seed}_{n}", f"clock 0 root {f} clkA", f"clock 1 root {f * 3} clkB",
                             f"clock 2 derive 0 {rng.choice(['same', 'rst', 'attr'])}",
                             f"mem 0 16 1" + (f" ext {rng.choice([1, 2])}" if ext else ""),
                             f"pin 0 {W}", f"pin 1 {W}", f"pin 2 {W}", f"pin 3 {R}", "pin 4 0", "pin 5 1"]
                        sig = dict(wraddr=0, wrdata=1, wren=2, rdaddr=3)
                        nxt = 6
                        if rng.random() < 0.5:
                            L.append(f"reg {nxt} {W} 1 1 -"); sig["wrdata"] = nxt; nxt += 1
                        if pos:
                            port_clk = R if pos == "rdaddr" else W
                            fsig, fclk = (5, 1) if port_clk != 1 else (4, 0)
                            if what == "marked":
                                L.append(f"cdc {nxt} {fsig} {fclk} {port_clk}"); fsig = nxt; nxt += 1
                            sig[pos] = fsig
                        L.append(f"mwr 0 {W} {sig['wraddr']} {sig['wrdata']} {sig['wren'] if cond else '-'}")
                        L.append(f"mrd {nxt} 0 {sig['rdaddr']} {R}")
                        L.append(f"out {R} {nxt}")
                        L.append("end")
                        progs.append(dict(name=f"{tag}{seed}_{n}", lines=L, flavor="memory", crossings=1,
                                          unmarked=1 if what == "unmarked" else 0, wrong=0, mem=True, unk=False,
                                          family=dict(variant=("extmem" if ext else "mem") + ("/cond" if cond else "/uncond") + ("/dual" if dual else "/single"),
                                                      drive=pos or "none", direction="", marked=what)))
                        n += 1
    return progs


def gen_ext_family(seed, tag="x"):
    """Systematic family: ExternalModule with k = 1..4 clocked input ports; the odd input sits on every
    position (first / middle / last) and is an unmarked foreign-domain signal, a correctly marked one,
    a clock-less (UNKNOWN domain) pin or a constant; all other ports are driven from their own domain.
    The verdict is computed by the model / oracle from the dump."""
    rng = random.Random(seed * 15485863 + 11)
    progs = []
    n = 0
    for k in (1, 2, 3, 4):
        for pos in list(range(k)) + [None]:
            for what in (("unmarked", "marked", "unknown", "const") if pos is not None else ("clean",)):
                f = rng.choice([10000, 25000, 100000])
                L = [f"design {tag}{seed}_{n}", f"clock 0 root {f} clkA", f"clock 1 root {f * 3} clkB",
                     f"clock 2 derive 0 {rng.choice(['same', 'rst', 'attr'])}",
                     "pin 0 0", "pin 1 1", "pin 2 2", "reg 3 0 0 1 -", "reg 4 1 1 1 -", "reg 5 2 2 0 -"]
                own = {0: [0, 3, 5, 2], 1: [1, 4], 2: [2, 5, 0, 3]}      # clkA and its derived clock are one domain
                nxt = 6
                args = []
                pcs = [rng.choice([0, 1, 2]) for _ in range(k)]
                if k >= 2 and len(set(c == 1 for c in pcs)) == 1:        # at least two different pin sources among the ports
                    pcs[rng.randrange(k)] = 1 if pcs[0] != 1 else 0
                for i, c in enumerate(pcs):
                    sep = rng.choice(":@")
                    if i != pos:
                        args.append(f"in {rng.choice(own[c])}{sep}{c}")
                        continue
                    foreign = rng.choice(own[1] if c != 1 else own[0])
                    fclk = 1 if c != 1 else rng.choice([0, 2])
                    if what == "unmarked":
                        args.append(f"in {foreign}{sep}{c}")
                    elif what == "marked":
                        L.append(f"cdc {nxt} {foreign} {fclk} {c}"); args.append(f"in {nxt}{sep}{c}"); nxt += 1
                    elif what == "unknown":
                        L.append(f"pin {nxt} -"); args.append(f"in {nxt}{sep}{c}"); nxt += 1
                    else:
                        L.append(f"const {nxt} {rng.randrange(16)}"); args.append(f"in {nxt}{sep}{c}"); nxt += 1
                oc = rng.choice([0, 1, 2])
                se = rng.random() < 0.5
                L.append("ext " + ("se " if se else "") + " ".join(args) + f" out {nxt}:{oc}")
                L.append(f"out {oc} {nxt}")
                L.append("end")
                progs.append(dict(name=f"{tag}{seed}_{n}", lines=L, flavor="extmodule", crossings=1,
                                  unmarked=1 if what in ("unmarked", "unknown") else 0, wrong=0, mem=False, unk=what == "unknown",
                                  family=dict(variant=f"ext{k}", drive=("clean" if pos is None else ("first" if pos == 0 else "last" if pos == k - 1 else "middle") if k > 1 else "only"), direction="", marked=what)))
                n += 1
    return progs


# ----------------------------------------------------------------------------
# dump parsing + independent oracle
# ----------------------------------------------------------------------------

def parse_dump(path):
    """-> dict design -> {'pre':blk,'post':blk,'verdict':str}, plus list of build errors"""
    res, errs = {}, []
    cur = None
    with open(path) as f:
        for line in f:
            t = line.split()
            if not t:
                continue
            k = t[0]
            if k == "dump":
                cur = dict(clocks=[], nodes=[], rel={}, dom={}, flagged=None, err=[])
                res.setdefault(t[1], {})[t[2]] = cur
            elif k == "clock":
                d = dict(x.split("=", 1) for x in t[2:])
                cur["clocks"].append(d)
            elif k == "node":
                d = dict(x.split("=", 1) for x in t[2:])
                d["ins"] = [None if x == "-" else tuple(map(int, x.split("."))) for x in d["ins"].split(",")] if d["ins"] else []
                d["clocks"] = [None if x == "-" else int(x) for x in d["clocks"].split(",")] if d["clocks"] else []
                d["nout"] = int(d["nout"])
                for key in ("inclk", "outclk"):
                    d[key] = [None if x == "-" else int(x) for x in d.get(key, "").split(",")] if d.get(key) else []
                cur["nodes"].append(d)
            elif k == "rel":
                cur["rel"][(int(t[1]), int(t[2]))] = (t[3], t[4])
            elif k == "dom":
                cur["dom"][(int(t[1]), int(t[2]))] = t[3]
            elif k == "flagged":
                cur["flagged"] = [int(x) for x in t[1:]]
            elif k in ("infererror", "detecterror"):
                cur["err"].append(line.strip())
            elif k == "verdict":
                res.setdefault(t[1], {})["verdict"] = " ".join(t[2:])
            elif k == "builderror":
                errs.append(line.strip())
                res.setdefault(t[1], {})["verdict"] = "builderror"
    return res, errs


def oracle(blk, lenient_mem=False):
    """Independent specification oracle: which domains reach which output, and whether any node
    combines two domains / receives a foreign domain / is a marker with the wrong source.
    Returns (crossing: bool, info)."""
    clocks = blk["clocks"]

    def inherits(i):
        c = clocks[i]
        if c["parent"] == "-":
            return False
        p = clocks[int(c["parent"])]
        # the clock net must be free of logic drivers in BOTH views (simulation and export)
        return c["selfsim"] == "1" and c["selfexp"] == "1" and p["name"] == c["name"] and (p["fnum"], p["fden"]) == (c["fnum"], c["fden"]) and c["phase"] == "1"

    def pin(i):
        seen = 0
        while inherits(i) and seen < len(clocks) + 1:
            i = int(clocks[i]["parent"]); seen += 1
        return i

    def dom_of(c):        # domain token of a clock port: pin source, or 'U' for "no clock"
        return "U" if c is None else pin(c)

    nodes = blk["nodes"]
    # source / dependency structure per output
    src = {}
    deps = {}
    for v, nd in enumerate(nodes):
        k = nd["kind"]
        for o in range(nd["nout"]):
            if k == "cdc":
                src[(v, o)] = dom_of(nd["clocks"][1])
            elif k == "ext":
                src[(v, o)] = dom_of(nd["outclk"][o])          # every output of an external module is a source of its declared clock
            elif k == "memport":
                # lenient_mem: the orderAfter input (5) only carries the program order of the ports
                deps[(v, o)] = [] if o == 2 else [d for i, d in enumerate(nd["ins"]) if i != 6 and not (lenient_mem and i == 5) and d is not None]
            elif nd["clocks"]:
                src[(v, o)] = dom_of(nd["clocks"][0])
            else:
                deps[(v, o)] = [d for d in nd["ins"] if d is not None]
    reach = {p: {s} for p, s in src.items()}
    for p in deps:
        reach[p] = set()
    # forward propagation to a fixpoint
    users = {}
    for p, ds in deps.items():
        for d in ds:
            users.setdefault(d, []).append(p)
    work = list(src)
    while work:
        q = work.pop()
        for p in users.get(q, []):
            add = reach[q] - reach[p]
            if add:
                reach[p] |= add
                work.append(p)
    sites = []
    for v, nd in enumerate(nodes):
        k = nd["kind"]
        if k in ("sig2clk", "sig2rst"):
            continue
        per_in = [reach.get(d, set()) if d is not None else set() for d in nd["ins"]]
        if k == "memport" and lenient_mem and len(per_in) > 5:
            per_in[5] = set()
        if k == "ext":
            # every port on its own: the signal must be constant or of the port's declared clock
            for i, srcs in enumerate(per_in):
                want = dom_of(nd["inclk"][i]) if i < len(nd["inclk"]) else "U"
                if any(s == "U" or want == "U" or s != want for s in srcs):
                    sites.append(v)
                    break
            continue
        if k == "cdc":
            want = dom_of(nd["clocks"][0])
            if any(s == "U" or want == "U" or s != want for s in per_in[0]):
                sites.append(v)
            continue
        allc = set().union(*per_in) if per_in else set()
        clk = {s for s in allc if s != "U"}
        bad = len(clk) > 1
        unk_inputs = [i for i, s in enumerate(per_in) if "U" in s]
        for i in unk_inputs:
            if any(j != i and per_in[j] for j in range(len(per_in))):
                bad = True
        if nd["clocks"] and nd["clocks"][0] is not None:
            own = pin(nd["clocks"][0])
            if any(s != own for s in allc):
                bad = True
        if bad:
            sites.append(v)
    return bool(sites), sites


# ----------------------------------------------------------------------------
# one pipeline run over a list of programs
# ----------------------------------------------------------------------------

def write_programs(progs, path):
    with open(path, "w") as f:
        for p in progs:
            f.write("\n".join(p["lines"]) + "\n")


def run_stage(cmds, timeout):
    """run several commands concurrently; returns list of (rc, output)"""
    import subprocess
    procs = []
    for cmd, cwd, env in cmds:
        e = dict(os.environ); e.update(env or {})
        procs.append(subprocess.Popen(cmd, cwd=cwd, env=e, stdout=subprocess.PIPE, stderr=subprocess.STDOUT, text=True))
    res = []
    deadline = time.time() + timeout
    for p in procs:
        try:
            out, _ = p.communicate(timeout=max(1, deadline - time.time()))
            res.append((p.returncode, out))
        except subprocess.TimeoutExpired:
            p.kill(); out, _ = p.communicate()
            res.append((124, (out or "") + "\n[timeout]"))
    return res


def evaluate(progs, harness, driver, tagdir, timeout=900, with_model=True, jobs=1):
    """Runs programs through harness (+ driver) and compares.  Returns (stats, problems, dumps).
    problems: list of dicts {design, kind, detail, concrete(bool)}"""
    d = WORK / tagdir
    d.mkdir(parents=True, exist_ok=True)
    stub = WORK / "bin"
    stub.mkdir(parents=True, exist_ok=True)
    dot = stub / "dot"       # Circuit::postprocess calls `dot` twice for every rejected design
    if not dot.exists():
        dot.write_text("#!/bin/sh\nexit 0\n"); dot.chmod(0o755)
    jobs = max(1, min(jobs, len(progs)))
    chunks = [progs[j::jobs] for j in range(jobs)]
    cmds = []
    for j, ch in enumerate(chunks):
        write_programs(ch, d / f"programs{j}.txt")
        rundir = d / f"run{j}"
        rundir.mkdir(parents=True, exist_ok=True)
        if (d / f"dump{j}.txt").exists():
            (d / f"dump{j}.txt").unlink()
        cmds.append(([harness, str(d / f"programs{j}.txt"), str(d / f"dump{j}.txt")], str(rundir), {"PATH": f"{stub}:/usr/bin:/bin"}))
    for j, (rc, out) in enumerate(run_stage(cmds, timeout)):
        if rc != 0 or not (d / f"dump{j}.txt").exists():
            V.infra_error(f"harness run failed rc={rc}\n{out[-2000:]}")
    dumps, berrs = {}, []
    for j in range(jobs):
        dd, be = parse_dump(d / f"dump{j}.txt")
        dumps.update(dd); berrs += be
    model = {}
    if with_model:
        # the extracted code is not tail recursive (unary fuel, list append): give it a deep stack
        cmds = [(["bash", "-c", 'ulimit -s unlimited 2>/dev/null || ulimit -s 4000000; exec "$0" "$1"', driver, str(d / f"dump{j}.txt")], None, None)
                for j in range(jobs)]
        for rc, mout in run_stage(cmds, timeout):
            if rc != 0:
                V.infra_error(f"model driver failed rc={rc}\n{mout[-2000:]}")
            for line in mout.splitlines():
                t = line.split()
                if len(t) >= 3 and t[0] in ("CHK", "RES"):
                    model[(t[0], t[1], t[2])] = line
    byname = {p["name"]: p for p in progs}
    problems = []
    st = dict(designs=0, accept=0, reject=0, other=0, builderror=0, pre_post_differ=0,
              undetermined_ports=0, flagged_nodes=0, lines_compared=0, none_entries=0,
              kinds={}, dom_types=dict(U=0, K=0, C=0, N=0), max_nodes=0)
    for name, p in byname.items():
        e = dumps.get(name)
        if e is None:
            problems.append(dict(design=name, kind="harness-missing-design", detail="", concrete=False)); continue
        verdict = e.get("verdict", "?")
        st["designs"] += 1
        if verdict == "builderror" or "pre" not in e:
            st["builderror"] += 1; continue
        if verdict.startswith("other"):
            st["other"] += 1
        elif verdict == "accept":
            st["accept"] += 1
        elif verdict == "reject":
            st["reject"] += 1
        for ph in ("pre", "post"):
            blk = e.get(ph)
            if blk is None:
                continue
            if blk["err"] or blk["flagged"] is None:
                problems.append(dict(design=name, kind="real-analysis-threw", detail=f"{ph}: {blk['err']}", concrete=True)); continue
            st["max_nodes"] = max(st["max_nodes"], len(blk["nodes"]))
            for nd in blk["nodes"]:
                st["kinds"][nd["kind"]] = st["kinds"].get(nd["kind"], 0) + 1
            for s in blk["dom"].values():
                st["dom_types"][s[0]] += 1
            st["flagged_nodes"] += len(blk["flagged"])
            real_cross = bool(blk["flagged"])
            # (1) model vs real, canonical lines
            if with_model:
                exp_res = f"RES {name} {ph} flagged={','.join(map(str, sorted(blk['flagged'])))} crossing={1 if real_cross else 0}"
                exp_chk = f"CHK {name} {ph} wf=1 rel=1 pin=1 domok=1 infer=1 closed=1 sinks=1"
                got_res, got_chk = model.get(("RES", name, ph)), model.get(("CHK", name, ph))
                if got_chk and any(l.startswith("out -") for l in p["lines"]):
                    # the program detaches the clock of an output pin on purpose (UNKNOWN-domain experiments)
                    got_chk = got_chk.replace("sinks=0", "sinks=1")
                st["lines_compared"] += 2
                if got_chk != exp_chk:
                    problems.append(dict(design=name, kind="model-check-line", detail=f"expected `{exp_chk}` got `{got_chk}`", concrete=False))
                if got_res != exp_res:
                    problems.append(dict(design=name, kind="model-result-line", detail=f"expected `{exp_res}` got `{got_res}`", concrete=False))
            # (2) independent oracle vs real detection on this circuit
            oc, sites = oracle(blk)
            blk["oracle"] = oc
            if oc != real_cross:
                problems.append(dict(design=name, kind="oracle-vs-real-detection", concrete=True,
                                     detail=f"{ph}: independent reachability oracle says crossing={oc} (sites {sites[:6]}), real detectUnguardedCDCCrossings flagged {blk['flagged'][:6]}"))
        # (3) outcome of postprocess
        if verdict in ("accept", "reject"):
            post = e.get("post")
            if post is not None and post["flagged"] is not None and (verdict == "reject") != bool(post["flagged"]):
                problems.append(dict(design=name, kind="postprocess-outcome-vs-detection", concrete=True,
                                     detail=f"postprocess() {verdict}ed but detection on the post-processed circuit flags {post['flagged'][:6]}"))
            pre = e.get("pre")
            if pre is not None and "oracle" in pre:
                has_mem = any(nd["kind"] == "memport" for nd in pre["nodes"])
                if pre["oracle"] and verdict == "accept" and has_mem and oracle(pre, lenient_mem=True)[0]:
                    # a crossing into a data input of a memory port (enable, write enable, address, write data) -- not
                    # merely through the port order chain -- must be rejected whatever the memory passes turn the port into
                    # (for MemType::EXTERNAL: the io pins generated by MemoryGroup::replaceWithIOPins)
                    st["pre_post_differ"] += 1
                    problems.append(dict(design=name, kind="spec-verdict-vs-postprocess-outcome", concrete=True,
                                         detail=f"specification on the design as built finds a crossing into a memory port input / other node (order dependencies between ports ignored), DesignScope::postprocess() -> {verdict}"))
                elif pre["oracle"] and verdict == "accept" and has_mem:
                    # The order dependencies between memory ports (orderAfter/orderBefore) are a conservative
                    # over-approximation before post-processing: read-after-read and write-after-read chains are
                    # resolved by the memory passes and then carry nothing.  Only counted.
                    st["mem_order_resolved"] = st.get("mem_order_resolved", 0) + 1
                elif pre["oracle"] != (verdict == "reject"):
                    st["pre_post_differ"] += 1
                    problems.append(dict(design=name, kind="spec-verdict-vs-postprocess-outcome", concrete=True,
                                         detail=f"specification on the design as built says crossing={pre['oracle']}, DesignScope::postprocess() -> {verdict}"))
        elif verdict.startswith("other"):
            problems.append(dict(design=name, kind="other-exception", concrete=False, detail=verdict, soft=True))
    return st, problems, dumps


def nontrivial(p):
    return p.get("crossings", 0) > 0


def corpus_programs():
    progs = []
    d = V.VERIF / "corpus" / CID
    for f in sorted(d.glob("*.txt")):
        cur = None
        for line in f.read_text().splitlines():
            t = line.split()
            if not t or t[0].startswith("#"):
                continue
            if t[0] == "design":
                cur = dict(name="corpus_" + t[1], lines=["design corpus_" + t[1]], flavor="corpus", crossings=1, unmarked=0, wrong=0, mem=False, unk=False, expect=None)
            elif t[0] == "expect" and cur is not None:
                cur["expect"] = t[1]
            elif cur is not None:
                cur["lines"].append(" ".join(t))
                if t[0] == "end":
                    progs.append(cur); cur = None
    return progs


def shrink(prog, kind, harness, deadline):
    """greedy statement removal keeping a problem of the same kind"""
    lines = prog["lines"]
    if kind == "spec-verdict-vs-postprocess-outcome":
        # this comparison relies on the generator's invariants (every value observable, nothing that
        # constant folding removes); statement removal would break them, so the case is kept whole
        return lines

    def valid(ls):
        defined_s, defined_c, defined_m, depth = set(), set(), set(), 0
        for l in ls[1:-1]:
            t = l.split()
            k = t[0]
            try:
                if k == "clock":
                    if t[2] == "derive" and int(t[3]) not in defined_c: return False
                    defined_c.add(int(t[1]))
                elif k == "area_begin": depth += 1
                elif k == "area_end":
                    depth -= 1
                    if depth < 0: return False
                elif k == "pin":
                    if t[2] != "-" and int(t[2]) not in defined_c: return False
                    defined_s.add(int(t[1]))
                elif k in ("const", "fwd"): defined_s.add(int(t[1]))
                elif k == "op":
                    if any(int(x) not in defined_s for x in t[3:]): return False
                    defined_s.add(int(t[1]))
                elif k == "bind":
                    if int(t[1]) not in defined_s or int(t[2]) not in defined_s: return False
                elif k == "reg":
                    if int(t[2]) not in defined_c or int(t[3]) not in defined_s: return False
                    if t[5] != "-" and int(t[5]) not in defined_s: return False
                    defined_s.add(int(t[1]))
                elif k == "cdc":
                    if int(t[2]) not in defined_s or int(t[3]) not in defined_c or int(t[4]) not in defined_c: return False
                    defined_s.add(int(t[1]))
                elif k == "out":
                    if t[1] != "-" and int(t[1]) not in defined_c: return False
                    if int(t[2]) not in defined_s: return False
                elif k == "mem": defined_m.add(int(t[1]))
                elif k == "mrd":
                    if int(t[2]) not in defined_m or int(t[3]) not in defined_s or int(t[4]) not in defined_c: return False
                    defined_s.add(int(t[1]))
                elif k == "mwr":
                    if int(t[1]) not in defined_m or int(t[2]) not in defined_c: return False
                    if int(t[3]) not in defined_s or int(t[4]) not in defined_s: return False
                    if len(t) > 5 and t[5] != "-" and int(t[5]) not in defined_s: return False
                elif k == "ext":
                    for i in range(1, len(t) - 1):
                        if t[i] in ("in", "out", "clkout"):
                            a, b = re.split("[:@]", t[i + 1])
                            if t[i] == "in" and (int(a) not in defined_s or int(b) not in defined_c): return False
                            if t[i] == "out":
                                if int(b) not in defined_c: return False
                                defined_s.add(int(a))
                            if t[i] == "clkout":
                                if int(b) not in defined_c: return False
                                defined_c.add(int(a))
                elif k == "clkdrive":
                    if int(t[1]) not in defined_c or int(t[2]) not in defined_s: return False
                elif k == "clk2sig":
                    if int(t[2]) not in defined_c: return False
                    defined_s.add(int(t[1]))
            except (ValueError, IndexError):
                return False
        return depth == 0

    changed = True
    rounds = 0
    while changed and time.time() < deadline and rounds < 40:
        changed = False
        rounds += 1
        cands = []
        for i in range(len(lines) - 2, 0, -1):
            c = lines[:i] + lines[i + 1:]
            if valid(c):
                cands.append(c)
        if not cands:
            break
        progs = [dict(name=f"s{j}", lines=["design s%d" % j] + c[1:], crossings=1) for j, c in enumerate(cands)]
        _, problems, _ = evaluate(progs, harness, None, "shrink", timeout=120, with_model=False)
        hit = {p["design"] for p in problems if p["kind"] == kind}
        for j, c in enumerate(cands):
            if f"s{j}" in hit:
                lines = [lines[0]] + c[1:]
                changed = True
                break
    return lines


def main():
    argv = sys.argv
    tier = V.tier()
    seed = V.seed()
    WORK.mkdir(parents=True, exist_ok=True)
    V.build_gatery()
    harness = V.build_harness("C12_cdc", extra_flags=["-fno-access-control"])   # reads ExternalModule::Node_External_Exposed::m_inClock
    res = V.check_properties(CID)
    driver = None
    for attempt in range(5):
        try:
            driver = V.build_model(CID)
            break
        except FileNotFoundError:
            # vcommon.build_model stats every .vo of the shared project; a concurrently running check of another
            # property may just be rebuilding its Properties_*.vo -- retry
            time.sleep(2)
    else:
        V.infra_error("build_model: the shared coq tree kept changing under us")
    if "--build-only" in argv:
        sys.exit(0)
    rep = V.Report(CID)
    rep.add_proof(res)
    known, _fixed = V.known_findings(CID)

    if "--replay" in argv:
        rp = json.loads(Path(argv[argv.index("--replay") + 1]).read_text())
        progs = [dict(name="replay", lines=["design replay"] + rp["program"][1:], crossings=1, flavor="replay")]
    else:
        count = 400 if tier == "quick" else 8000
        # C12_NO_CORPUS=1 is a test knob (used to confirm that the generated designs alone catch a mutation)
        progs = ([] if os.environ.get("C12_NO_CORPUS") else corpus_programs()) + gen_drive_family(seed) + gen_ext_family(seed) + gen_mem_family(seed) + gen_batch(seed, count, tier)
        if tier == "thorough":
            for j in range(1, 6):
                progs += gen_drive_family(seed * 100 + j, tag="e")
                progs += gen_ext_family(seed * 100 + j, tag="y")
                progs += gen_mem_family(seed * 100 + j, tag="n")

    broken = []
    if not res["ok"]:
        broken.append("proof obligations no longer check: " + ", ".join(res["failed"] or ["(dependency failed to compile)"]))
    if driver is None:
        broken.append("extracted model no longer builds: " + V.last_model_log[-400:])

    t0 = time.time()
    st, problems, dumps = evaluate(progs, harness, driver, "main", timeout=1500, with_model=driver is not None,
                                   jobs=(2 if tier == "quick" else 10))
    # corpus expectations (accept / reject as recorded with the case)
    for p in progs:
        if p.get("expect"):
            v = dumps.get(p["name"], {}).get("verdict")
            if v != p["expect"]:
                problems.append(dict(design=p["name"], kind="corpus-expectation", concrete=True,
                                     detail=f"corpus case expects {p['expect']}, postprocess() gave {v}"))
    if "--replay" in argv and rp.get("what") != "spec-verdict-vs-postprocess-outcome":
        # a shrunk replay program no longer satisfies the generator's invariants (see shrink)
        problems = [p for p in problems if p["kind"] != "spec-verdict-vs-postprocess-outcome"]
    hard = [p for p in problems if not p.get("soft")]
    soft = [p for p in problems if p.get("soft")]

    byname = {p["name"]: p for p in progs}
    distinct = set()
    for p in progs:
        if nontrivial(p) and dumps.get(p["name"], {}).get("verdict") in ("accept", "reject"):
            body = re.sub(r"^design \S+", "", "\n".join(p["lines"]))
            distinct.add(hashlib.sha1(body.encode()).hexdigest())
    flav = {}
    for p in progs:
        v = dumps.get(p["name"], {}).get("verdict", "?").split()[0]
        flav.setdefault(p["flavor"], {}).setdefault(v, 0)
        flav[p["flavor"]][v] += 1

    rep.cov["evaluations"] = st["designs"]
    rep.cov["distinct_nontrivial"] = len(distinct)
    rep.cov["rule"] = ("seeded random design programs (2-6 clocks incl. derived clocks sharing / not sharing the parent's pin source, "
                       "fan-in from several domains, registers with enables, pins, constants, forward references and register loops, "
                       "areas, optional internal and MemType::EXTERNAL memories with conditional writes / clock-less pins / external modules with 1-4 clocked input ports / clock nets driven by logic in one or both views) built through the real frontend; a design counts as non-trivial when it "
                       "contains at least one edge between signals of different pin sources (marked, unmarked or wrongly marked) and "
                       "postprocess() ended in accept or CDC-reject; distinct = distinct program text")
    rep.cov["samples"] = [dict(program=p["lines"], flavor=p["flavor"], outcome=dumps.get(p["name"], {}).get("verdict"))
                          for p in progs[:2] + [q for q in progs if q["flavor"] == "one"][:1] + [q for q in progs if q["flavor"] == "clean" and q["crossings"] > 2][:1]]
    rep.cov["traces_validated_against_impl"] = st["lines_compared"] // 2
    rep.cov["histogram"] = dict(outcomes=dict(accept=st["accept"], reject=st["reject"], other_exception=st["other"], builderror=st["builderror"]),
                                by_flavor=flav, node_kinds=st["kinds"], domain_entries=st["dom_types"],
                                flagged_nodes=st["flagged_nodes"], largest_netlist_nodes=st["max_nodes"],
                                soft_other_exceptions=[s["detail"][:120] for s in soft[:5]])
    fam = {}
    for p in progs:
        if p.get("family"):
            fm = p["family"]
            mk = fm['marked'] if isinstance(fm['marked'], str) else ('marked' if fm['marked'] else 'unmarked')
            key = f"{fm['variant']}/{fm['drive']}/{mk}"
            v = dumps.get(p["name"], {}).get("verdict", "?").split()[0]
            fam.setdefault(key, {}).setdefault(v, 0)
            fam[key][v] += 1
    rep.cov["histogram"]["families(derived clock: variant/clock-net-driver/marking; external module: ports/position of the odd input/kind -> outcome)"] = fam
    rep.cov["model_lines_compared"] = st["lines_compared"]
    rep.assumptions = [
        "the Coq definitions relation / check_valid / pin_source / process are hand transcriptions of getOutputClockRelation, checkValidInputClocks, "
        "getClockPinSource and the inferClockDomains loop; their agreement with the C++ is established per run by the comparisons above (sampled designs only)",
        "frontend ExternalModule::Node_External_Exposed is modelled (kind KExt: one declared clock per input port, every output a source of its declared clock); "
        "the harness reads its private members m_inClock / m_outClockRelations (compiled with -fno-access-control). "
        "Still not modelled and not generated: the vendor primitives ALTSYNCRAM / ALTDPRAM / RAMBxE2 with their own overrides; "
        "any other node with more than one clock port would hit HCL_ASSERT in the C++ base rule",
        "memory ports: the verdict is the one of the full DesignScope::postprocess() (DefaultPostprocessing::run: technology mapping, generalOptimization, "
        "memoryDetection, technology mapping incl. Memory2VHDLPattern -> MemoryGroup::replaceWithIOPins for MemType::EXTERNAL, generalOptimization, exportPreparation, then "
        "detectUnguardedCDCCrossings); it is compared with the specification on the design AS BUILT (memory port nodes with their clocks), where only the port order "
        "dependencies (orderAfter) are exempt because the memory passes resolve them; the post-processed netlist must additionally satisfy sinks_clocked",
        "memory contents are not a signal: data written under one clock and read under another through Node_Memory carries no domain (this is what tests/frontend/CDC.cpp expects)",
        "a source without a clock (domain UNKNOWN, only constructible through the hlim API) is treated as an anonymous domain that may not be combined with anything non-constant",
        "the specification is evaluated on the circuit handed to the detector (post-processed) and on the circuit as built; the generator avoids constructs whose crossing would be optimised away",
        "the dump (harness/C12_cdc.cpp) is trusted to reproduce drivers, clock ports and clock attributes faithfully",
    ]

    if broken or hard:
        # ---- search mode: look for a concrete input on which the REAL implementation disagrees with the independent oracle
        budget = 60 if tier == "quick" else 600
        deadline = time.time() + budget
        concrete = [p for p in hard if p["concrete"]]
        extra_seed = seed * 1000 + 1
        while not concrete and time.time() < deadline:
            more = gen_batch(extra_seed, 150, tier, tag="x")
            extra_seed += 1
            _, pr, _ = evaluate(more, harness, None, "search", timeout=300, with_model=False, jobs=4)
            for q in more:
                byname[q["name"]] = q
            concrete = [p for p in pr if p["concrete"] and not p.get("soft")]
        if concrete:
            c = concrete[0]
            prog = byname[c["design"]]
            lines = shrink(prog, c["kind"], harness, time.time() + (25 if tier == "quick" else 120))
            text = c["kind"] + " " + c["detail"]
            if any(k in text for k in known):
                rep.known(text)
            else:
                rep.violation(dict(property=CID, what=c["kind"], detail=c["detail"], program=lines,
                                   original_program=prog["lines"], broken=broken,
                                   other_problems=[f"{p['design']}: {p['kind']}: {p['detail']}" for p in hard[:8]],
                                   replay=f"checks/C12.py --replay <this file>",
                                   expected="postprocess() throws the CDC design-check error iff the specification finds an unmarked crossing",
                                   observed=c["detail"]))
        else:
            rep.violation(dict(property=CID, what="no concrete failing design found", broken=broken,
                               problems=[f"{p['design']}: {p['kind']}: {p['detail']}" for p in hard[:12]],
                               program=(byname[hard[0]["design"]]["lines"] if hard and hard[0]["design"] in byname else [])),
                          nofail=True)
    else:
        # nothing to diagnose: drop the (large) dumps of this run
        for sub in ("main", "search", "shrink"):
            for f in (WORK / sub).glob("dump*.txt"):
                f.unlink()
    rep.finish()


if __name__ == "__main__":
    main()
