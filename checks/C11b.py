"""Second family of the C11 check (called by checks/C11.py): decoration twins of designs that are
RETIMED by post-processing (pipeline hints, movable registers, balance groups; lib/C06_gen.py).
Names, areas/entities and pass-through copies put signal nodes and port signals INSIDE the cone
that forward/backward retiming moves registers across; the retimed circuit of the decorated twin must
behave like the retimed circuit of the plain design.
   tie      both retimed netlists against the real simulator (per-cycle traces)
   theorem  verified certificate (ProductCert, mode compat: C11_cert_sound_compat) A.hint vs B.hint
            for ALL stimuli and cycles; counterexamples replayed on the real simulator
   oracle   the same python-generated stimuli replayed on both twins, real traces compared directly"""
import os, sys, json, random
sys.path.insert(0, os.path.join(os.path.dirname(os.path.abspath(__file__)), "..", "lib"))
import vcommon as V, circ, designgen as G, C06_gen

BUDGET = 1500000
RET_DEF = {"regfwd", "regfb", "pipestage", "pipein", "blocker"}


def decorate_retimed(lines, seed):
    """behaviour-neutral decorations that keep the retiming-specific statements intact"""
    rng = random.Random(seed)
    out, applied, ren, mutable = [lines[0]], [], {}, set()
    for l in lines[1:]:
        t = l.split()
        if t[0] in G.MUT_OPS: mutable.add(t[1])
    area_open, depth = False, 0
    for l in lines[1:]:
        t = l.split()
        if t[0] in ("drop", "dropall"):
            continue
        if t[0] in ("enif", "if"): depth += 1
        if t[0] in ("endenif", "endif"): depth -= 1
        # rename operands to pass-through copies made earlier
        if t[0] in G.DEF_OPS or t[0] in RET_DEF or t[0] in ("out", "warm", "retfwd", "retbwd"):
            t = t[:2] + [ren.get(x, x) for x in t[2:]]
        if t[0] == "name" and rng.random() < 0.5:
            applied.append("unname"); continue
        if not area_open and depth == 0 and t[0] in G.DEF_OPS and rng.random() < 0.15:
            out.append(f"area dar{len(out)}" + (" entity" if rng.random() < 0.5 else "")); area_open = True; applied.append("area")
        out.append(" ".join(t))
        if t[0] in G.DEF_OPS and t[0] != "reg":
            if rng.random() < 0.4:
                out.append(f"name {t[1]} dn_{t[1]}"); applied.append("name")
            if t[1] not in mutable and rng.random() < 0.2:
                out.append(f"var {t[1]}_cp {t[1]}"); ren[t[1]] = t[1] + "_cp"; applied.append("copy")
        if area_open and depth == 0 and rng.random() < 0.4:
            out.append("endarea"); area_open = False
    if area_open:
        out.append("endarea")
    return out, applied


def run(rep, strict_diff):
    work = V.BUILD / "work" / "C11b"
    work.mkdir(parents=True, exist_ok=True)
    for f in work.glob("*"):
        if f.is_file(): f.unlink()
    harness = V.build_harness("C06_retime")
    driver = V.build_model("C01", name="C01")
    n = 40 if rep.tier == "quick" else 300
    rnd = random.Random(rep.seed * 9176 + 3)
    pairs, progs = [], []
    k = 0
    for i in range(n * 3):
        if len(pairs) >= n: break
        m = C06_gen.gen(rep.seed * 700001 + i, f"x{i}", only=rnd.choice(["movable_fwd", "movable_fwd", "stateless", "feedforward", "movable_series", "movable_bwd", "two_groups"]))
        if m.get("expect", "ok") != "ok" or m["in_bits"] > 6:
            continue
        a = [f"design RA{k}"] + m["lines"][1:]
        b, ap = decorate_retimed(a, rep.seed * 13 + i)
        b[0] = f"design RB{k}"
        if not ap: continue
        pairs.append((f"RA{k}", f"RB{k}", a, b, ap, m["template"])); progs += [a, b]; k += 1
    # corpus pairs
    import glob
    for f in sorted(glob.glob(str(V.VERIF / "corpus" / "C11" / "*.rpair"))):
        blocks = ["design " + x.strip() for x in open(f).read().split("design ") if x.strip()]
        if len(blocks) == 2:
            a, b = blocks[0].split("\n"), blocks[1].split("\n")
            a[0], b[0] = f"design RA{k}", f"design RB{k}"
            pairs.append((f"RA{k}", f"RB{k}", a, b, ["corpus"], "corpus:" + os.path.basename(f))); progs += [a, b]; k += 1
    prog = {p[0].split()[1]: p for p in progs}
    G.write_programs(work / "designs.txt", progs)
    # 1) probe run: pins of every design
    circ.run_harness(harness, str(work / "designs.txt"), str(work), "hint,ref", nstim=1, cycles=6)
    stims = []
    usable = []
    for ia, ib, a, b, ap, tmpl in pairs:
        ta = circ.parse_traces(work / f"{ia}.hint.trace"); tb = circ.parse_traces(work / f"{ib}.hint.trace")
        if "SKIP" in ta or "SKIP" in tb or not ta or not tb:
            if ("SKIP" in ta) != ("SKIP" in tb):
                usable.append((ia, ib, ap, tmpl, dict(kind="only one twin could be built / post-processed", A=ta.get("SKIP"), B=tb.get("SKIP"))))
            continue
        pa = next(iter(ta.values()))["pins_in"]; pb = next(iter(tb.values()))["pins_in"]
        if pa != pb:
            usable.append((ia, ib, ap, tmpl, dict(kind="twins have different input pins", A=pa, B=pb))); continue
        st = ";".join(",".join("".join(rnd.choice("01") for _ in range(int(w))) or "e" for _, w in pa) for _ in range(14))
        stims += [f"{ia} {st}", f"{ib} {st}"]
        usable.append((ia, ib, ap, tmpl, None))
    open(work / "stim.txt", "w").write("\n".join(stims) + "\n")
    rep_dir = work / "replay"; rep_dir.mkdir(exist_ok=True)
    for f in rep_dir.glob("*"): f.unlink()
    circ.run_harness(harness, str(work / "designs.txt"), str(rep_dir), "hint,ref", replay_stim=str(work / "stim.txt"))
    cmds = []
    for ia, ib, ap, tmpl, bad in usable:
        if bad: continue
        cmds += [f"tie {work}/{ia}.hint.net {work}/{ia}.hint.trace", f"tie {work}/{ib}.hint.net {work}/{ib}.hint.trace",
                 f"cert compat {work}/{ia}.hint.net {work}/{ib}.hint.net {work}/{ia}.hint.trace {BUDGET}"]
    lines = circ.run_driver(driver, cmds, str(work / "batch")) if driver else []
    tie_ok = sum(1 for l in lines if l.startswith("TIE") and " ok " in l)
    tie_bad = [l for l in lines if l.startswith("TIE") and "MISMATCH" in l]
    cert = [l for l in lines if l.startswith("CERT")]
    ok = [l for l in cert if " OK " in l]; fail = [l for l in cert if " FAIL " in l]; rej = [l for l in cert if " REJECTED " in l]
    viol, broken = [], []
    for ia, ib, ap, tmpl, bad in usable:
        if bad:
            viol.append(dict(kind=bad["kind"], programA=prog[ia], programB=prog[ib], decorations=ap, detail=bad)); continue
        x = circ.parse_traces(rep_dir / f"{ia}.hint.trace").get(f"{ia}.hint replay")
        y = circ.parse_traces(rep_dir / f"{ib}.hint.trace").get(f"{ib}.hint replay")
        if x and y:
            d = strict_diff(x, y)      # fully defined identical stimuli, same power-on: the retimed twins must agree exactly
            if d:
                viol.append(dict(kind="retimed decoration twins show different pin values on the real simulator", programA=prog[ia], programB=prog[ib],
                                 decorations=ap, template=tmpl, stimulus=circ.stim_of(x), real_simulator=d))
    seen = {v["programA"][0] for v in viol}
    for l in fail:
        p = l.split(); ia = p[1].rsplit(".", 2)[0].split("/")[-1]; ib = p[2].rsplit(".", 2)[0].split("/")[-1]
        m = [x for x in p if x.startswith("stimulus=")]
        if f"design {ia}" in seen: continue
        if not m:
            broken.append("certificate failed without stimulus: " + l[:200]); continue
        stim = m[0][len("stimulus="):]
        cex = work / "cex"; cex.mkdir(exist_ok=True)
        G.write_programs(cex / "designs.txt", [prog[ia], prog[ib]])
        open(cex / "stim.txt", "w").write(f"{ia} {stim}\n{ib} {stim}\n")
        circ.run_harness(harness, str(cex / "designs.txt"), str(cex), "hint,ref", replay_stim=str(cex / "stim.txt"))
        x = circ.parse_traces(cex / f"{ia}.hint.trace").get(f"{ia}.hint replay")
        y = circ.parse_traces(cex / f"{ib}.hint.trace").get(f"{ib}.hint replay")
        real = circ.direct_diff(x, y) if x and y else None
        if real:
            viol.append(dict(kind="retimed decoration twins differ (product BFS counterexample confirmed on the real simulator)", programA=prog[ia], programB=prog[ib],
                             stimulus=stim, real_simulator=real, model=l)); seen.add(f"design {ia}")
        else:
            broken.append("model counterexample not reproduced on the real simulator: " + l[:200])
    if tie_bad: broken.append(f"{len(tie_bad)} tie mismatches (retimed twins), first: {tie_bad[0][:250]}")
    if rej: broken.append(f"{len(rej)} certificates rejected by the verified checker (retimed twins), first: {rej[0][:250]}")
    dh = {}
    for _, _, ap, _, _ in usable:
        for d in ap: dh[d] = dh.get(d, 0) + 1
    rep.cov["retimed_twins"] = dict(pairs=len(usable), traces_validated_against_impl=tie_ok, certificates_accepted=len(ok), certificates_failed=len(fail),
                                    too_big=sum(1 for l in cert if " TOOBIG " in l), unsupported=sum(1 for l in cert if " UNSUPPORTED " in l),
                                    decoration_histogram=dh, templates=sorted({t for _, _, _, t, _ in usable}))
    return viol, broken


def run_mem(rep, strict_diff):
    """third family: decoration twins of designs WITH memories (lib/memgen.py), netlists with memories
    (NetMemDefs.v), machine-generic verified certificates (MachineCert.gcheck_cert, extracted driver NM):
    strict A.pre vs B.pre, compat A.def vs B.def; same stimuli by `stimkey`; direct diff of real traces"""
    import memgen
    work = V.BUILD / "work" / "C11m"
    work.mkdir(parents=True, exist_ok=True)
    for f in work.glob("*"):
        if f.is_file(): f.unlink()
    harness = V.build_harness("C01_design")
    driver = V.build_model("NM")
    n, budget = (40, 250000) if rep.tier == "quick" else (240, 1000000)
    pairs, progs = [], []
    for i in range(n):
        a = memgen.gen_mem_design(rep.seed * 910003 + i, f"MA{i}")
        b, ap = G.decorate(a, rep.seed * 77 + i)
        a = [a[0], f"stimkey mp{i}"] + a[1:]
        b = [f"design MB{i}", f"stimkey mp{i}"] + [l for l in b[1:] if not l.startswith("stimkey")]
        pairs.append((f"MA{i}", f"MB{i}", ap)); progs += [a, b]
    prog = {p[0].split()[1]: p for p in progs}
    G.write_programs(work / "designs.txt", progs)
    circ.run_harness(harness, str(work / "designs.txt"), str(work), "pre,def", nstim=2, cycles=10)
    def sched(path):
        t = circ.parse_traces(path)
        return None if "SKIP" in t or not t else [c[2] for c in next(iter(t.values()))["cycles"]]
    cmds, viol, broken, comparable = [], [], [], 0
    for ia, ib, ap in pairs:
        for v in ("pre", "def"):
            ta, tb = circ.parse_traces(work / f"{ia}.{v}.trace"), circ.parse_traces(work / f"{ib}.{v}.trace")
            if ("SKIP" in ta) != ("SKIP" in tb):
                viol.append(dict(kind="only one memory twin could be built / post-processed", variant=v, programA=prog[ia], programB=prog[ib], decorations=ap,
                                 detail=dict(A=ta.get("SKIP"), B=tb.get("SKIP")))); continue
            if "SKIP" in ta: continue
            for i in (ia, ib): cmds.append(f"tie {work}/{i}.{v}.net {work}/{i}.{v}.trace")
            if sched(work / f"{ia}.{v}.trace") != sched(work / f"{ib}.{v}.trace"):
                viol.append(dict(kind="decoration changes the reset schedule of a memory design", variant=v, programA=prog[ia], programB=prog[ib], decorations=ap)); continue
            comparable += 1
            cmds.append(f"cert {'strict' if v == 'pre' else 'compat'} {work}/{ia}.{v}.net {work}/{ib}.{v}.net {work}/{ia}.{v}.trace {budget}")
            if v == "def" and sched(work / f"{ia}.pre.trace") == sched(work / f"{ib}.def.trace"):
                # the decorated twin after post-processing against the PLAIN design as constructed (C01's condition across the twin)
                cmds.append(f"cert refine {work}/{ia}.pre.net {work}/{ib}.def.net {work}/{ia}.pre.trace {budget}")
                tpa = circ.parse_traces(work / f"{ia}.pre.trace")
                for tag, x in tpa.items():
                    y = tb.get(tag.replace(f"{ia}.pre", f"{ib}.def"))
                    d = circ.direct_diff(x, y) if y else None
                    if d:
                        viol.append(dict(kind="decorated memory twin after post-processing differs from the plain design as constructed (real traces)", variant="pre-vs-def",
                                         programA=prog[ia], programB=prog[ib], decorations=ap, stimulus=circ.stim_of(x), real_simulator=d)); break
            for tag, x in ta.items():
                y = tb.get(tag.replace(f"{ia}.", f"{ib}."))
                d = (strict_diff(x, y) if v == "pre" else circ.direct_diff(x, y)) if y else None
                if d:
                    viol.append(dict(kind="real traces of memory decoration twins differ", variant=v, programA=prog[ia], programB=prog[ib], decorations=ap,
                                     stimulus=circ.stim_of(x), real_simulator=d)); break
    lines = circ.run_driver(driver, cmds, str(work / "batch")) if driver else []
    if driver is None: broken.append("extracted memory-netlist model no longer builds")
    tie_bad = [l for l in lines if l.startswith("TIE") and "MISMATCH" in l]
    cert = [l for l in lines if l.startswith("CERT")]
    fail = [l for l in cert if " FAIL " in l]; rej = [l for l in cert if " REJECTED " in l]
    seen = {v["programA"][0] for v in viol}
    for l in fail:
        p = l.split(); fa, fb = p[1].split("/")[-1], p[2].split("/")[-1]
        ia, va = fa.rsplit(".", 2)[0], fa.rsplit(".", 2)[1]; ib = fb.rsplit(".", 2)[0]
        if f"design {ia}" in seen: continue
        m = [x for x in p if x.startswith("stimulus=")]
        if not m: broken.append("memory twin certificate failed without stimulus: " + l[:200]); continue
        stim = m[0][len("stimulus="):]
        cex = work / "cex"; cex.mkdir(exist_ok=True)
        G.write_programs(cex / "designs.txt", [prog[ia], prog[ib]])
        open(cex / "stim.txt", "w").write(f"{ia} {stim}\n{ib} {stim}\n")
        vb = fb.rsplit(".", 2)[1]
        circ.run_harness(harness, str(cex / "designs.txt"), str(cex), ",".join(sorted({va, vb})), replay_stim=str(cex / "stim.txt"))
        x = circ.parse_traces(cex / f"{ia}.{va}.trace").get(f"{ia}.{va} replay"); y = circ.parse_traces(cex / f"{ib}.{vb}.trace").get(f"{ib}.{vb} replay")
        real = (strict_diff(x, y) if (va == "pre" and vb == "pre") else circ.direct_diff(x, y)) if x and y else None
        if real is None and x and y and "clean=true" in l and x["cycles"][-1][1] != y["cycles"][-1][1]:
            real = dict(kind="A's run free of undefined values but B differs", A=x["cycles"][-1][1], B=y["cycles"][-1][1])
        if real:
            viol.append(dict(kind="memory decoration twins differ (product BFS counterexample confirmed on the real simulator)", variant=va,
                             programA=prog[ia], programB=prog[ib], stimulus=stim, real_simulator=real, model=l)); seen.add(f"design {ia}")
        else:
            broken.append("memory twin counterexample not reproduced on the real simulator: " + l[:200])
    if tie_bad: broken.append(f"{len(tie_bad)} tie mismatches (memory twins), first: {tie_bad[0][:250]}")
    if rej: broken.append(f"{len(rej)} certificates rejected by the verified checker (memory twins), first: {rej[0][:250]}")
    rep.cov["memory_twins"] = dict(pairs=len(pairs), compared_variant_pairs=comparable, traces_validated_against_impl=sum(1 for l in lines if l.startswith("TIE") and " ok " in l),
                                   tie_unsupported=sum(1 for l in lines if l.startswith("TIE") and "UNSUPPORTED" in l),
                                   certificates_accepted=sum(1 for l in cert if " OK " in l), certificates_failed=len(fail),
                                   too_big=sum(1 for l in cert if " TOOBIG " in l), unsupported=sum(1 for l in cert if " UNSUPPORTED " in l))
    return viol, broken


def run_wide(rep, strict_diff):
    """fourth family: decoration twins of designs with WIDE signals (lib/widegen.py: 64..400 bits, constants composed per
    64-bit storage word).  Beyond the certificates' state budget: decided by the tie of the Coq model to all real traces
    and by the differential on the real simulator (sampled stimuli; identical values for the constructed twins, C01's
    condition after post-processing incl. the plain design as constructed vs the decorated twin after post-processing)."""
    import widegen
    work = V.BUILD / "work" / "C11w"
    work.mkdir(parents=True, exist_ok=True)
    for f in work.glob("*"):
        if f.is_file(): f.unlink()
    harness = V.build_harness("C01_design")
    driver = V.build_model("C01", name="C01")
    n = 40 if rep.tier == "quick" else 250
    pairs, progs = [], []
    for i in range(n):
        a, _ = widegen.gen_wide_design(rep.seed * 810001 + i, f"WA{i}")
        b, ap = G.decorate(a, rep.seed * 79 + i)
        a = [a[0], f"stimkey wp{i}"] + a[1:]
        b = [f"design WB{i}", f"stimkey wp{i}"] + [l for l in b[1:] if not l.startswith("stimkey")]
        pairs.append((f"WA{i}", f"WB{i}", ap)); progs += [a, b]
    prog = {p[0].split()[1]: p for p in progs}
    G.write_programs(work / "designs.txt", progs)
    circ.run_harness(harness, str(work / "designs.txt"), str(work), "pre,def,min", nstim=2, cycles=6)
    cmds, viol, broken, compared, dh = [], [], [], 0, {}
    for ia, ib, ap in pairs:
        tpa = circ.parse_traces(work / f"{ia}.pre.trace")
        for v in ("pre", "def", "min"):
            ta, tb = circ.parse_traces(work / f"{ia}.{v}.trace"), circ.parse_traces(work / f"{ib}.{v}.trace")
            if ("SKIP" in ta) != ("SKIP" in tb):
                viol.append(dict(kind="only one wide twin could be built / post-processed", variant=v, programA=prog[ia], programB=prog[ib], decorations=ap,
                                 detail=dict(A=ta.get("SKIP"), B=tb.get("SKIP")))); break
            if "SKIP" in ta: break
            for i in (ia, ib): cmds.append(f"tie {work}/{i}.{v}.net {work}/{i}.{v}.trace")
            nin = sum(1 if l.startswith("inb ") else int(l.split()[2]) for l in prog[ia] if l.startswith(("in ", "inb ")))
            if 3 ** nin <= (243 if rep.tier == "quick" else 729):
                # few input bits: the verified certificate closes all stimuli and cycles for this wide pair too
                cmds.append(f"cert {'strict' if v == 'pre' else 'compat'} {work}/{ia}.{v}.net {work}/{ib}.{v}.net {work}/{ia}.{v}.trace 400000")
            found = False
            for tag, x in ta.items():
                y = tb.get(tag.replace(f"{ia}.", f"{ib}."))
                if not y: continue
                compared += 1
                d = strict_diff(x, y) if v == "pre" else circ.direct_diff(x, y)
                if d is None and v != "pre":
                    x0 = tpa.get(tag.replace(f"{ia}.{v}", f"{ia}.pre"))
                    d = circ.direct_diff(x0, y) if x0 else None
                if d:
                    viol.append(dict(kind="real traces of wide decoration twins differ", variant=v, programA=prog[ia], programB=prog[ib], decorations=ap,
                                     stimulus=circ.stim_of(x), real_simulator=d)); found = True; break
            if found: break
        else:
            for d in ap: dh[d] = dh.get(d, 0) + 1
    lines = circ.run_driver(driver, cmds, str(work / "batch")) if driver else []
    tie_bad = [l for l in lines if l.startswith("TIE") and "MISMATCH" in l]
    if tie_bad: broken.append(f"{len(tie_bad)} tie mismatches (wide twins), first: {tie_bad[0][:250]}")
    cert = [l for l in lines if l.startswith("CERT")]
    rej = [l for l in cert if " REJECTED " in l]
    if rej: broken.append(f"{len(rej)} certificates rejected by the verified checker (wide twins), first: {rej[0][:250]}")
    seen = {v["programA"][0] for v in viol}
    for l in [l for l in cert if " FAIL " in l]:
        p = l.split(); fa, fb = p[1].split("/")[-1], p[2].split("/")[-1]
        ia, va = fa.rsplit(".", 2)[0], fa.rsplit(".", 2)[1]; ib, vb = fb.rsplit(".", 2)[0], fb.rsplit(".", 2)[1]
        if prog[ia][0] in seen: continue
        m = [x for x in p if x.startswith("stimulus=")]
        if not m: broken.append("wide twin certificate failed without stimulus: " + l[:200]); continue
        stim = m[0][len("stimulus="):]
        cex = work / "cex"; cex.mkdir(exist_ok=True)
        G.write_programs(cex / "designs.txt", [prog[ia], prog[ib]])
        open(cex / "stim.txt", "w").write(f"{ia} {stim}\n{ib} {stim}\n")
        circ.run_harness(harness, str(cex / "designs.txt"), str(cex), ",".join(sorted({va, vb})), replay_stim=str(cex / "stim.txt"))
        x = circ.parse_traces(cex / f"{ia}.{va}.trace").get(f"{ia}.{va} replay"); y = circ.parse_traces(cex / f"{ib}.{vb}.trace").get(f"{ib}.{vb} replay")
        real = (strict_diff(x, y) if va == "pre" else circ.direct_diff(x, y)) if x and y else None
        if real:
            viol.append(dict(kind="wide decoration twins differ (product BFS counterexample confirmed on the real simulator)", variant=va,
                             programA=prog[ia], programB=prog[ib], stimulus=stim, real_simulator=real, model=l)); seen.add(prog[ia][0])
        else:
            broken.append("wide twin counterexample not reproduced on the real simulator: " + l[:200])
    rep.cov["wide_twins"] = dict(certificates_accepted=sum(1 for l in cert if " OK " in l), certificates_failed=sum(1 for l in cert if " FAIL " in l),
                                 certificates_too_big=sum(1 for l in cert if " TOOBIG " in l), pairs=len(pairs), trace_pairs_compared=compared, traces_validated_against_model=sum(1 for l in lines if l.startswith("TIE") and " ok " in l),
                                 tie_unsupported=sum(1 for l in lines if l.startswith("TIE") and "UNSUPPORTED" in l), decoration_histogram=dh,
                                 note="64..400-bit signals; tie + real-simulator differential under sampled stimuli; verified certificate where the pair has few input bits")
    return viol, broken
