#!/usr/bin/env python3
"""C14 — Condition reasoning (hlim::Conjunction) is logically sound.

proof:   coq/Gatery/Conj*.v, Properties_C14.v (10 theorems, all inputs)
tie:     harness/C14_cnf.cpp (real Conjunction API) vs extracted model (ocaml/C14_driver.ml)
         on the same networks: exhaustive small networks + random larger ones
search:  truth table of the real network vs every positive claim of the real
         predicates / parse / build (SEMFAIL lines of the harness)
"""
import sys, os, json, random, itertools, hashlib, time
sys.path.insert(0, os.path.join(os.path.dirname(os.path.abspath(__file__)), "..", "lib"))
import vcommon as V

CID = "C14"
WORK = V.BUILD / "work" / CID


def node_choices(i, kinds="C0 C1 CX N & S".split()):
    """all nodes that may sit at port index i (drivers among 0..i-1 or unconnected)"""
    drv = ["-"] + [str(k) for k in range(i)]
    for k in kinds:
        if k in ("C0", "C1", "CX"):
            yield k
        elif k in ("N", "S"):
            for d in drv:
                yield f"{k} {d}"
        elif k == "&":
            for d1 in drv:
                for d2 in drv:
                    yield f"& {d1} {d2}"


def exhaustive(natoms, nint, base=None):
    base = list(base) if base else ["A"] * natoms
    natoms = len(base)
    def rec(nodes, left):
        if len(nodes) > natoms:
            yield list(nodes)
        if left == 0:
            return
        for c in node_choices(len(nodes)):
            nodes.append(c)
            yield from rec(nodes, left - 1)
            nodes.pop()
    yield from rec(base, nint)


def random_case(rng, size):
    natoms = rng.randint(2, 5)
    nodes = ["A"] * natoms
    if rng.random() < 0.45:
        # leaves that are DIFFERENT OUTPUT PORTS of one node (Node_RegSpawner / negativeReg / external module outputs):
        # a term is identified by (node, port), not by the node
        for _ in range(rng.choice([1, 1, 2])):
            k = rng.choice([2, 3, 4])
            m = len(nodes)
            nodes.append(f"M {k}")
            nodes += [f"P {m} {p}" for p in range(1, k)]
    while len(nodes) < size:
        i = len(nodes)
        def d():
            if rng.random() < 0.04:
                return "-"
            if rng.random() < 0.6:
                return str(rng.randint(max(0, i - 6), i - 1))
            return str(rng.randint(0, i - 1))
        r = rng.random()
        if r < 0.30: nodes.append(f"N {d()}")
        elif r < 0.62: nodes.append(f"& {d()} {d()}")
        elif r < 0.82: nodes.append(f"S {d()}")
        elif r < 0.86: nodes.append("C1")
        elif r < 0.90: nodes.append("C0")
        elif r < 0.93: nodes.append("CX")
        elif r < 0.97: nodes.append(f"O {d()} {d()}")
        else: nodes.append("A")
    return nodes


def write_cases(path, cases):
    with open(path, "w") as f:
        for cid, nodes, roots in cases:
            f.write(f"case {cid}\n")
            for n in nodes:
                f.write(n + "\n")
            f.write("roots " + " ".join(map(str, roots)) + "\nend\n")


def load_lines(path):
    by = {}
    with open(path) as f:
        for line in f:
            p = line.split()
            if len(p) >= 2:
                by.setdefault(p[1], []).append(line.rstrip("\n"))
    return by


def run_both(harness, model, cases, tag):
    WORK.mkdir(parents=True, exist_ok=True)
    cf = WORK / f"{tag}.cases"
    write_cases(cf, cases)
    oi, om = WORK / f"{tag}.impl", WORK / f"{tag}.model"
    rc, out = V.run([harness, str(cf), str(oi)], timeout=3000)
    if rc != 0:
        V.infra_error(f"harness failed rc={rc}: {out[-2000:]}")
    impl = load_lines(oi)
    mod = None
    if model:
        rc, out = V.run([model, str(cf), str(om)], timeout=3000)
        if rc != 0:
            V.infra_error(f"model driver failed rc={rc}: {out[-2000:]}")
        mod = load_lines(om)
    return impl, mod


def compare(cases, impl, mod):
    """returns (diffs, semfails, skipped, stats)"""
    diffs, sem, skipped = [], [], 0
    stats = dict(terms0=0, terms1=0, terms2p=0, contra=0, undef=0, eq_true=0, neg_true=0, sub_true=0, cbt_true=0, builds=0)
    nontrivial = set()
    for cid, nodes, roots in cases:
        li = impl.get(cid, [])
        if any(l.startswith("SKIP") for l in li):
            skipped += 1
            continue
        for l in li:
            if l.startswith("SEMFAIL"):
                sem.append((cid, l))
        core_i = [l for l in li if l[0] in "PQBIR" and l[1] == " "]
        nt = False
        for l in core_i:
            p = l.split()
            if p[0] == "P":
                if p[3] == "1": stats["undef"] += 1
                elif p[4] == "1": stats["contra"] += 1; nt = True
                else:
                    k = len([x for x in (p[5] if len(p) > 5 else "").split(",") if x])
                    stats["terms0" if k == 0 else "terms1" if k == 1 else "terms2p"] += 1
                    nt = nt or k >= 2
            elif p[0] == "Q" and p[2] != p[3]:
                fl = p[4]
                stats["eq_true"] += fl[0] == "1"; stats["neg_true"] += fl[1] == "1"
                stats["sub_true"] += fl[2] == "1"; stats["cbt_true"] += fl[3] == "1"
                stats["mapkey_equal_true"] = stats.get("mapkey_equal_true", 0) + (len(fl) > 6 and fl[6] == "1")
            elif p[0] == "B":
                stats["builds"] += 1
        if nt:
            nontrivial.add(hashlib.sha1("\n".join(nodes).encode()).hexdigest())
        if mod is not None:
            lm = mod.get(cid, [])
            if core_i != lm:
                first = next(((a, b) for a, b in itertools.zip_longest(core_i, lm) if a != b), None)
                diffs.append((cid, first))
    return diffs, sem, skipped, stats, len(nontrivial)


def gen_cases(tier, seed):
    cases = []
    # corpus first
    cdir = V.VERIF / "corpus" / CID
    if cdir.exists():
        for f in sorted(cdir.glob("*.json")):
            c = json.loads(f.read_text())
            cases.append((f"corpus_{f.stem}", c["nodes"], c["roots"]))
    n = 0
    for nodes in exhaustive(2, 3 if tier == "quick" else 3):
        cases.append((f"e2_{n}", nodes, list(range(len(nodes))))); n += 1
    # all networks over the three output ports of ONE opaque node (+ one ordinary atom in thorough)
    for nodes in exhaustive(0, 2 if tier == "quick" else 3, base=["M 3", "P 0 1", "P 0 2"]):
        cases.append((f"m3_{n}", nodes, list(range(len(nodes))))); n += 1
    if tier == "thorough":
        for nodes in exhaustive(0, 3, base=["M 3", "P 0 1", "P 0 2", "A"]):
            cases.append((f"m3a_{n}", nodes, list(range(len(nodes))))); n += 1
    if tier == "thorough":
        for nodes in exhaustive(3, 3):
            cases.append((f"e3_{n}", nodes, list(range(len(nodes))))); n += 1
    rng = random.Random(seed * 7919 + 13)
    for k in range(1500 if tier == "quick" else 20000):
        size = rng.choice([6, 8, 10, 14, 20, 30, 40])
        nodes = random_case(rng, size)
        nr = min(len(nodes), 6)
        roots = sorted(rng.sample(range(len(nodes)), nr - 2)) + [len(nodes) - 1, len(nodes) - 2]
        cases.append((f"r{k}", nodes, roots))
    return cases


def main():
    rep = V.Report(CID, "proof")
    V.build_gatery()
    harness = V.build_harness("C14_cnf")
    model = V.build_model(CID)
    if "--build-only" in sys.argv:
        sys.exit(0)
    res = V.check_properties(CID)
    rep.add_proof(res)
    forb = V.scan_forbidden()
    known, _fixed = V.known_findings(CID)

    if "--replay" in sys.argv:
        r = json.loads(open(sys.argv[sys.argv.index("--replay") + 1]).read())
        cases = [("replay", r["case"]["nodes"], r["case"]["roots"])] if "case" in r else gen_cases(rep.tier, rep.seed)
    else:
        cases = gen_cases(rep.tier, rep.seed)

    impl, mod = run_both(harness, model, cases, "main")
    diffs, sem, skipped, stats, nontriv = compare(cases, impl, mod)
    bycid = {c[0]: c for c in cases}

    rep.cov["evaluations"] = len(cases) - skipped
    rep.cov["distinct_nontrivial"] = nontriv
    rep.cov["multi_output_leaf_cases"] = sum(1 for c in cases if any(x.startswith("M ") for x in c[1]))
    rep.cov["rule"] = ("networks over AND/NOT/const(0,1,X)/signal/opaque nodes (atoms incl. several output ports of one opaque node): all networks with 2 atoms and <=3 internal nodes "
                       "(3 atoms in thorough) with every port as root, plus seeded random networks of 6..40 ports; "
                       "non-trivial = distinct network in which some root parses to >=2 terms or to a contradiction")
    rep.cov["traces_validated_against_impl"] = len(cases) - skipped if mod is not None else 0
    rep.cov["skipped_construction"] = skipped
    rep.cov["class_histogram"] = stats
    rep.cov["samples"] = [dict(id=c[0], nodes=c[1], roots=c[2], impl=impl.get(c[0], [])[:6]) for c in cases[-2:]]
    rep.cov["exhaustive"] = False
    rep.assumptions += [
        "hlim::Conjunction (CNF.cpp) is modelled by hand (ConjDefs.v); agreement is checked on the sampled networks only",
        "opaque ports (anything but AND/NOT/1-bit constant/signal) take arbitrary Boolean values; the checkComparisons clause of cannotBothBeTrue is dead code (same driver looked up twice) and is not a model parameter",
        "UnstableMap iteration order: results are compared as sorted term lists",
    ]

    broken = []
    if not res["ok"]:
        broken.append("proof obligations failed: " + ", ".join(res["failed"]) + " | " + res["log"][-800:])
    if forb:
        broken.append("forbidden constructs: " + "; ".join(forb[:5]))
    if model is None:
        broken.append("extracted model no longer builds: " + V.last_model_log[-800:])
    if diffs:
        broken.append(f"{len(diffs)} correspondence disagreements, first: {diffs[0]}")

    # search: concrete semantic failures of the real implementation
    if (broken and not sem):
        rng = random.Random(rep.seed + 424242)
        extra = [(f"s{k}", random_case(rng, rng.choice([5, 6, 8, 10, 12])), None) for k in range(4000 if rep.tier == "quick" else 40000)]
        extra = [(i, n, list(range(max(0, len(n) - 7), len(n)))) for i, n, _ in extra]
        t0 = time.time()
        impl2, _ = run_both(harness, None, extra, "search")
        _, sem2, _, _, _ = compare(extra, impl2, None)
        for c in extra: bycid[c[0]] = c
        for k, v in impl2.items(): impl[k] = v
        sem += sem2
        rep.cov["search_cases"] = len(extra)

    reported = set()
    for cid, line in sem:
        c = bycid[cid]
        what = line.split()[2]
        key = f"{what} " + "|".join(c[1])
        if key in reported or len(reported) >= 5:
            continue
        reported.add(key)
        if any(k in key for k in known):
            rep.known(key)
            continue
        rep.violation(dict(property=CID, kind="semantic failure of the real implementation", what=line,
                           case=dict(nodes=c[1], roots=c[2]), impl_output=impl.get(cid, []), broken=broken),
                      tag="sem")
    if broken and not rep.violations and not sem:
        rep.violation(dict(property=CID, kind="proof or correspondence broken, no failing input found",
                           broken=broken,
                           first_disagreement=(dict(case=dict(nodes=bycid[diffs[0][0]][1], roots=bycid[diffs[0][0]][2]),
                                                    impl=diffs[0][1][0], model=diffs[0][1][1]) if diffs else None)),
                      nofail=True, tag="tie")
    rep.cov["disagreements"] = len(diffs)
    rep.cov["semantic_failures"] = len(sem)
    rep.finish()


if __name__ == "__main__":
    main()
