#!/usr/bin/env python3
"""C09 -- the circuit graph stays well formed (and memory safe) under every mutation.

proof:   coq/Gatery/Properties_C09.v -- every operation of NodeIO.cpp / Node.cpp (connectInput = rewireInput,
         disconnectInput with its swap-with-back erase, resizeInputs/Outputs, bypassOutputToInput, moveToGroup,
         attach/detachClock, setOutputConnectionType with its guard, Node_Signal::connectInput, destruction)
         preserves the invariant Inv (both directions of every relation agree, type requirements, one group,
         clock registration, unique ids, nothing dangling); arbitrary sequences by induction; the boolean
         checker wf_check decides Inv (wf_check_reflect).
tie T1:  harness/C09_wf.cpp `nodeio`: seeded random operation sequences on REAL nodes through the hlim
         interface; after every call both edge directions (consumer lists in storage order), group member
         lists, clock registrations are dumped; ocaml/C09_driver.ml replays the same calls on the extracted
         model; the two files must be identical line by line.
tie T2:  harness/C09_wf.cpp `design`: generated designs through the real frontend; the extracted wf_check runs
         on the graph after every construction statement, at every pass boundary of the real Default/Minimal
         post processors (hook), after repeated optimizeSubnet and after shuffleNodes.
search:  an independent python re-implementation of the invariant (no Coq; type agreement only for the kinds that
         copy the driver's type to their output) on the real dumps.
partial: use-after-free / out-of-bounds are not expressible in Gallina.  Thorough tier: the same corpora run
         through an ASan+UBSan build of gatery and of the harness -- supporting evidence only.
"""
import sys, os
sys.path.insert(0, os.path.join(os.path.dirname(os.path.abspath(__file__)), "..", "lib"))
import vcommon as V, designgen as G
import json, glob, hashlib, re, shutil, subprocess, time, concurrent.futures
from pathlib import Path

CID = "C09"
WORK = V.BUILD / "work" / CID


# --------------------------------------------------------------------------------------------------
# independent oracle (python, structural clauses only): used in search mode
# --------------------------------------------------------------------------------------------------
def parse_block(lines):
    """lines of one dump (n/G/K lines) -> dict"""
    nodes, groups, clocks = {}, {}, {}
    dup = []
    for l in lines:
        t = l.split()
        if not t:
            continue
        f = {}
        for x in t[2:]:
            k, _, v = x.partition("=")
            f[k] = v
        if t[0] == "n":
            nid = int(t[1])
            if nid in nodes:
                dup.append(f"node id {nid} twice")
            outs = []
            for o in (f.get("o", "").split(";") if f.get("o", "") else []):
                ty, _, cs = o.partition(":")
                outs.append((ty, cs.split(",") if cs else []))
            nodes[nid] = dict(g=f.get("g", "-"), ins=f["i"].split(",") if f.get("i") else [], outs=outs,
                              clks=f["c"].split(",") if f.get("c") else [], kind=f.get("k"))
        elif t[0] == "G":
            groups[int(t[1])] = dict(p=f.get("p", "-"), m=f["m"].split(",") if f.get("m") else [])
        elif t[0] == "K":
            clocks[int(t[1])] = f["m"].split(",") if f.get("m") else []
    return nodes, groups, clocks, dup


def py_wf(lines, need_group):
    nodes, groups, clocks, bad = parse_block(lines)
    bad = list(bad)
    for nid, n in nodes.items():
        for i, d in enumerate(n["ins"]):
            if d == "-":
                continue
            if d == "X":
                bad.append(f"input {nid}.{i} driven by a destroyed node"); continue
            m, p = map(int, d.split("."))
            if m not in nodes or p >= len(nodes[m]["outs"]):
                bad.append(f"input {nid}.{i}: driver {d} does not exist"); continue
            c = nodes[m]["outs"][p][1].count(f"{nid}.{i}")
            if c != 1:
                bad.append(f"input {nid}.{i} occurs {c} times among the consumers of its driver {d}")
        for p, (_, cs) in enumerate(n["outs"]):
            for a in cs:
                if a == "X":
                    bad.append(f"output {nid}.{p} lists a destroyed consumer"); continue
                m, i = map(int, a.split("."))
                if m not in nodes or i >= len(nodes[m]["ins"]) or nodes[m]["ins"][i] != f"{nid}.{p}":
                    bad.append(f"output {nid}.{p} lists consumer {a} whose driver is not {nid}.{p}")
        g = n["g"]
        if g == "X":
            bad.append(f"node {nid}: group is not a group of this circuit")
        elif g == "-":
            if need_group:
                bad.append(f"node {nid} is in no group")
        else:
            if int(g) not in groups:
                bad.append(f"node {nid}: group {g} missing")
            elif groups[int(g)]["m"].count(str(nid)) != 1:
                bad.append(f"node {nid} occurs {groups[int(g)]['m'].count(str(nid))} times in its group {g}")
        for cp, c in enumerate(n["clks"]):
            if c == "-":
                continue
            if c == "X" or int(c) not in clocks:
                bad.append(f"node {nid} clock port {cp}: clock not of this circuit"); continue
            k = clocks[int(c)].count(f"{nid}.{cp}")
            if k != 1:
                bad.append(f"node {nid} clock port {cp} registered {k} times with clock {c}")
    # type agreement, restated independently for the kinds whose connectInput copies the driver's type to the output
    def otype(d):
        if d in ("-", "X"):
            return None
        m, p = map(int, d.split("."))
        if m not in nodes or p >= len(nodes[m]["outs"]):
            return None
        return nodes[m]["outs"][p][0]
    for nid, n in nodes.items():
        k = n.get("kind") or ""
        same_as_out = {"fwd": [0], "logic1": [0], "logic2": [0, 1], "reg": [0, 1], "shift": [0]}.get(k.split(":")[0])
        if k.startswith("mux:"):
            same_as_out = list(range(1, len(n["ins"])))
        if same_as_out and n["outs"]:
            for i in same_as_out:
                if i < len(n["ins"]):
                    t = otype(n["ins"][i])
                    if t is not None and t != n["outs"][0][0]:
                        bad.append(f"node {nid} ({k}): input {i} has type {t} but the node requires its output type {n['outs'][0][0]}")
    for gid, g in groups.items():
        if g["p"] == "X" or (g["p"] != "-" and int(g["p"]) not in groups):
            bad.append(f"group {gid}: parent missing")
        for m in g["m"]:
            if m == "X" or int(m) not in nodes or nodes[int(m)]["g"] != str(gid):
                bad.append(f"group {gid} lists {m} which is not (any more) a node of this group")
    for cid, l in clocks.items():
        for a in l:
            if a == "X":
                bad.append(f"clock {cid} lists a destroyed node"); continue
            m, cp = map(int, a.split("."))
            if m not in nodes or cp >= len(nodes[m]["clks"]) or nodes[m]["clks"][cp] != str(cid):
                bad.append(f"clock {cid} lists {a} which is not clocked by it")
    return bad


def blocks_t1(path):
    """yields (seq, ops_so_far(list), op_line, [dump lines]) for every op block of a nodeio file"""
    seq, ops, cur, op = None, [], None, None
    with open(path) as f:
        for line in f:
            line = line.rstrip("\n")
            if line.startswith("seq "):
                seq, ops = line.split()[1], []
            elif line.startswith("op "):
                op, cur = line, []
                ops.append(line)
            elif line == "end":
                if cur is not None:
                    yield seq, ops, op, cur
                cur = None
            elif cur is not None:
                cur.append(line)


def blocks_t2(path):
    """yields (tag, [dump lines])"""
    tag, cur = None, None
    with open(path) as f:
        for line in f:
            line = line.rstrip("\n")
            if line.startswith("dump "):
                tag, cur = line[5:], []
            elif line == "end":
                if cur is not None:
                    yield tag, cur
                cur = None
            elif cur is not None:
                cur.append(line)


# --------------------------------------------------------------------------------------------------
# T1
# --------------------------------------------------------------------------------------------------
def reorder_events(before, after):
    """number of consumer / member lists whose surviving elements changed their relative order"""
    def lists(lines):
        d = {}
        for l in lines:
            t = l.split()
            if t[0] == "n":
                o = [x for x in t if x.startswith("o=")][0][2:]
                for p, part in enumerate(o.split(";") if o else []):
                    d[("o", t[1], p)] = part.partition(":")[2].split(",")
            elif t[0] == "G":
                d[("g", t[1])] = [x for x in t if x.startswith("m=")][0][2:].split(",")
        return d
    a, b = lists(before), lists(after)
    n = 0
    for k, la in a.items():
        lb = b.get(k)
        if lb is None:
            continue
        sa, sb = set(la), set(lb)
        if [x for x in la if x in sb] != [x for x in lb if x in sa]:
            n += 1
    return n


def last_try(impl):
    """the calls of the last (unfinished) sequence of a harness output, ending with the call that did not return"""
    ops, pending = [], None
    try:
        with open(impl) as f:
            for line in f:
                line = line.rstrip("\n")
                if line.startswith("seq "):
                    ops, pending = [], None
                elif line.startswith("try "):
                    pending = line[4:]
                elif line.startswith("op "):
                    ops.append(line[3:]); pending = None
    except OSError:
        pass
    return ops, pending


def tmo(quick_s, thorough_s):
    return quick_s if V.tier() == "quick" else thorough_s


def run_t1(harness, driver, mode_args, work, tag, seed):
    """runs the harness (nodeio or ops) and the model replay; returns dict(stats), first mismatch or None"""
    work.mkdir(parents=True, exist_ok=True)
    impl, model = work / f"{tag}.impl.txt", work / f"{tag}.model.txt"
    rc, out = V.run([harness] + mode_args + [str(impl)], timeout=tmo(45, 900), env={"VERIF_SEED": str(seed)})
    crashed = None
    if rc != 0:
        ops, pending = last_try(impl)
        crashed = dict(rc=rc, how=("did not return within the time limit (endless loop?)" if rc == 124 else f"harness exit {rc}"),
                       output=out[-600:], ops_before=ops, call=pending)
    hist = {}
    m = re.search(r"^hist (.*)$", out, re.M)
    if m:
        for kv in m.group(1).split():
            k, _, v = kv.partition("=")
            hist[k] = int(v)
    st = dict(ops=0, seqs=0, lines=0, changed=0, distinct=0, reorders=0, refused={}, hist=hist, model_inv_false=0)
    mismatch = None
    if driver is None:
        return st, None, crashed, impl
    rc, out = V.run([driver, "replay", str(impl), str(model)], timeout=3000)
    if rc != 0:
        return st, dict(kind="driver-error", detail=out[-600:]), crashed, impl
    seen = set()
    prev = None
    seq, ops = None, []
    with open(impl) as fi, open(model) as fm:
        cur_i, cur_m, op = [], [], None
        for li in fi:
            lm = fm.readline()
            li, lm = li.rstrip("\n"), lm.rstrip("\n")
            st["lines"] += 1
            if li.startswith("seq "):
                seq, ops, prev = li.split()[1], [], []
                st["seqs"] += 1
            if li.startswith("op "):
                op = li
                ops.append(li)
                cur_i, cur_m = [], []
                st["ops"] += 1
            if li != lm and mismatch is None:
                # collect the rest of both blocks
                rest_i, rest_m = [li], [lm]
                for x in fi:
                    x = x.rstrip("\n")
                    if x == "end":
                        break
                    rest_i.append(x)
                for x in fm:
                    x = x.rstrip("\n")
                    if x == "end" or x.startswith("#"):
                        break
                    rest_m.append(x)
                mismatch = dict(kind="model-vs-implementation", seq=seq, ops=list(ops), impl_state=cur_i + rest_i,
                                model_state=cur_m + rest_m, first_differing_line=dict(impl=li, model=lm))
                break
            if li == "end" and op is not None:
                if prev is not None and cur_i != prev:
                    st["changed"] += 1
                    h = hashlib.sha1(("\n".join(prev) + "|" + op.split()[1] + "|" + "\n".join(cur_i)).encode()).digest()
                    if h not in seen:
                        seen.add(h)
                    st["reorders"] += 1 if reorder_events(prev, cur_i) else 0
                prev, op = cur_i, None
            elif not li.startswith(("op ", "seq ", "endseq")):
                cur_i.append(li)
                cur_m.append(lm)
        if mismatch is None:
            for lm in fm:
                if lm.startswith("# "):
                    t = lm.split()
                    if t[1].startswith("refused:"):
                        st["refused"][t[1][8:]] = int(t[2])
                    if t[1] == "model-inv-false":
                        st["model_inv_false"] = int(t[2])
    st["distinct"] = len(seen)
    return st, mismatch, crashed, impl


# --------------------------------------------------------------------------------------------------
# T2
# --------------------------------------------------------------------------------------------------
def run_t2(harness, driver, designs, work, seed, extra=1, nproc=None):
    """designs: list of (lines, templates). returns (results, stats, crashed)"""
    if work.exists():
        shutil.rmtree(work)
    work.mkdir(parents=True)
    G.write_programs(work / "designs.txt", [d[0] for d in designs])
    # shard the harness run too: a crash (dangling pointer in a mutated library) then only loses one shard
    nproc = nproc or min(V.NCPU, 8)
    ids = [d[0][0].split()[1] for d in designs]
    shards = [designs[i::nproc] for i in range(nproc)]
    crashed = []

    def one(i):
        if not shards[i]:
            return
        pf = work / f"designs{i}.txt"
        G.write_programs(pf, [d[0] for d in shards[i]])
        rc, out = V.run([harness, "design", str(pf), str(work), "def,min", str(extra)], timeout=tmo(60, 900), env={"VERIF_SEED": str(seed)})
        if rc != 0:
            crashed.append(dict(shard=i, rc=rc, out=out[-800:], designs=[d[0][0].split()[1] for d in shards[i]]))
    with concurrent.futures.ThreadPoolExecutor(max_workers=nproc) as ex:
        list(ex.map(one, range(nproc)))
    files = sorted(glob.glob(str(work / "*.wf")))
    res, stats = [], dict(dumps=0, ok=0, fail=0, skipped=0, kinds={}, errors=[])
    if driver is None:
        return res, stats, crashed, files
    lists = []
    for i in range(nproc):
        fl = files[i::nproc]
        if fl:
            p = work / f"list{i}.txt"
            p.write_text("\n".join(fl) + "\n")
            lists.append(p)

    def chk(p):
        r = subprocess.run([driver, "batch", str(p)], capture_output=True, text=True, timeout=3000)
        return r.stdout.splitlines() + ([f"ERROR driver-exit {r.returncode} {r.stderr[-300:]}"] if r.returncode else [])
    with concurrent.futures.ThreadPoolExecutor(max_workers=nproc) as ex:
        for lines in ex.map(chk, lists):
            for l in lines:
                if l.startswith("WF "):
                    stats["dumps"] += 1
                    if l.endswith(" ok"):
                        stats["ok"] += 1
                    else:
                        stats["fail"] += 1
                        res.append(l)
                elif l.startswith("SKIPPED"):
                    stats["skipped"] += 1
                elif l.startswith("# kind:"):
                    t = l.split()
                    stats["kinds"][t[1][5:]] = stats["kinds"].get(t[1][5:], 0) + int(t[2])
                elif l.startswith("ERROR"):
                    stats["errors"].append(l)
    return res, stats, crashed, files


def unfinished(work, design_ids):
    """(design, variant, last completed boundary) of the dump files of these designs that never reached their last dump"""
    res = []
    for d in design_ids:
        for v in ("def", "min"):
            f = work / f"{d}.{v}.wf"
            if not f.exists():
                continue
            last, done = None, False
            for line in open(f):
                if line.startswith("dump "):
                    last = line[5:].strip()
                    done = "extra:optimizeSubnet-after-shuffle" in line
                elif line.startswith("SKIP"):
                    done = True
            if not done:
                res.append((f.stat().st_mtime, d, v, last))
    res.sort()
    return [(d, v, last) for _, d, v, last in res]


def t2_activity(files):
    """which passes actually changed the graph; number of distinct dumps that differ from their predecessor"""
    changed, distinct, total = {}, set(), 0
    for f in files:
        prev = None
        for tag, lines in blocks_t2(f):
            total += 1
            body = "\n".join(lines)
            if prev is not None and body != prev:
                what = tag.split(" ", 2)[2] if tag.count(" ") >= 2 else tag
                what = re.sub(r"#\d+$", "", what)
                changed[what] = changed.get(what, 0) + 1
                distinct.add(hashlib.sha1((prev + "|" + body).encode()).digest())
            prev = body
    return changed, len(distinct), total


def find_dump(files, tagprefix):
    for f in files:
        for tag, lines in blocks_t2(f):
            if tag.startswith(tagprefix):
                return lines
    return None


def canary(driver, files, work):
    """the checker must reject each kind of damage applied to a real dump (guards against a vacuous check)"""
    src = None
    for f in files:
        for tag, lines in blocks_t2(f):
            if "postprocess:done" in tag and any(l.startswith("K ") and "m=" in l and l.split("m=")[1].strip() for l in lines):
                src = lines
                break
        if src:
            break
    if src is None:
        return None
    def first(pred):
        for i, l in enumerate(src):
            if pred(l):
                return i
        return None
    dam = {}
    i = first(lambda l: l.startswith("n ") and re.search(r" o=[^ ]*:\d+\.\d+", l))
    if i is not None:
        l = src[i]
        dam["consumer entry dropped"] = src[:i] + [re.sub(r"(:)(\d+\.\d+)(,?)", r"\1", l, count=1)] + src[i + 1:]
        dam["consumer entry duplicated"] = src[:i] + [re.sub(r"(:)(\d+\.\d+)", r"\1\2,\2", l, count=1)] + src[i + 1:]
    i = first(lambda l: l.startswith("K ") and re.search(r"m=\d+\.\d+", l))
    if i is not None:
        dam["clocked node not registered"] = src[:i] + [re.sub(r"m=\d+\.\d+,?", "m=", src[i], count=1)] + src[i + 1:]
    i = first(lambda l: l.startswith("n ") and re.search(r" i=\d+\.\d+", l))
    if i is not None:
        dam["driver destroyed"] = src[:i] + [re.sub(r" i=\d+\.\d+", " i=X", src[i], count=1)] + src[i + 1:]
    i = first(lambda l: l.startswith("n ") and re.search(r" g=\d+", l))
    if i is not None:
        dam["node without group"] = src[:i] + [re.sub(r" g=\d+", " g=-", src[i], count=1)] + src[i + 1:]
    i = first(lambda l: l.startswith("n ") and " k=fwd " in l and re.search(r" i=\d+\.\d+ o=1\.(\d+):", l))
    if i is not None:
        dam["type disagrees"] = src[:i] + [re.sub(r" o=1\.(\d+):", lambda m: f" o=1.{int(m.group(1)) + 3}:", src[i], count=1)] + src[i + 1:]
    p = work / "canary.wf"
    with open(p, "w") as f:
        for k, lines in dam.items():
            f.write(f"dump canary 0 {k.replace(' ', '_')}\n" + "\n".join(lines) + "\nend\n")
    r = subprocess.run([driver, "check", str(p)], capture_output=True, text=True, timeout=600)
    out = [l for l in r.stdout.splitlines() if l.startswith("WF ")]
    missed = [l for l in out if l.endswith(" ok")]
    return dict(damages=len(dam), rejected=len(out) - len(missed), missed=missed)


# --------------------------------------------------------------------------------------------------
# thorough: sanitizer build (supporting evidence only)
# --------------------------------------------------------------------------------------------------
ASAN_FLAGS = ("-O1 -g1 -fsanitize=address,undefined -fno-sanitize-recover=all -fsanitize-recover=vptr "
              "-DGATERY_VERIF -Wno-error")
# -g1: line tables are enough for the reports and keep the build small.
# vptr is kept recoverable: NodeIO::~NodeIO -> resizeInputs -> disconnectInput evaluates static_cast<BaseNode*>(this)
# after ~BaseNode has run (NodeIO.cpp:139), which the vptr check reports on EVERY destruction of a connected node.
# That is undefined behaviour by the letter but not an out-of-bounds / use-after-free access (the pointer is only
# compared); it is counted and reported in the evidence, all other sanitizer reports are fatal.


def build_asan():
    B = V.BUILD / "asan"
    with V.Lock("asan"):
        B.mkdir(parents=True, exist_ok=True)
        stamp = B / "flags.stamp"
        if not (B / "build.ninja").exists() or not stamp.exists() or stamp.read_text() != ASAN_FLAGS + str(V.REPO):
            rc, out = V.run(["cmake", "-G", "Ninja", "-S", str(V.REPO), "-B", str(B), "-DCMAKE_BUILD_TYPE=Release",
                             f"-DCMAKE_CXX_FLAGS={ASAN_FLAGS}"], timeout=1200)
            if rc != 0:
                return None, "cmake failed: " + out[-1500:]
            stamp.write_text(ASAN_FLAGS + str(V.REPO))
        rc, out = V.run(["cmake", "--build", str(B), "--target", "gatery_core", "gatery_scl", f"-j{V.NCPU}"], timeout=3000)
        if rc != 0:
            return None, "asan library build failed: " + out[-1500:]
        exe = V.BUILD / "harness" / "C09_wf_asan"
        src = V.VERIF / "harness" / "C09_wf.cpp"
        libs = [B / "libgatery_scl.a", B / "libgatery_core.a"]
        if not exe.exists() or any(x.stat().st_mtime > exe.stat().st_mtime for x in [src, V.VERIF / "harness" / "netdump.h"] + libs):
            cxx = [f for f in V.CXXFLAGS if not f.startswith(f"-I{V.GATERY_B}")] + [f"-I{B}/gen", "-g1", "-fsanitize=address,undefined",
                   "-fno-sanitize-recover=all", "-fsanitize-recover=vptr"]
            ld = ["-Wl,--start-group", str(libs[0]), str(libs[1]), "-Wl,--end-group"] + V.LDLIBS[4:]
            rc, out = V.run(["g++"] + cxx + [str(src), "-o", str(exe)] + ld, timeout=3000)
            if rc != 0:
                return None, "asan harness build failed: " + out[-1500:]
    return str(exe), None


def san_classify(out):
    """-> (fatal report text or None, {location: count} of recoverable vptr notes)"""
    notes = {}
    fatal = None
    for m in re.finditer(r"^(\S+:\d+:\d+): runtime error: (.*)$", out, re.M):
        if m.group(2).startswith("downcast of address"):
            notes[m.group(1)] = notes.get(m.group(1), 0) + 1
        elif fatal is None:
            fatal = out[max(0, m.start() - 200): m.start() + 2500]
    m = re.search(r"ERROR: AddressSanitizer", out)
    if m and fatal is None:
        fatal = out[max(0, m.start() - 200): m.start() + 3000]
    return fatal, notes


def run_asan(exe, work, seed, designs, nseq, nops):
    if work.exists():
        shutil.rmtree(work)
    work.mkdir(parents=True)
    env = {"VERIF_SEED": str(seed), "ASAN_OPTIONS": "detect_leaks=0:abort_on_error=0:halt_on_error=1", "UBSAN_OPTIONS": "print_stacktrace=0"}
    findings, runs, notes = [], 0, {}

    def merge(n):
        for k, v in n.items():
            notes[k] = notes.get(k, 0) + v
    rc, out = V.run([exe, "nodeio", str(nseq), str(nops), str(work / "nodeio.txt")], timeout=3000, env=env)
    runs += 1
    fatal, n = san_classify(out)
    merge(n)
    if rc != 0 or fatal:
        ops, pending = last_try(work / "nodeio.txt")
        findings.append(dict(where=f"nodeio {nseq} {nops} seed {seed}", rc=rc, report=fatal or out[-3000:], ops=ops + ([pending] if pending else [])))
    nproc = min(V.NCPU, 8)
    shards = [designs[i::nproc] for i in range(nproc)]

    def one(i):
        if not shards[i]:
            return None, {}
        pf = work / f"designs{i}.txt"
        G.write_programs(pf, [d[0] for d in shards[i]])
        rc, out = V.run([exe, "design", str(pf), str(work), "def,min", "1"], timeout=3000, env=env)
        fatal, n = san_classify(out)
        if rc != 0 or fatal:
            ids = [d[0][0].split()[1] for d in shards[i]]
            unf = unfinished(work, ids)
            pd = {d[0][0].split()[1]: d[0] for d in shards[i]}
            return dict(where=f"designs shard {i}", rc=rc, report=fatal or out[-3000:], unfinished=unf[:3],
                        program=pd.get(unf[0][0]) if unf else None), n
        return None, n
    with concurrent.futures.ThreadPoolExecutor(max_workers=nproc) as ex:
        for r, n in ex.map(one, range(nproc)):
            runs += 1
            merge(n)
            if r:
                findings.append(r)
    return findings, runs, notes


# --------------------------------------------------------------------------------------------------
def load_corpus():
    progs, opsfiles = [], []
    for f in sorted(glob.glob(str(V.VERIF / "corpus" / CID / "*.prog"))):
        progs.append(([l.rstrip("\n") for l in open(f) if l.strip()], ["corpus:" + os.path.basename(f)]))
    for f in sorted(glob.glob(str(V.VERIF / "corpus" / CID / "*.ops"))):
        opsfiles.append(f)
    return progs, opsfiles


def main():
    global WORK
    rep = V.Report(CID, "proof")
    WORK = WORK / ("replay" if "--replay" in sys.argv else rep.tier)     # quick / thorough / replay runs do not share files
    V.build_gatery()
    harness = V.build_harness("C09_wf")
    driver = V.build_model(CID)
    if "--build-only" in sys.argv:
        sys.exit(0)
    res = V.check_properties(CID)
    rep.add_proof(res)
    forb = [h for h in V.scan_forbidden() if h.startswith(("Wf", "Properties_C09"))]
    known, _ = V.known_findings(CID)
    quick = rep.tier == "quick"
    seed = rep.seed
    broken = []          # what no longer checks
    found = []           # concrete failing inputs

    if not res["ok"]:
        broken.append("proof obligations failed: " + ", ".join(res["failed"] or ["(dependency did not compile)"]))
    if forb:
        broken.append("forbidden construct in the Coq development: " + "; ".join(forb[:5]))
    if driver is None:
        broken.append("extracted model no longer builds: " + V.last_model_log[-500:])

    corpus_progs, corpus_ops = load_corpus()
    replay = None
    if "--replay" in sys.argv:
        replay = json.loads(open(sys.argv[sys.argv.index("--replay") + 1]).read())

    # ---------------- T1 ----------------
    t1_runs = []
    seqfiles = list(corpus_ops)
    if replay and replay.get("ops"):
        p = WORK / "replay.ops"
        WORK.mkdir(parents=True, exist_ok=True)
        p.write_text("seq replay\n" + "\n".join(o if o.startswith("op ") else "op " + o for o in replay["ops"]) + "\nendseq\n")
        seqfiles = [str(p)]
    for f in seqfiles:
        t1_runs.append((f"corpus:{os.path.basename(f)}", ["ops", f]))
    if not replay:
        nseq, nops = (300, 150) if quick else (1500, 200)
        t1_runs.append((f"generated nseq={nseq} nops={nops} seed={seed}", ["nodeio", str(nseq), str(nops)]))
    t1 = dict(ops=0, seqs=0, lines=0, changed=0, distinct=0, reorders=0, refused={}, hist={}, model_inv_false=0)
    impl_files = []
    for k, (name, args) in enumerate(t1_runs):
        st, mismatch, crashed, impl = run_t1(harness, driver, args, WORK / "t1", f"r{k}", seed)
        impl_files.append((name, args, impl))
        for key in ("ops", "seqs", "lines", "changed", "distinct", "reorders", "model_inv_false"):
            t1[key] += st[key]
        for key in ("refused", "hist"):
            for a, b in st[key].items():
                t1[key][a] = t1[key].get(a, 0) + b
        if crashed:
            broken.append(f"T1 {name}: call on real nodes {crashed['how']}: {crashed['call']}")
            found.append(dict(property=CID, what="a call of the graph interface on real nodes " + crashed["how"],
                              ops=crashed["ops_before"] + ([crashed["call"]] if crashed["call"] else []), call=crashed["call"],
                              expected="every call returns and leaves a well-formed graph", observed=crashed["output"][-300:]))
        if mismatch:
            mismatch["run"] = name
            broken.append(f"T1 {name}: model and implementation differ after op #{len(mismatch.get('ops', []))} of seq {mismatch.get('seq')}")
            rep.cov.setdefault("t1_mismatches", []).append(mismatch)
        if st["model_inv_false"]:
            broken.append("T1: inv_check false on a model state (contradicts ops_preserve_Inv: extraction/driver problem)")

    # ---------------- T2 ----------------
    designs = list(corpus_progs)
    if replay and replay.get("program"):
        designs = [(replay["program"], ["replay"])]
    elif replay:
        designs = []
    else:
        ndes = 60 if quick else 400
        for i in range(ndes):
            designs.append(G.gen_design(seed * 100003 + i, f"g{i}"))
    fails, t2, t2crashed, files = ([], dict(dumps=0, ok=0, fail=0, skipped=0, kinds={}, errors=[]), [], [])
    prog = {d[0][0].split()[1]: d for d in designs}
    if designs:
        fails, t2, t2crashed, files = run_t2(harness, driver, designs, WORK / "t2", seed, extra=1)
    for c in t2crashed:
        how = "did not return within the time limit (endless loop?)" if c["rc"] == 124 else f"crashed (exit {c['rc']})"
        unf = unfinished(WORK / "t2", c["designs"])
        broken.append(f"T2: construction / post-processing of a real design {how}; unfinished: {unf[:3]}")
        for d, v, last in unf[:1]:
            found.append(dict(property=CID, what="construction / post-processing of a real design " + how, design=d, variant=v,
                              last_completed_boundary=last, program=prog.get(d, ([], []))[0], observed=c["out"][-300:],
                              expected="every pass returns and leaves a well-formed graph"))
    if t2["errors"]:
        broken.append("T2: driver errors: " + "; ".join(t2["errors"][:3]))
    for l in fails[:50]:
        broken.append("T2: extracted wf_check rejects a real graph: " + l)
    changed, t2_distinct, t2_total = t2_activity(files) if files else ({}, 0, 0)
    can = canary(driver, files, WORK) if (driver and files) else None
    if can is not None and can["missed"]:
        V.infra_error("C09 canary: the checker accepted a damaged dump: " + "; ".join(can["missed"]))

    # ---------------- thorough: sanitizers ----------------
    asan = None
    if not quick and not replay:
        exe, err = build_asan()
        if exe is None:
            asan = dict(built=False, error=err)
        else:
            findings, runs, notes = run_asan(exe, WORK / "asan", seed, designs, 600, 150)
            asan = dict(built=True, flags=ASAN_FLAGS, runs=runs, fatal_reports=len(findings),
                        recoverable_vptr_notes_by_location=notes,
                        note="supporting evidence only: absence of reports on the sampled corpora, not a proof of memory safety")
            for fnd in findings:
                found.append(dict(property=CID, what="sanitizer report (ASan/UBSan build of gatery + harness; supporting evidence tier)",
                                  where=fnd["where"], report=fnd["report"], ops=fnd.get("ops"), program=fnd.get("program"),
                                  unfinished=fnd.get("unfinished"),
                                  how_to_rerun="build/harness/C09_wf_asan nodeio|design ... (see checks/C09.py run_asan)"))

    # ---------------- search mode ----------------
    searched = 0
    if broken:
        t0 = time.time()
        budget = 60 if quick else 600
        # 1. the independent oracle on everything the real implementation produced in this run
        for name, args, impl in impl_files:
            if not os.path.exists(impl):
                continue
            for seq, ops, op, lines in blocks_t1(impl):
                searched += 1
                bad = py_wf(lines, need_group=False)
                if bad:
                    found.insert(0, dict(property=CID, what="real graph violates the invariant after a sequence of interface calls",
                                      run=name, seq=seq, ops=[o[3:] if o.startswith("op ") else o for o in ops],
                                      observed_state=lines, violations=bad[:10], expected="both directions of every relation agree"))
                    break
            if any("violates the invariant after" in x["what"] for x in found) or time.time() - t0 > budget:
                break
        for f in files:
            if sum(1 for x in found if "pass boundary" in x["what"]) >= 2 or time.time() - t0 > budget:
                break
            for tag, lines in blocks_t2(f):
                searched += 1
                bad = py_wf(lines, need_group=True)
                if bad:
                    did = tag.split()[0].rsplit(".", 1)
                    found.insert(0, dict(property=CID, what="real graph violates the invariant at a construction step / pass boundary",
                                      design=did[0], variant=did[1] if len(did) > 1 else "?", boundary=tag,
                                      program=prog.get(did[0], ([], []))[0], violations=bad[:10], dump=lines[:400],
                                      expected="both directions of every relation agree, every node in one group"))
                    break
        # 2. fresh cases until the budget is used
        k = 0
        while not found and time.time() - t0 < budget:
            k += 1
            st, mm, crashed, impl = run_t1(harness, None, ["nodeio", "200", "150"], WORK / "search", f"s{k}", seed + 1000 * k)
            if crashed:
                found.append(dict(property=CID, what="a call of the graph interface on real nodes " + crashed["how"],
                                  ops=crashed["ops_before"] + ([crashed["call"]] if crashed["call"] else []), call=crashed["call"],
                                  observed=crashed["output"][-300:]))
                break
            for seq, ops, op, lines in blocks_t1(impl):
                searched += 1
                bad = py_wf(lines, need_group=False)
                if bad:
                    found.append(dict(property=CID, what="real graph violates the invariant after a sequence of interface calls",
                                      seed=seed + 1000 * k, seq=seq, ops=[o[3:] for o in ops], observed_state=lines, violations=bad[:10]))
                    break
            if found:
                break
            ds = [G.gen_design((seed + k) * 100003 + 7000 + i, f"s{k}_{i}") for i in range(40)]
            _, _, cr, fl = run_t2(harness, None, ds, WORK / "search_t2", seed, extra=1)
            pd = {d[0][0].split()[1]: d for d in ds}
            for c in cr:
                found.append(dict(property=CID, what="harness crashes while post-processing (dangling pointer suspected)", detail=c["out"][-600:],
                                  programs=[pd[i][0] for i in c["designs"] if i in pd][:8]))
            for f in fl:
                for tag, lines in blocks_t2(f):
                    searched += 1
                    bad = py_wf(lines, need_group=True)
                    if bad:
                        did = tag.split()[0].rsplit(".", 1)
                        found.append(dict(property=CID, what="real graph violates the invariant at a construction step / pass boundary",
                                          design=did[0], variant=did[1], boundary=tag, program=pd.get(did[0], ([], []))[0],
                                          violations=bad[:10], dump=lines[:400]))
                        break
                if found:
                    break

    for fnd in found[:5]:
        text = json.dumps(fnd, default=str)
        if any(k and k in text for k in known):
            rep.known(fnd.get("what", "") + " " + str(fnd.get("violations", ""))[:200])
        else:
            rep.violation(fnd)
    if broken and not found:
        rep.violation(dict(property=CID, what="no concrete failing input found by the independent oracle", broken=broken[:20],
                           searched_states=searched, t1_mismatch=(rep.cov.get("t1_mismatches") or [None])[0],
                           t2_rejected=fails[:5],
                           rejected_dump=(find_dump(files, fails[0].split(" nodes=")[0][3:]) or [])[:400] if fails else None,
                           rejected_program=(prog.get(fails[0].split()[1].rsplit(".", 1)[0], ([], []))[0] if fails else None)),
                      nofail=True)

    # ---------------- evidence ----------------
    rep.cov["evaluations"] = t1["ops"] + t2["dumps"]
    rep.cov["distinct_nontrivial"] = t1["distinct"] + t2_distinct
    rep.cov["rule"] = ("T1: seeded random sequences of interface calls on real hlim nodes (Node_Signal, Node_Register, a node class exposing "
                       "the protected NodeIO members); a case = one call in its pre-state; non-trivial = the dumped graph changed; distinct by "
                       "sha1(pre-state, call kind, post-state).  T2: generated designs (lib/designgen.py templates) through the real frontend and "
                       "both post processors; a case = one graph dump (construction statement / pass boundary / optimizeSubnet / shuffleNodes); "
                       "non-trivial = differs from the previous dump of that design; distinct by sha1(previous dump, dump)")
    rep.cov["traces_validated_against_impl"] = t1["ops"]
    rep.cov["t1"] = dict(sequences=t1["seqs"], calls=t1["ops"], lines_compared=t1["lines"], calls_that_changed_the_graph=t1["changed"],
                         calls_after_which_a_consumer_or_member_list_was_reordered=t1["reorders"],
                         refused_by_the_model_and_thrown_by_the_code=t1["refused"], calls_by_kind=t1["hist"])
    rep.cov["t2"] = dict(designs=len(designs), dumps_checked=t2["dumps"], accepted=t2["ok"], rejected=t2["fail"], skipped_variants=t2["skipped"],
                         dumps_that_differ_from_predecessor=t2_distinct, node_kinds_seen=t2["kinds"],
                         boundaries_that_changed_the_graph=dict(sorted(changed.items(), key=lambda kv: -kv[1])[:60]), canary=can)
    if asan is not None:
        rep.cov["sanitizer_supporting_evidence"] = asan
    samples = []
    for name, args, impl in impl_files[-1:]:
        if os.path.exists(impl):
            for seq, ops, op, lines in blocks_t1(impl):
                if len(ops) == 12:
                    samples.append(dict(kind="T1", calls=[o[3:] for o in ops], state_after=lines))
                    break
    if designs:
        d = designs[-1]
        samples.append(dict(kind="T2", program=d[0], templates=d[1]))
    rep.cov["samples"] = samples
    rep.cov["explanation"] = ("proof: Inv preservation for every modelled operation and all sequences; wf_check decides Inv. partial: memory safety "
                              "itself is only covered by the sanitizer run of the thorough tier (supporting evidence, not a proof)")
    rep.assumptions = [
        "the Gallina operations are hand transcriptions of NodeIO.cpp / Node.cpp; agreement with the code is established by the T1 replay only (sampled)",
        "T2 covers the designs the generator reaches; passes are not modelled, only their results are checked at every boundary",
        "the per-kind type requirement table (WfDefs.kind_req) is our reading of the connectInput functions of the core nodes; kinds not in the table have no requirement",
        "the dumper prints `X` for any pointer not found among the live objects of the circuit without dereferencing it; Clock::getClockedNodes itself dereferences its entries",
        "T2: Circuit::m_nextNodeId / m_nextGroupId / m_nextClockId are not observable; the imported graph takes max id + 1, so for real dumps clause (v) checks uniqueness of ids only",
        "use-after-free / out-of-bounds accesses are NOT covered by the theorems; in-bounds and liveness are preconditions (op_struct_pre) of the model operations",
        "NodeIO::connectInput / rewireInput / attachClock do not bounds-check their port index (only getDriver does); calls with an out-of-range index are outside the modelled contract",
    ]
    if not rep.violations and not quick:
        # the thorough tier leaves several hundred MB of dumps behind; they are only interesting after a failure
        for d in ("t1", "t2", "asan"):
            shutil.rmtree(WORK / d, ignore_errors=True)
    rep.finish()


if __name__ == "__main__":
    main()
